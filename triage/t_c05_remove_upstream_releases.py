"""C05 witness: zip / combine_latest drop the elements buffered for an upstream when that upstream is
disconnected, without releasing the holds they retained for them (the counters never return to zero)."""
from streamz import Stream
from streamz.core import RefCounter

a, b = Stream(), Stream()
z = a.zip(b)
L = z.sink_to_list()
r = RefCounter()
a.emit(1, metadata=[{'ref': r}])
assert r.count == 1            # buffered in zip, waiting for b
a.disconnect(z)
print('zip: count after disconnecting the upstream that delivered it:', r.count)
assert r.count == 0

a, b = Stream(), Stream()
cl = a.combine_latest(b)
L = cl.sink_to_list()
r = RefCounter()
a.emit(1, metadata=[{'ref': r}])
assert r.count == 1            # most recent value of a, kept by combine_latest
a.disconnect(cl)
print('combine_latest: count after disconnect:', r.count)
assert r.count == 0
print('OK')
