"""debug helper: python3 -m sa.dump streamz.core partition update"""
import sys
from .model import Model
from .paths import enumerate_paths, compute_field_elem, fmt_path

if __name__ == '__main__':
    mod, cls, meth = sys.argv[1:4]
    M = Model()
    c = M.cls(mod, cls)
    fe = compute_field_elem(M, c)
    print('field_elem', fe)
    fn = c.find(meth)
    ps = enumerate_paths(M, fn, cls=c, field_elem=fe)
    print(len(ps), 'paths')
    for s, status in ps[:int(sys.argv[4]) if len(sys.argv) > 4 else 30]:
        print(status, fmt_path(s.events, 60))
        print('    env', {k: sorted(v) for k, v in s.env.items() if v}, 'shape', {k: v for k, v in s.shape.items() if v != 'OTHER'})
