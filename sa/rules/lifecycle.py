"""Source lifecycle rules (DESIGN 4.8): SINGLE-FLIGHT, IDEMPOTENT-GUARD, STOP-CHECK."""
import ast

from ..model import AnalysisError, own_nodes, src, self_field

RULES = {
    'SINGLE-FLIGHT': 'a site that schedules a long-lived polling coroutine is guarded by a flag that only the spawned activity '
                     'itself resets (entry guard + reset in finally); a guard that stop() can re-arm admits two loops after '
                     'stop(); start()',
    'IDEMPOTENT-GUARD': 'every effect of start() is control-dependent on "currently stopped", every effect of stop() on '
                        '"currently running"',
    'STOP-CHECK': 'every polling loop that emits re-reads the stop flag once per cycle',
    'ITERABLE-ORDER': 'from_iterable takes items from its iterable in iteration order, emits each one and awaits downstream '
                      'before taking the next',
}
SCHED = {'add_callback', 'spawn_callback', 'call_later', 'create_task', 'ensure_future', '_create_task'}
STATE_FLAGS = {'stopped', 'started', 'continue_', '_polling'}


def _self_calls(fn_node):
    out = set()
    for n in own_nodes(fn_node):
        if isinstance(n, ast.Call) and isinstance(n.func, ast.Attribute) and isinstance(n.func.value, ast.Name) \
                and n.func.value.id == 'self':
            out.add(n.func.attr)
        if isinstance(n, ast.Call) and isinstance(n.func, ast.Attribute) and isinstance(n.func.value, ast.Call) \
                and isinstance(n.func.value.func, ast.Name) and n.func.value.func.id == 'super':
            out.add(n.func.attr)
    return out


def closure(cls, name, seen=None):
    """methods reachable from self.<name> through self-calls (MRO-resolved), incl. overriding definitions in
    subclasses are NOT followed: the analysis is per defining class"""
    seen = seen if seen is not None else {}
    fn = cls.find(name)
    if fn is None or name in seen:
        return seen
    seen[name] = fn
    for c in _self_calls(fn.node):
        closure(cls, c, seen)
    return seen


def has_suspending_loop(fn_node):
    for n in own_nodes(fn_node):
        if isinstance(n, (ast.While, ast.For, ast.AsyncFor)):
            if any(isinstance(x, (ast.Await, ast.Yield, ast.YieldFrom)) for x in ast.walk(n)):
                return True
    return False


def entry_guard(fn, ctx=None, cls=None):
    """recognise on the event paths of the wrapper coroutine (any spelling: early return, nested if, logging in the guard):
        tested field G truthy  -> nothing is started, G is not written
        G falsy                -> G = True before the first call-out/suspension of the activity, and G = False after the last
                                  one on every exit (normal and exceptional)
    returns G or None"""
    if ctx is None:
        return None
    paths = list(ctx.paths(fn, cls))
    cands = set()
    for st, status in paths:
        for e in st.events:
            if e.kind == 'COND' and isinstance(e.a, str) and e.a.startswith('self.') and e.a[5:].isidentifier():
                cands.add(e.a[5:])
    for G in sorted(cands):
        ok = True
        n_active = 0
        for st, status in paths:
            evs = st.events
            act = [i for i, e in enumerate(evs) if e.kind in ('SELFCALL', 'SUS', 'UCALL', 'SUPERCALL', 'ENTER')]
            sts = [(i, e) for i, e in enumerate(evs) if e.kind == 'ST' and e.a == G]
            conds = [(i, e) for i, e in enumerate(evs) if e.kind == 'COND' and e.a == 'self.' + G]
            if not act:
                if sts or not conds or conds[0][1].b is not True:
                    ok = False
                continue
            n_active += 1
            first, last = act[0], act[-1]
            if not conds or conds[0][0] > first or conds[0][1].b is not False:
                ok = False
                continue

            def const(e, v):
                x = (e.x or {}).get('value')
                return isinstance(x, ast.Constant) and x.value is v
            claim = [i for i, e in sts if conds[0][0] < i < first and const(e, True)]
            reset = [i for i, e in sts if i > last and const(e, False)]
            early_reset = [i for i, e in sts if i < last and not const(e, True)]
            if not claim or not reset or early_reset:
                ok = False
        if ok and n_active:
            return G
    return None


def _awaits_activity(T):
    """inside the single-flight wrapper the result of the polling call is awaited whenever it is awaitable
    (unconditionally, or under inspect.isawaitable / gen.isawaitable) - a narrower test (iscoroutine) lets a
    Future-returning run() escape and the flag is reset while the activity is still running"""
    calls = [n for n in own_nodes(T.node) if isinstance(n, ast.Assign) and isinstance(n.value, ast.Call)
             and isinstance(n.value.func, ast.Attribute) and isinstance(n.value.func.value, ast.Name)
             and n.value.func.value.id == 'self' and isinstance(n.targets[0], ast.Name)]
    direct = [n for n in own_nodes(T.node) if isinstance(n, ast.Await) and isinstance(n.value, ast.Call)
              and isinstance(n.value.func, ast.Attribute) and isinstance(n.value.func.value, ast.Name) and n.value.func.value.id == 'self']
    if direct:
        return True, ''
    for c in calls:
        name = c.targets[0].id
        awaits = [a for a in own_nodes(T.node) if isinstance(a, ast.Await) and isinstance(a.value, ast.Name) and a.value.id == name]
        if not awaits:
            continue
        for a in awaits:
            guards = [g for g in own_nodes(T.node) if isinstance(g, ast.If) and any(x is a for b in g.body for x in ast.walk(b))]
            if not guards:
                return True, ''
            t = src(guards[-1].test).replace(' ', '')
            if t in ('isawaitable(%s)' % name, 'inspect.isawaitable(%s)' % name, 'gen.isawaitable(%s)' % name):
                return True, ''
            return False, ('the polling activity is awaited only if %s: a run() that returns a Future (tornado coroutine) is '
                           'not awaited and the single-flight flag is reset while it is still running' % src(guards[-1].test))
    return False, 'the single-flight wrapper does not await the polling activity it starts'


def writers_of(cls, field):
    out = []
    for c in cls.mro:
        for mname, fn in c.methods.items():
            for n in own_nodes(fn.node):
                tg = []
                if isinstance(n, ast.Assign):
                    tg = n.targets
                elif isinstance(n, ast.AugAssign):
                    tg = [n.target]
                for t in tg:
                    if self_field(t) == field:
                        out.append((c, fn, n))
    return out


def check_single_flight(ctx, R, classes, note_classes=()):
    for cls in list(classes) + list(note_classes):
        for mname, fn in cls.methods.items():
            for n in own_nodes(fn.node):
                if not (isinstance(n, ast.Call) and isinstance(n.func, ast.Attribute) and n.func.attr in SCHED):
                    continue
                targets = [a.attr for a in n.args if isinstance(a, ast.Attribute) and isinstance(a.value, ast.Name)
                           and a.value.id == 'self' and cls.find(a.attr) is not None]
                for t in targets:
                    reach = closure(cls, t)
                    if not any(has_suspending_loop(f.node) for f in reach.values()):
                        continue            # not a long-lived polling activity
                    T = cls.find(t)
                    con = ctx.construct(fn)
                    G = entry_guard(T, ctx, cls)
                    ok, detail = False, ''
                    if G is not None:
                        aw_ok, aw_detail = _awaits_activity(T)
                        if not aw_ok:
                            R.ob('SINGLE-FLIGHT', ctx.construct(T), 'awaits-activity', False, aw_detail, ctx.where(T, T.node.lineno))
                        else:
                            R.ob('SINGLE-FLIGHT', ctx.construct(T), 'awaits-activity', True)
                        others = [(c, f) for c, f, _ in writers_of(cls, G) if f is not T and f.name != '__init__']
                        # subclasses of cls must not write G either
                        for sub in ctx.model.subclasses(cls):
                            others += [(c, f) for c, f, _ in writers_of(sub, G) if f is not T and f.name != '__init__'
                                       and (c, f) not in others]
                        ok = not others
                        detail = 'the single-flight flag self.%s is also written by %s' % (
                            G, ', '.join(sorted({f.qual for _, f in others})))
                    else:
                        # guard at the scheduling site
                        guard = None
                        for x in own_nodes(fn.node):
                            if isinstance(x, ast.If) and any(y is n for s in x.body for y in ast.walk(s)):
                                guard = x
                        if guard is None:
                            detail = 'the polling coroutine %s is scheduled unguarded' % t
                        else:
                            gf = sorted({self_field(x) for x in ast.walk(guard.test) if self_field(x)})
                            resetters = set()
                            for f_ in gf:
                                for c, wfn, _ in writers_of(cls, f_):
                                    if wfn.name not in reach and wfn is not fn and wfn.name != '__init__':
                                        resetters.add(wfn.qual)
                            ok = not resetters and bool(gf)
                            detail = ('the guard (%s) can be re-armed by %s while the previous polling loop is still '
                                      'suspended: stop(); start() then leaves two loops running'
                                      % (', '.join('self.' + g for g in gf), ', '.join(sorted(resetters))))
                            if ok:
                                # check-then-act: the flag must be claimed in the guarded block itself (synchronously with
                                # the test), not later inside the scheduled coroutine
                                claimed = any(isinstance(x, ast.Assign) and self_field(x.targets[0]) in gf
                                              for b in guard.body for x in ast.walk(b))
                                if not claimed:
                                    ok = False
                                    detail = ('the guard (%s) is tested here but only set inside the scheduled coroutine: two '
                                              'start() calls before the callback runs both pass the test and schedule two loops'
                                              % ', '.join('self.' + g for g in gf))
                    if cls in note_classes:
                        if not ok:
                            R.note('SINGLE-FLIGHT outside C18\'s anchors: %s schedules %s: %s' % (con, t, detail))
                        continue
                    R.ob('SINGLE-FLIGHT', con, t, ok, detail if not ok else '', ctx.where(fn, n.lineno))


def _effects(stmt):
    """call-outs and field stores inside a statement (ignoring its own if-test)"""
    out = []
    for n in ast.walk(stmt):
        if isinstance(n, ast.Call):
            out.append(n)
        if isinstance(n, (ast.Assign, ast.AugAssign)):
            for t in (n.targets if isinstance(n, ast.Assign) else [n.target]):
                if self_field(t):
                    out.append(n)
    return out


def check_idempotent_guard(ctx, R, classes, note_classes=()):
    for cls in list(classes) + list(note_classes):
        for mname in ('start', 'stop'):
            fn = cls.methods.get(mname)
            if fn is None:
                continue
            con = ctx.construct(fn)
            bad = None
            for s in fn.node.body:
                if isinstance(s, ast.Expr) and isinstance(s.value, ast.Constant):
                    continue
                # early-return form:  if <not in the state to act>: return   ... effects ...
                if isinstance(s, ast.If) and len(s.body) == 1 and isinstance(s.body[0], ast.Return) and s.body[0].value is None \
                        and not s.orelse and ({self_field(x) for x in ast.walk(s.test) if self_field(x)} & STATE_FLAGS):
                    t = src(s.test).replace(' ', '')
                    if 'stopped' in t:
                        neg = t.startswith('not')
                        # start(): `if not self.stopped: return`; stop(): `if self.stopped: return`
                        if (mname == 'start' and not neg) or (mname == 'stop' and neg):
                            bad = (s, 'the early return %s has the wrong polarity for %s()' % (src(s.test), mname))
                    break
                if isinstance(s, (ast.Import, ast.ImportFrom, ast.Pass)):
                    continue
                if isinstance(s, ast.If):
                    flds = {self_field(x) for x in ast.walk(s.test) if self_field(x)}
                    flags = flds & STATE_FLAGS
                    if flags:
                        # polarity: start acts when stopped / not running; stop acts when not stopped / running
                        t = src(s.test).replace(' ', '')
                        pos = 'not' not in t.split('self.')[0]
                        if 'stopped' in flags:
                            want_pos = (mname == 'start')
                            neg = t.startswith('not')
                            if (want_pos and neg) or (not want_pos and not neg):
                                bad = (s, 'the guard %s has the wrong polarity for %s()' % (src(s.test), mname))
                            # the guard must *imply* the state in which the call has work to do: every disjunct of an `or`
                            # has to say so itself (start: stopped; stop: not stopped), otherwise the other disjunct lets a
                            # redundant call through
                            if isinstance(s.test, ast.BoolOp) and isinstance(s.test.op, ast.Or):
                                for v in s.test.values:
                                    tv = src(v).replace(' ', '')
                                    good = tv in (('self.stopped',) if mname == 'start' else ('notself.stopped',))
                                    if not good:
                                        bad = (s, 'the guard of %s() also lets the call through when `%s` holds, which does not '
                                                  'imply that the source is %s: a redundant %s() has an effect'
                                               % (mname, src(v), 'stopped' if mname == 'start' else 'running', mname))
                        if s.orelse and _effects(ast.Module(body=s.orelse, type_ignores=[])):
                            bad = (s, 'effects in the else-branch of the state guard')
                        continue
                    # an if on configuration that only imports is harmless
                    if not [e for b in (s.body + s.orelse) for e in _effects(b)] or all(
                            isinstance(b, (ast.Import, ast.ImportFrom)) for b in s.body + s.orelse):
                        continue
                    bad = (s, 'effects guarded by %s, which is not the running/stopped state' % src(s.test))
                    continue
                eff = _effects(s)
                if eff:
                    bad = (s, 'unguarded effect `%s`: calling %s() twice (or before start) is not a no-op'
                           % (src(s)[:60], mname))
            if cls in note_classes:
                if bad:
                    R.note('IDEMPOTENT-GUARD outside C18\'s anchors: %s: %s' % (con, bad[1]))
                continue
            R.ob('IDEMPOTENT-GUARD', con, mname, bad is None, bad[1] if bad else '',
                 ctx.where(fn, bad[0].lineno) if bad else ctx.where(fn, fn.node.lineno))


def _emits_in(cls, node, depth=0, nested=None):
    """does the AST under node emit, directly, through self-calls or through closures defined next to it"""
    for n in ast.walk(node):
        if isinstance(n, ast.Name) and nested and n.id in nested and depth < 3:
            if _emits_in(cls, nested[n.id], depth + 1):
                return True
        if isinstance(n, ast.Attribute) and isinstance(n.value, ast.Name) and n.value.id == 'self' and depth < 3 \
                and cls is not None and n.attr not in ('start', 'stop', 'loop'):
            ref = cls.find(n.attr)      # a method handed over as a callback (loop.add_callback(self._checkpoint_emit, part))
            if ref is not None and ref.cls is not None and ref.cls.module.name.startswith('streamz.sources') \
                    and _emits_in(cls, ref.node, depth + 1):
                return True
        if isinstance(n, ast.Call) and isinstance(n.func, ast.Name) and depth < 3 and cls is not None:
            h = cls.module.functions.get(n.func.id)     # a module-level helper that emits for the node it is handed
            if h is not None and _emits_in(cls, h.node, depth + 1):
                return True
        if isinstance(n, ast.Call) and isinstance(n.func, ast.Attribute):
            if n.func.attr in ('_emit', 'emit'):
                return True
            if isinstance(n.func.value, ast.Name) and n.func.value.id == 'self' and depth < 3 and cls is not None:
                callee = cls.find(n.func.attr)
                if callee is None and n.func.attr == '_run':
                    return True
                if callee is not None and callee.name not in ('start', 'stop') and _emits_in(cls, callee.node, depth + 1):
                    return True
                if callee is not None and callee.name == '_run':
                    return True      # abstract hook: subclasses emit there
    return False


def _reads_flag(node):
    for n in ast.walk(node):
        if isinstance(n, ast.Attribute) and n.attr in ('stopped',):
            return True
        if isinstance(n, ast.Subscript) and isinstance(n.value, ast.Name) and n.value.id in ('continue_',):
            return True
        if isinstance(n, ast.Call) and isinstance(n.func, ast.Attribute) and n.func.attr == 'is_set':
            return True
    return False


EFFECT_KINDS = ('EM', 'SUS', 'CALL', 'SELFCALL', 'UCALL', 'SUPERCALL', 'DEFER', 'ST', 'TK', 'RET', 'REL', 'ENTER')


def check_stop_check(ctx, R, funcs):
    """a polling loop that emits re-reads the stop flag at the top of every cycle, before the cycle's first effect:
    in the while-test, or in a test whose stop-outcome leaves the loop (break / return) with no effect in between.
    Decided on the event paths of the function, so the spelling of the exit (break, return from a helper, while-test,
    `while True: if flag: break`) and temporaries do not matter."""
    for cls, fn in funcs:
        loops = [l for l in own_nodes(fn.node) if isinstance(l, (ast.While, ast.For, ast.AsyncFor))]
        if not loops:
            continue
        nested = {x.name: x for x in own_nodes(fn.node) if isinstance(x, (ast.FunctionDef, ast.AsyncFunctionDef))}
        cand = [l for l in loops if _emits_in(cls, l, nested=nested)]
        if not cand:
            continue
        paths = None
        k = 0
        for l in loops:
            if l not in cand:
                continue
            if isinstance(l, ast.While) and _reads_flag(l.test):
                R.ob('STOP-CHECK', ctx.construct(fn), 'loop%d' % k, True, '', ctx.where(fn, l.lineno))
                k += 1
                continue
            if not isinstance(l, ast.While) and not isinstance(l.iter, (ast.Name, ast.Attribute)):
                continue            # iterates a freshly computed value, not a field of the source: not a polling loop
            if isinstance(l, (ast.For, ast.AsyncFor)) and isinstance(l.iter, ast.Name) and not any(
                    isinstance(a, ast.Assign) and isinstance(a.value, ast.Attribute) and self_field(a.value)
                    and any(isinstance(t, ast.Name) and t.id == l.iter.id for t in a.targets) for a in own_nodes(fn.node)):
                continue            # a local that is never bound to a field of the source
            if paths is None:
                paths = list(ctx.paths(fn, cls))
            polling = isinstance(l, ast.While)
            verdict = None      # None: no cycle seen;  True / (False, detail, events)
            seen_exit = False
            for st, status in paths:
                evs = st.events
                idx = [i for i, e in enumerate(evs) if e.kind == 'ITER' and e.depth == 0 and (e.x or {}).get('node') is not None
                       and e.x['node'].lineno == l.lineno]
                for n_, i in enumerate(idx):
                    if not polling and evs[i].x.get('iter_field'):
                        polling = True
                    if not polling:
                        break
                    end = len(evs)
                    for j in range(i + 1, len(evs)):
                        e = evs[j]
                        if e.kind in ('ITER', 'LOOPEXIT', 'LOOPCUT') and e.depth == 0 and (e.x or {}).get('node') is not None \
                                and e.x['node'].lineno == l.lineno:
                            end = j
                            break
                    seg = evs[i + 1:end]
                    first_eff = next((j for j, e in enumerate(seg) if e.kind in EFFECT_KINDS
                                      and not (e.kind == 'CALL' and e.a in ('debug', 'info', 'warning'))), None)
                    checks = [j for j, e in enumerate(seg) if e.kind == 'COND' and (e.x or {}).get('node') is not None
                              and _reads_flag(e.x['node'])]
                    if first_eff is None:
                        if checks:
                            seen_exit = True
                        continue
                    before = [j for j in checks if j < first_eff]
                    if before:
                        if verdict is None:
                            verdict = True
                    else:
                        later = bool(checks)
                        verdict = (False, 'the stop flag is only read after the cycle\'s work: a polling cycle still begins (and may '
                                   'emit) after stop()' if later else
                                   'a polling loop that emits never re-reads the stop flag: stop() cannot end it', evs)
                if isinstance(verdict, tuple):
                    break
            if not polling:
                continue
            if verdict is None:
                verdict = (False, 'a polling loop that emits never re-reads the stop flag: stop() cannot end it', None)
            if verdict is True and not seen_exit:
                verdict = (False, 'the stop flag is tested at the top of the cycle but no outcome of the test leaves the loop '
                           'before the cycle\'s work', None)
            from ..paths import fmt_path
            ok = verdict is True
            R.ob('STOP-CHECK', ctx.construct(fn), 'loop%d' % k, ok, '' if ok else verdict[1], ctx.where(fn, l.lineno),
                 fmt_path(verdict[2]) if not ok and verdict[2] else None)
            k += 1


def _inside_other(loops, l):
    return any(o is not l and any(x is l for x in ast.walk(o)) for o in loops)


def check_iterable_order(ctx, R):
    """on symbolic normal forms: the emitting loop iterates self._iterable itself, emits the loop element unchanged,
    exactly once, awaits that emission before the next element; an element is skipped only when the source was stopped"""
    from ..symexpr import SymEval, nf
    M = ctx.model
    cls = M.cls('streamz.sources', 'from_iterable')
    fn = cls.methods.get('run')
    if fn is None:
        raise AnalysisError('anchor vanished: from_iterable.run')
    con = ctx.construct(fn)
    paths = [r for r in SymEval(M, cls).run(fn) if not r.raised]
    emitting = [r for r in paths if r.emits]
    if not emitting:
        raise AnalysisError('from_iterable.run: no path emits (unrecognised spelling)')
    bad_o, bad_a = None, None
    for r in emitting:
        for i, (data, md, susp, loop) in enumerate(r.emits):
            it = loop[-1][0].replace(' ', '') if loop else None
            if it != 'self._iterable':
                bad_o = bad_o or 'the loop iterates %s, not the iterable itself in its own order' % (loop[-1][0] if loop else 'nothing')
            elif nf(data) != 'ELEM(self._iterable)':
                bad_o = bad_o or 'an item is emitted as %s, not as it is' % src(data)[:60]
            if i not in r.awaited:
                bad_a = bad_a or 'the next item is taken before downstream has finished with the previous one'
        if len(r.emits) != 1:
            bad_o = bad_o or 'each item must be emitted exactly once (found %d emissions per item)' % len(r.emits)
    for r in paths:
        for k, (c, o) in enumerate(r.conds):
            if c == '<continue>':
                bad_o = bad_o or 'an item can be skipped (continue)'
            if c == '<break>' and not r.emits:
                g = r.conds[k - 1] if k else None
                if not (g and ((g[0].replace(' ', '') == 'self.stopped' and g[1]) or (g[0].replace(' ', '') == 'notself.stopped' and not g[1]))):
                    bad_o = bad_o or 'the loop can be left early for a reason other than the source being stopped'
    R.ob('ITERABLE-ORDER', con, '_iterable', bad_o is None, bad_o or '', ctx.where(fn, fn.node.lineno), None, len(paths))
    R.ob('ITERABLE-ORDER', con, 'await-before-next', bad_a is None, bad_a or '', ctx.where(fn, fn.node.lineno), None, len(emitting))
