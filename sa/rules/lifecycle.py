"""Source lifecycle rules (DESIGN 4.8): SINGLE-FLIGHT, IDEMPOTENT-GUARD, STOP-CHECK."""
import ast

from ..model import AnalysisError, own_nodes, src, self_field

RULES = {
    'SINGLE-FLIGHT': 'a site that schedules a long-lived polling coroutine is guarded by a flag that only the spawned activity '
                     'itself resets (entry guard + reset in finally); a guard that stop() can re-arm admits two loops after '
                     'stop(); start()',
    'IDEMPOTENT-GUARD': 'every effect of start() is control-dependent on "currently stopped", every effect of stop() on '
                        '"currently running"',
    'STOP-CHECK': 'every polling loop that emits re-reads the stop flag once per cycle',
    'ITERABLE-ORDER': 'from_iterable takes items from its iterable in iteration order, emits each one and awaits downstream '
                      'before taking the next',
}
SCHED = {'add_callback', 'spawn_callback', 'call_later', 'create_task', 'ensure_future', '_create_task'}
STATE_FLAGS = {'stopped', 'started', 'continue_', '_polling'}


def _self_calls(fn_node):
    out = set()
    for n in own_nodes(fn_node):
        if isinstance(n, ast.Call) and isinstance(n.func, ast.Attribute) and isinstance(n.func.value, ast.Name) \
                and n.func.value.id == 'self':
            out.add(n.func.attr)
        if isinstance(n, ast.Call) and isinstance(n.func, ast.Attribute) and isinstance(n.func.value, ast.Call) \
                and isinstance(n.func.value.func, ast.Name) and n.func.value.func.id == 'super':
            out.add(n.func.attr)
    return out


def closure(cls, name, seen=None):
    """methods reachable from self.<name> through self-calls (MRO-resolved), incl. overriding definitions in
    subclasses are NOT followed: the analysis is per defining class"""
    seen = seen if seen is not None else {}
    fn = cls.find(name)
    if fn is None or name in seen:
        return seen
    seen[name] = fn
    for c in _self_calls(fn.node):
        closure(cls, c, seen)
    return seen


def has_suspending_loop(fn_node):
    for n in own_nodes(fn_node):
        if isinstance(n, (ast.While, ast.For, ast.AsyncFor)):
            if any(isinstance(x, (ast.Await, ast.Yield, ast.YieldFrom)) for x in ast.walk(n)):
                return True
    return False


def entry_guard(fn):
    """recognise   if self.G: return ; self.G = True ; try: ... finally: self.G = False
    before any suspension.  returns G or None"""
    body = [s for s in fn.node.body if not (isinstance(s, ast.Expr) and isinstance(s.value, ast.Constant))]
    if len(body) < 3:
        return None
    g0 = body[0]
    if not (isinstance(g0, ast.If) and len(g0.body) == 1 and isinstance(g0.body[0], ast.Return) and not g0.orelse):
        return None
    G = self_field(g0.test)
    if G is None or not isinstance(g0.test, ast.Attribute):
        return None
    s1 = body[1]
    if not (isinstance(s1, ast.Assign) and self_field(s1.targets[0]) == G and isinstance(s1.value, ast.Constant)
            and s1.value.value is True):
        return None
    t = body[2]
    if not isinstance(t, ast.Try) or not t.finalbody:
        return None
    reset = any(isinstance(s, ast.Assign) and self_field(s.targets[0]) == G and isinstance(s.value, ast.Constant)
                and s.value.value is False for s in t.finalbody)
    if not reset or len(body) > 3:
        return None
    return G


def _awaits_activity(T):
    """inside the single-flight wrapper the result of the polling call is awaited whenever it is awaitable
    (unconditionally, or under inspect.isawaitable / gen.isawaitable) - a narrower test (iscoroutine) lets a
    Future-returning run() escape and the flag is reset while the activity is still running"""
    calls = [n for n in own_nodes(T.node) if isinstance(n, ast.Assign) and isinstance(n.value, ast.Call)
             and isinstance(n.value.func, ast.Attribute) and isinstance(n.value.func.value, ast.Name)
             and n.value.func.value.id == 'self' and isinstance(n.targets[0], ast.Name)]
    direct = [n for n in own_nodes(T.node) if isinstance(n, ast.Await) and isinstance(n.value, ast.Call)
              and isinstance(n.value.func, ast.Attribute) and isinstance(n.value.func.value, ast.Name) and n.value.func.value.id == 'self']
    if direct:
        return True, ''
    for c in calls:
        name = c.targets[0].id
        awaits = [a for a in own_nodes(T.node) if isinstance(a, ast.Await) and isinstance(a.value, ast.Name) and a.value.id == name]
        if not awaits:
            continue
        for a in awaits:
            guards = [g for g in own_nodes(T.node) if isinstance(g, ast.If) and any(x is a for b in g.body for x in ast.walk(b))]
            if not guards:
                return True, ''
            t = src(guards[-1].test).replace(' ', '')
            if t in ('isawaitable(%s)' % name, 'inspect.isawaitable(%s)' % name, 'gen.isawaitable(%s)' % name):
                return True, ''
            return False, ('the polling activity is awaited only if %s: a run() that returns a Future (tornado coroutine) is '
                           'not awaited and the single-flight flag is reset while it is still running' % src(guards[-1].test))
    return False, 'the single-flight wrapper does not await the polling activity it starts'


def writers_of(cls, field):
    out = []
    for c in cls.mro:
        for mname, fn in c.methods.items():
            for n in own_nodes(fn.node):
                tg = []
                if isinstance(n, ast.Assign):
                    tg = n.targets
                elif isinstance(n, ast.AugAssign):
                    tg = [n.target]
                for t in tg:
                    if self_field(t) == field:
                        out.append((c, fn, n))
    return out


def check_single_flight(ctx, R, classes, note_classes=()):
    for cls in list(classes) + list(note_classes):
        for mname, fn in cls.methods.items():
            for n in own_nodes(fn.node):
                if not (isinstance(n, ast.Call) and isinstance(n.func, ast.Attribute) and n.func.attr in SCHED):
                    continue
                targets = [a.attr for a in n.args if isinstance(a, ast.Attribute) and isinstance(a.value, ast.Name)
                           and a.value.id == 'self' and cls.find(a.attr) is not None]
                for t in targets:
                    reach = closure(cls, t)
                    if not any(has_suspending_loop(f.node) for f in reach.values()):
                        continue            # not a long-lived polling activity
                    T = cls.find(t)
                    con = ctx.construct(fn)
                    G = entry_guard(T)
                    ok, detail = False, ''
                    if G is not None:
                        aw_ok, aw_detail = _awaits_activity(T)
                        if not aw_ok:
                            R.ob('SINGLE-FLIGHT', ctx.construct(T), 'awaits-activity', False, aw_detail, ctx.where(T, T.node.lineno))
                        else:
                            R.ob('SINGLE-FLIGHT', ctx.construct(T), 'awaits-activity', True)
                        others = [(c, f) for c, f, _ in writers_of(cls, G) if f is not T and f.name != '__init__']
                        # subclasses of cls must not write G either
                        for sub in ctx.model.subclasses(cls):
                            others += [(c, f) for c, f, _ in writers_of(sub, G) if f is not T and f.name != '__init__'
                                       and (c, f) not in others]
                        ok = not others
                        detail = 'the single-flight flag self.%s is also written by %s' % (
                            G, ', '.join(sorted({f.qual for _, f in others})))
                    else:
                        # guard at the scheduling site
                        guard = None
                        for x in own_nodes(fn.node):
                            if isinstance(x, ast.If) and any(y is n for s in x.body for y in ast.walk(s)):
                                guard = x
                        if guard is None:
                            detail = 'the polling coroutine %s is scheduled unguarded' % t
                        else:
                            gf = sorted({self_field(x) for x in ast.walk(guard.test) if self_field(x)})
                            resetters = set()
                            for f_ in gf:
                                for c, wfn, _ in writers_of(cls, f_):
                                    if wfn.name not in reach and wfn is not fn and wfn.name != '__init__':
                                        resetters.add(wfn.qual)
                            ok = not resetters and bool(gf)
                            detail = ('the guard (%s) can be re-armed by %s while the previous polling loop is still '
                                      'suspended: stop(); start() then leaves two loops running'
                                      % (', '.join('self.' + g for g in gf), ', '.join(sorted(resetters))))
                            if ok:
                                # check-then-act: the flag must be claimed in the guarded block itself (synchronously with
                                # the test), not later inside the scheduled coroutine
                                claimed = any(isinstance(x, ast.Assign) and self_field(x.targets[0]) in gf
                                              for b in guard.body for x in ast.walk(b))
                                if not claimed:
                                    ok = False
                                    detail = ('the guard (%s) is tested here but only set inside the scheduled coroutine: two '
                                              'start() calls before the callback runs both pass the test and schedule two loops'
                                              % ', '.join('self.' + g for g in gf))
                    if cls in note_classes:
                        if not ok:
                            R.note('SINGLE-FLIGHT outside C18\'s anchors: %s schedules %s: %s' % (con, t, detail))
                        continue
                    R.ob('SINGLE-FLIGHT', con, t, ok, detail if not ok else '', ctx.where(fn, n.lineno))


def _effects(stmt):
    """call-outs and field stores inside a statement (ignoring its own if-test)"""
    out = []
    for n in ast.walk(stmt):
        if isinstance(n, ast.Call):
            out.append(n)
        if isinstance(n, (ast.Assign, ast.AugAssign)):
            for t in (n.targets if isinstance(n, ast.Assign) else [n.target]):
                if self_field(t):
                    out.append(n)
    return out


def check_idempotent_guard(ctx, R, classes, note_classes=()):
    for cls in list(classes) + list(note_classes):
        for mname in ('start', 'stop'):
            fn = cls.methods.get(mname)
            if fn is None:
                continue
            con = ctx.construct(fn)
            bad = None
            for s in fn.node.body:
                if isinstance(s, ast.Expr) and isinstance(s.value, ast.Constant):
                    continue
                # early-return form:  if <not in the state to act>: return   ... effects ...
                if isinstance(s, ast.If) and len(s.body) == 1 and isinstance(s.body[0], ast.Return) and s.body[0].value is None \
                        and not s.orelse and ({self_field(x) for x in ast.walk(s.test) if self_field(x)} & STATE_FLAGS):
                    t = src(s.test).replace(' ', '')
                    if 'stopped' in t:
                        neg = t.startswith('not')
                        # start(): `if not self.stopped: return`; stop(): `if self.stopped: return`
                        if (mname == 'start' and not neg) or (mname == 'stop' and neg):
                            bad = (s, 'the early return %s has the wrong polarity for %s()' % (src(s.test), mname))
                    break
                if isinstance(s, (ast.Import, ast.ImportFrom, ast.Pass)):
                    continue
                if isinstance(s, ast.If):
                    flds = {self_field(x) for x in ast.walk(s.test) if self_field(x)}
                    flags = flds & STATE_FLAGS
                    if flags:
                        # polarity: start acts when stopped / not running; stop acts when not stopped / running
                        t = src(s.test).replace(' ', '')
                        pos = 'not' not in t.split('self.')[0]
                        if 'stopped' in flags:
                            want_pos = (mname == 'start')
                            neg = t.startswith('not')
                            if (want_pos and neg) or (not want_pos and not neg):
                                bad = (s, 'the guard %s has the wrong polarity for %s()' % (src(s.test), mname))
                        if s.orelse and _effects(ast.Module(body=s.orelse, type_ignores=[])):
                            bad = (s, 'effects in the else-branch of the state guard')
                        continue
                    # an if on configuration that only imports is harmless
                    if not [e for b in (s.body + s.orelse) for e in _effects(b)] or all(
                            isinstance(b, (ast.Import, ast.ImportFrom)) for b in s.body + s.orelse):
                        continue
                    bad = (s, 'effects guarded by %s, which is not the running/stopped state' % src(s.test))
                    continue
                eff = _effects(s)
                if eff:
                    bad = (s, 'unguarded effect `%s`: calling %s() twice (or before start) is not a no-op'
                           % (src(s)[:60], mname))
            if cls in note_classes:
                if bad:
                    R.note('IDEMPOTENT-GUARD outside C18\'s anchors: %s: %s' % (con, bad[1]))
                continue
            R.ob('IDEMPOTENT-GUARD', con, mname, bad is None, bad[1] if bad else '',
                 ctx.where(fn, bad[0].lineno) if bad else ctx.where(fn, fn.node.lineno))


def _emits_in(cls, node, depth=0, nested=None):
    """does the AST under node emit, directly, through self-calls or through closures defined next to it"""
    for n in ast.walk(node):
        if isinstance(n, ast.Name) and nested and n.id in nested and depth < 3:
            if _emits_in(cls, nested[n.id], depth + 1):
                return True
        if isinstance(n, ast.Attribute) and isinstance(n.value, ast.Name) and n.value.id == 'self' and depth < 3 \
                and cls is not None and n.attr not in ('start', 'stop', 'loop'):
            ref = cls.find(n.attr)      # a method handed over as a callback (loop.add_callback(self._checkpoint_emit, part))
            if ref is not None and ref.cls is not None and ref.cls.module.name.startswith('streamz.sources') \
                    and _emits_in(cls, ref.node, depth + 1):
                return True
        if isinstance(n, ast.Call) and isinstance(n.func, ast.Attribute):
            if n.func.attr in ('_emit', 'emit'):
                return True
            if isinstance(n.func.value, ast.Name) and n.func.value.id == 'self' and depth < 3 and cls is not None:
                callee = cls.find(n.func.attr)
                if callee is None and n.func.attr == '_run':
                    return True
                if callee is not None and callee.name not in ('start', 'stop') and _emits_in(cls, callee.node, depth + 1):
                    return True
                if callee is not None and callee.name == '_run':
                    return True      # abstract hook: subclasses emit there
    return False


def _reads_flag(node):
    for n in ast.walk(node):
        if isinstance(n, ast.Attribute) and n.attr in ('stopped',):
            return True
        if isinstance(n, ast.Subscript) and isinstance(n.value, ast.Name) and n.value.id in ('continue_',):
            return True
        if isinstance(n, ast.Call) and isinstance(n.func, ast.Attribute) and n.func.attr == 'is_set':
            return True
    return False


def check_stop_check(ctx, R, funcs):
    for cls, fn in funcs:
        loops = [l for l in own_nodes(fn.node) if isinstance(l, (ast.While, ast.For, ast.AsyncFor))]
        k = 0
        for l in loops:
            polling = isinstance(l, ast.While) or (self_field(l.iter) is not None)
            nested = {x.name: x for x in own_nodes(fn.node) if isinstance(x, (ast.FunctionDef, ast.AsyncFunctionDef))}
            if not polling or not _emits_in(cls, l, nested=nested):
                continue
            if _inside_other(loops, l):
                pass
            ok, detail = False, 'a polling loop that emits never re-reads the stop flag: stop() cannot end it'
            if isinstance(l, ast.While) and _reads_flag(l.test):
                ok = True
            else:
                # `if <flag>: break` must come before the cycle's first effect (call / await), otherwise a cycle
                # begins after stop()
                for s in l.body:
                    if isinstance(s, ast.If) and _reads_flag(s.test) and any(isinstance(b, ast.Break) for b in s.body):
                        ok = True
                        break
                    if any(isinstance(x, (ast.Call, ast.Await, ast.Yield)) for x in ast.walk(s)):
                        later = any(isinstance(s2, ast.If) and _reads_flag(s2.test) and any(isinstance(b, ast.Break) for b in s2.body)
                                    for s2 in ast.walk(l) if s2 is not s)
                        if later:
                            detail = ('the stop flag is only read after the cycle\'s work: a polling cycle still begins (and may '
                                      'emit) after stop()')
                        break
            R.ob('STOP-CHECK', ctx.construct(fn), 'loop%d' % k, ok, detail, ctx.where(fn, l.lineno))
            k += 1


def _inside_other(loops, l):
    return any(o is not l and any(x is l for x in ast.walk(o)) for o in loops)


def check_iterable_order(ctx, R):
    M = ctx.model
    cls = M.cls('streamz.sources', 'from_iterable')
    fn = cls.methods.get('run')
    if fn is None:
        raise AnalysisError('anchor vanished: from_iterable.run')
    con = ctx.construct(fn)
    loops = [l for l in own_nodes(fn.node) if isinstance(l, (ast.For, ast.AsyncFor))]
    ok, detail, line = True, '', fn.node.lineno
    if len(loops) != 1:
        ok, detail = False, 'expected one loop over the iterable, found %d' % len(loops)
    else:
        l = loops[0]
        line = l.lineno
        if not (self_field(l.iter) == '_iterable' and isinstance(l.iter, ast.Attribute)):
            ok, detail = False, 'the loop iterates %s, not the iterable itself in its own order' % src(l.iter)
        var = l.target.id if isinstance(l.target, ast.Name) else None
        ems = [x for x in ast.walk(l) if isinstance(x, ast.Call) and isinstance(x.func, ast.Attribute)
               and x.func.attr in ('_emit', 'emit')]
        if len(ems) != 1 or not ems[0].args or not (isinstance(ems[0].args[0], ast.Name) and ems[0].args[0].id == var):
            ok, detail = False, 'each item must be emitted exactly once, as it is'
        for x in ast.walk(l):
            if isinstance(x, ast.Continue):
                ok, detail = False, 'an item can be skipped (continue)'
    R.ob('ITERABLE-ORDER', con, '_iterable', ok, detail, ctx.where(fn, line))
    bad, n = None, 0
    for st, status in ctx.paths(fn, cls):
        evs = st.events
        its = [i for i, e in enumerate(evs) if e.kind == 'ITER']
        bounds = its + [len(evs)]
        for a, b in zip(bounds, bounds[1:]):
            seg = evs[a:b]
            ems = [i for i, e in enumerate(seg) if e.kind == 'EM']
            for i in ems:
                if any(x.kind == 'EXC' for x in seg[i:i + 2]):
                    continue
                n += 1
                tag = 'emit@%d' % seg[i].line
                if not any(x.kind == 'SUS' and x.b and tag in x.b for x in seg[i + 1:]):
                    bad = evs
    from ..paths import fmt_path
    R.ob('ITERABLE-ORDER', con, 'await-before-next', bad is None and n > 0,
         'the next item is taken before downstream has finished with the previous one', ctx.where(fn, fn.node.lineno),
         fmt_path(bad) if bad else None, n)
