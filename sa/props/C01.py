"""C01 dataflow semantics: no loss, duplication, reordering (structural clauses)"""
from ..rules import topology, delivery, flow
from .common import declare

RULES = ['USER-CALL-SHAPE', 'FANOUT', 'EMIT-SIG', 'PASS-VALUE', 'FIFO-END', 'SWAP-ATOMIC', 'FLUSH-RESETS', 'STATE-PER-INSTANCE', 'FRESH-READ', 'REVERSED-STACK', 'FLAT-RETURN', 'PROPAGATE', 'NONE-SENTINEL', 'ELEMENT-MEMBERSHIP', 'EAGER-UPDATE', 'NONE-BOUND', 'DESTROY-SUPER']
FLOORS = {'USER-CALL-SHAPE': 4, 'FANOUT': 4, 'EMIT-SIG': 30, 'PASS-VALUE': 14, 'FIFO-END': 10, 'SWAP-ATOMIC': 6, 'FLAT-RETURN': 20, 'PROPAGATE': 30, 'DESTROY-SUPER': 3}     # (NONE-BOUND: no floor - the hazard need not exist; its positive example is the seeded mutant c01-unique-truncates-with-none-bound, run by the thorough tier)
CATALOGUE = ('Stream', 'map', 'starmap', 'filter', 'accumulate', 'slice', 'partition', 'partition_unique',
             'sliding_window', 'unique', 'flatten', 'pluck', 'collect', 'union', 'zip', 'combine_latest', 'zip_latest')

META = {
    'level': "Static analysis of the delivery skeleton: fan-out to every downstream in attach order with the unmodified element "
             "(FANOUT), per-node emission-count signature on every path (EMIT-SIG, frozen table from the class docstrings), "
             "pass-through of the very element (PASS-VALUE), FIFO ends of every taint-discovered buffer (FIFO-END), atomic "
             "flush (SWAP-ATOMIC), and lossless concatenation of downstream results (FLAT-RETURN/PROPAGATE). Necessary "
             "conditions of 'nothing lost, duplicated or reordered'; each node's list-level function (partition sizes, LRU "
             "eviction, pack_literals, emit_on membership, slice arithmetic) is value-level and not decided."
             " Added after independently seeded changes: per-instance node state (STATE-PER-INSTANCE: no mutable default argument or class-level container becomes a buffer), FLUSH-RESETS, and FRESH-READ (emission arguments are read after the last store into their container).",
    'note': "Trusted: CPython ast; the signature table SIG and PASS_THROUGH table in sa/rules/delivery.py (printed in evidence).",
    'technique': "static analysis: path enumeration + taint-discovered buffer fields + signature table (FANOUT, EMIT-SIG, "
                 "PASS-VALUE, FIFO-END, SWAP-ATOMIC, FLAT-RETURN, PROPAGATE)",
}


def run(ctx, R):
    R.explanation = ('Structural analysis of Stream._emit and of every path of every update/flush of the synchronous node '
                     'catalogue. Decides fan-out/order/emission-count/FIFO/atomic-flush shapes; does not decide the value-level '
                     'list function of each node.')
    R.not_decided = ['list-level function of each node (len(buffer)==n, LRU eviction, pack_literals, emit_on, slice arithmetic)']
    declare(R, {**flow.RULES, **delivery.RULES, **topology.RULES}, RULES, FLOORS)
    M = ctx.model
    core = [c for c in M.nodes if c.module.name in ('streamz.core', 'streamz.sinks')]
    R.run(delivery.check_fanout, ctx, R)
    R.run(delivery.check_emit_sig, ctx, R, core)
    # the list-level meaning of map / starmap / filter / sink: how the user callable is applied to the element
    R.run(flow.check_user_call_shape, ctx, R)
    R.run(delivery.check_pass_value, ctx, R, core)
    R.run(delivery.check_fifo_end, ctx, R, core)
    R.run(delivery.check_swap_atomic, ctx, R, core)
    R.run(delivery.check_flush_resets, ctx, R, core)
    R.run(delivery.check_fresh_read, ctx, R, core)
    R.run(delivery.check_reversed_stack, ctx, R, core)
    R.run(delivery.check_eager_update, ctx, R, [c for c in core if c.module.name == 'streamz.core'])
    R.run(delivery.check_element_membership, ctx, R, core)
    R.run(delivery.check_state_per_instance, ctx, R, [c for c in M.nodes if c.module.name in ('streamz.core', 'streamz.sinks', 'streamz.sources', 'streamz.dask')])
    R.run(flow.check_flat_return, ctx, R, core)
    R.run(topology.check_none_sentinel, ctx, R, [c for c in M.nodes if c.module.name == 'streamz.core'])
    R.run(flow.check_propagate, ctx, R, modules=('streamz.core', 'streamz.sinks'), note_modules=())
    R.run(topology.check_none_bound, ctx, R, [c for c in M.nodes if c.module.name == 'streamz.core'])
    # a node that ends itself (slice reaching `end` calls destroy()) must stay an input of what it feeds
    R.run(topology.check_destroy_super, ctx, R, [c for c in M.nodes if c.module.name in ('streamz.core', 'streamz.sinks', 'streamz.sources', 'streamz.dask')])
META['level'] += ' USER-CALL-SHAPE: map / filter / sink apply the user callable as f(x, *extra, **kwargs), starmap as f(*x, *extra, **kwargs) (positional order, on normal forms). SWAP-ATOMIC also covers a flush that loops over a snapshot of the buffer, emits in the loop and resets the buffer only afterwards.'
