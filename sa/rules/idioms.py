"""Small named mechanisms decided as "idiom + one library lemma" (DESIGN 4.13).

Each rule lists structural facts that, together with the stated lemma, imply the clause.  Facts are checked on
value-flow normal forms: single-definition locals are substituted, `a += b` == `a = a + b`, `+`/max are
commutative where the lemma allows.  An unrecognised spelling is an AnalysisError (exit 2), never a violation.
"""
import ast

from ..model import AnalysisError, own_nodes, src, self_field
from ..paths import fmt_path
from .holds import is_failure

RULES = {
    'RESERVE-ALGEBRA': 'rate_limit: the new reservation, stored before the first suspension, is max(now, previous) + interval; '
                       'the node sleeps iff now < previous, for previous - now, then emits once',
    'SPLIT-CARRY': 'from_textfile: split(carry ++ new data); the carry becomes the LAST piece, every other piece is emitted once, '
                   'in order, with the delimiter re-appended; no other write to the carry (lemma: d.join(s.split(d)) == s)',
    'SEEN-SET': 'filenames: candidates = glob - seen, iterated in sorted order, each added to seen before its emission is awaited; '
                'nothing removes from seen',
}


def local_defs(fn_node):
    """name -> list of value nodes assigned to that local anywhere in the function (own statements only)"""
    d = {}
    for n in own_nodes(fn_node):
        if isinstance(n, ast.Assign):
            for t in n.targets:
                if isinstance(t, ast.Name):
                    d.setdefault(t.id, []).append(n.value)
                elif isinstance(t, (ast.Tuple, ast.List)):
                    for e in ast.walk(t):
                        if isinstance(e, ast.Name):
                            d.setdefault(e.id, []).append(None)
        elif isinstance(n, ast.AugAssign) and isinstance(n.target, ast.Name):
            d.setdefault(n.target.id, []).append(None)
        elif isinstance(n, (ast.For, ast.AsyncFor)):
            for e in ast.walk(n.target):
                if isinstance(e, ast.Name):
                    d.setdefault(e.id, []).append(None)
        elif isinstance(n, ast.NamedExpr) and isinstance(n.target, ast.Name):
            d.setdefault(n.target.id, []).append(n.value)
    return d


def norm(node, defs, depth=0):
    """canonical text of an expression with single-definition locals substituted and +/max arguments sorted"""
    if node is None:
        return 'None'
    if isinstance(node, ast.Name):
        vals = defs.get(node.id)
        if vals and len(vals) == 1 and vals[0] is not None and depth < 6:
            return norm(vals[0], defs, depth + 1)
        return node.id
    if isinstance(node, ast.BinOp) and isinstance(node.op, ast.Add):
        return '(' + ' + '.join(sorted([norm(node.left, defs, depth), norm(node.right, defs, depth)])) + ')'
    if isinstance(node, ast.BinOp) and isinstance(node.op, ast.Sub):
        return '(' + norm(node.left, defs, depth) + ' - ' + norm(node.right, defs, depth) + ')'
    if isinstance(node, ast.Call) and isinstance(node.func, ast.Name) and node.func.id in ('max', 'min') and not node.keywords:
        return node.func.id + '(' + ', '.join(sorted(norm(a, defs, depth) for a in node.args)) + ')'
    if isinstance(node, ast.Call):
        f = src(node.func)
        if f in ('time', 'time.time'):
            return 'NOW'
        return f + '(' + ', '.join([norm(a, defs, depth) for a in node.args] +
                                   ['%s=%s' % (k.arg, norm(k.value, defs, depth)) for k in node.keywords]) + ')'
    if isinstance(node, ast.Compare) and len(node.ops) == 1:
        l, r = norm(node.left, defs, depth), norm(node.comparators[0], defs, depth)
        op = node.ops[0]
        if isinstance(op, ast.Gt):
            return '%s < %s' % (r, l)
        if isinstance(op, ast.GtE):
            return '%s <= %s' % (r, l)
        return '%s %s %s' % (l, {ast.Lt: '<', ast.LtE: '<=', ast.Eq: '==', ast.NotEq: '!=', ast.In: 'in', ast.NotIn: 'not in',
                                 ast.Is: 'is', ast.IsNot: 'is not'}.get(type(op), '?'), r)
    return src(node)


# ----------------------------------------------------------------------------- RESERVE-ALGEBRA (C13)
def check_reserve_algebra(ctx, R):
    """rate_limit.update on the let-normal form of every normal path (helpers, generator sub-steps driven by `yield from`,
    temporaries, tuple assignment, conditional expressions instead of max() are transparent):
      single-store     the reservation field is written exactly once per element
      new-reservation  its new value is max(now, previous) + interval (on a path that already knows which is larger: that one)
      sleep            the path sleeps iff now < previous, for previous - now
      order            the clock is read once, before the store; the store precedes the first suspension; one emission of the
                       element with its metadata follows the store
      initial          the constructor starts the reservation at 0"""
    import re
    from ..symexpr import SymEval, nf as snf, norm_cond
    M = ctx.model
    cls = M.cls('streamz.core', 'rate_limit')
    fn = cls.find('update')
    if fn is None:
        raise AnalysisError('anchor vanished: rate_limit.update')
    con = ctx.construct(fn)
    paths = [r for r in SymEval(M, cls, name_calls=True).run(fn) if not r.raised]
    if not paths:
        raise AnalysisError('rate_limit.update: no normal path (unrecognised spelling)')
    fields = {f for r in paths for f, v, s_, l in r.stores}
    bad = {}

    def fail(tok, msg):
        bad.setdefault(tok, msg)
    if len(fields) != 1:
        fail('single-store', 'the reservation must be one field written once per element (fields written: %s)' % sorted(fields))
        f = None
    else:
        f = fields.pop()
    PREV = 'self.%s' % f
    IV = 'self.interval'
    for r in (paths if f else []):
        sts = [(i, v, s_) for i, (ff, v, s_, l) in enumerate(r.stores) if ff == f]
        if len(sts) != 1:
            fail('single-store', 'the reservation is written %d times on a path' % len(sts))
            continue
        nows = [k for k, (c, s_, l) in enumerate(r.calls) if isinstance(c, ast.Call) and snf(c.func) in ('time', 'time.time')]
        if len(nows) != 1:
            fail('order', 'the clock must be read exactly once per element (found %d reads)' % len(nows))
            continue
        NOW = 'C%d' % nows[0]

        def expand1(t):
            return re.sub(r'(?<![A-Za-z0-9_])C(\d+)(?![A-Za-z0-9_])',
                          lambda m: snf(r.calls[int(m.group(1))][0]) if snf(r.calls[int(m.group(1))][0]).startswith('max(') else m.group(0), t)
        busy = None
        for c, o in r.conds:
            t, o2 = norm_cond(c, o)
            try:
                e = ast.parse(t, mode='eval').body
            except SyntaxError:
                continue
            if isinstance(e, ast.Compare) and len(e.ops) == 1:
                l_, r_ = snf(e.left), snf(e.comparators[0])
                if {l_, r_} == {NOW, PREV}:
                    lt = isinstance(e.ops[0], (ast.Lt, ast.LtE))
                    gt = isinstance(e.ops[0], (ast.Gt, ast.GtE))
                    if not (lt or gt):
                        continue
                    now_smaller = (lt and l_ == NOW) or (gt and l_ == PREV)
                    b2 = o2 if now_smaller else not o2
                    if busy is not None and busy != b2:
                        busy = 'infeasible'     # the same comparison decided both ways (spelled twice): not a real path
                        break
                    busy = b2
        if busy == 'infeasible':
            continue
        # the stored value
        v = expand1(snf(sts[0][1]))
        mx = ('max(%s,%s)' % (NOW, PREV), 'max(%s,%s)' % (PREV, NOW))
        accepted = {'%s+%s' % (m_, IV) for m_ in mx} | {'%s+%s' % (IV, m_) for m_ in mx}
        if busy is True:
            accepted |= {'%s+%s' % (PREV, IV), '%s+%s' % (IV, PREV)}
        if busy is False:
            accepted |= {'%s+%s' % (NOW, IV), '%s+%s' % (IV, NOW)}
        if v not in accepted:
            fail('new-reservation', 'the stored reservation is %s, expected max(now, previous) + interval'
                 % v.replace(NOW, 'now').replace(PREV, 'previous').replace(IV, 'interval'))
        # the sleep
        sleeps = [(k, c) for k, (c, s_, l) in enumerate(r.calls) if isinstance(c, ast.Call) and snf(c.func).split('.')[-1] == 'sleep']
        if busy is None and sleeps:
            fail('sleep', 'the sleep is unconditional: an element arriving on an idle line is delayed')
        if busy is True:
            if len(sleeps) != 1:
                fail('sleep', 'a busy line is met with %d sleeps, expected one' % len(sleeps))
            else:
                k, c = sleeps[0]
                arg = snf(c.args[0]) if c.args else ''
                if arg != '%s-%s' % (PREV, NOW):
                    fail('sleep', 'sleeps for %s, expected previous - now' % arg.replace(NOW, 'now').replace(PREV, 'previous'))
                if k not in r.awaited_calls:
                    fail('sleep', 'the sleep is not awaited')
        if busy is False and sleeps:
            fail('sleep', 'sleeps although now >= previous')
        # order
        pos = {('call', nows[0]): None, ('store', sts[0][0]): None}
        for j, key in enumerate(r.order):
            if key in pos:
                pos[key] = j
        if pos[('call', nows[0])] is None or pos[('store', sts[0][0])] is None or pos[('call', nows[0])] > pos[('store', sts[0][0])]:
            fail('order', 'the clock must be read before the reservation is stored')
        if sts[0][2] != 0:
            fail('order', 'the reservation is not stored before the first suspension')
        ems = [j for j, (kind, i) in enumerate(r.order) if kind == 'emit']
        if len(r.emits) != 1 or ems[0] < pos[('store', sts[0][0])]:
            fail('order', 'expected exactly one emission after the reservation')
        elif snf(r.emits[0][0]) != 'x' or snf(r.emits[0][1]) != 'metadata':
            fail('order', 'the element is not emitted unchanged with its metadata')
    # the reservation is never taken back: no write of the field in an exception handler / finally block of the class
    if f:
        for mname, m_ in cls.methods.items():
            for t_ in own_nodes(m_.node):
                if isinstance(t_, ast.Try):
                    for blk in [h.body for h in t_.handlers] + [t_.finalbody]:
                        for x in blk:
                            for y in ast.walk(x):
                                if isinstance(y, (ast.Assign, ast.AugAssign)) and any(
                                        self_field(tt) == f for tt in (y.targets if isinstance(y, ast.Assign) else [y.target])):
                                    fail('single-store', 'self.%s is written again in an exception handler / finally block (line %d): '
                                         'a slot handed back is a slot another waiting element already owns' % (f, y.lineno))
    # ... and nothing but update() (and the constructor, and what they call) writes it: a start()/stop()/hook that resets the
    # reservation erases the slots that elements still asleep are holding - the next arrival overtakes them
    if f:
        spliced = {fn.name, '__init__'}
        for mname, m_ in cls.methods.items():
            if mname in spliced:
                continue
            called_from_update = any(isinstance(c_, ast.Call) and isinstance(c_.func, ast.Attribute) and c_.func.attr == mname
                                     and isinstance(c_.func.value, ast.Name) and c_.func.value.id == 'self'
                                     for g_ in (fn, cls.methods.get('__init__')) if g_ is not None for c_ in own_nodes(g_.node))
            if called_from_update:
                continue
            for y in own_nodes(m_.node):
                if isinstance(y, (ast.Assign, ast.AugAssign)) and any(
                        self_field(tt) == f for tt in (y.targets if isinstance(y, ast.Assign) else [y.target])):
                    fail('single-store', 'self.%s is also written by %s() (line %d): resetting the reservation while elements are '
                         'asleep on their slots lets the next arrival overtake them' % (f, mname, y.lineno))
    for tok in ('single-store', 'new-reservation', 'sleep', 'order'):
        R.ob('RESERVE-ALGEBRA', con, tok, tok not in bad, bad.get(tok, ''), ctx.where(fn, fn.node.lineno), None, len(paths))
    # initial reservation lies in the past (an idle line passes at once)
    init = cls.find('__init__')
    iv = [n.value for n in own_nodes(init.node) if isinstance(n, ast.Assign) and self_field(n.targets[0]) == f] if init and f else []
    R.ob('RESERVE-ALGEBRA', con, 'initial', len(iv) == 1 and isinstance(iv[0], ast.Constant) and iv[0].value == 0,
         'the initial reservation is not 0 (the first element would be delayed or the slot is undefined)',
         ctx.where(init, init.node.lineno) if init else None)


def _replace_name(s, name, repl):
    import re
    return re.sub(r'(?<![\w.])' + re.escape(name) + r'(?![\w])', repl, s)


# ----------------------------------------------------------------------------- SPLIT-CARRY (C17)
def _sym_paths(ctx, cls, fn):
    from ..symexpr import SymEval
    return [r for r in SymEval(ctx.model, cls).run(fn) if not r.raised]


def check_split_carry(ctx, R):
    """facts on symbolic normal forms (temporaries, helper extraction, early returns, star-unpack, += are all
    transparent):  S = (carry + read).split(delimiter);  emitted = ELEM(INIT(S)) + delimiter in a loop over INIT(S);
    new carry = LAST(S), written before the first suspension;  without a delimiter the carry is carry + read"""
    from ..symexpr import nf
    M = ctx.model
    cls = M.cls('streamz.sources', 'from_textfile')
    fn = cls.methods.get('_run')
    if fn is None:
        raise AnalysisError('anchor vanished: from_textfile._run')
    con = ctx.construct(fn)
    paths = _sym_paths(ctx, cls, fn)
    fields = {f for r in paths for f, v, s_, l in r.stores}
    if len(fields) != 1:
        R.ob('SPLIT-CARRY', con, 'single-carry', False, 'expected exactly one carry field written by the polling cycle, found %s'
             % sorted(fields), ctx.where(fn, fn.node.lineno))
        return
    carry = fields.pop()
    B0 = 'self.' + carry
    reads = set()
    for r in paths:
        for c, o in r.conds:
            for m_ in __import__('re').findall(r'self\.\w+\.read(?:line)?\(\)', c.replace(' ', '')):
                reads.add(m_)
        for f, v, s_, l in r.stores:
            for m_ in __import__('re').findall(r'self\.\w+\.read(?:line)?\(\)', nf(v)):
                reads.add(m_)
    if len(reads) != 1:
        raise AnalysisError('from_textfile._run: cannot identify the read() whose data is split (found %s): unrecognised spelling'
                            % sorted(reads))
    RD = reads.pop()
    CONCAT = '%s+%s' % (B0, RD)
    S = '(%s).split(self.delimiter)' % CONCAT
    emitting = [r for r in paths if r.emits]
    if not emitting:
        raise AnalysisError('from_textfile._run: no path emits (unrecognised spelling)')
    bad = {}

    def fail(tok, msg):
        bad.setdefault(tok, msg)

    for r in emitting:
        for data, md, susp, loop in r.emits:
            if not loop:
                fail('emit-each-piece-once-in-order', 'a piece is emitted outside the loop over the pieces')
                continue
            it = loop[-1][0].replace(' ', '')
            if it != 'INIT(%s)' % S:
                if S in it or 'split' in it:
                    fail('emit-each-piece-once-in-order' if it.startswith(('reversed', 'sorted', 'set', 'REST', 'INIT(INIT')) or 'REST(' in it
                         else 'split-receiver',
                         'the emitting loop iterates %s; expected all pieces but the last of (carry + read).split(delimiter), in list order' % loop[-1][0])
                else:
                    fail('split-receiver', 'the emitting loop iterates %s, which is not the split of <carried buffer> + <newly read data>' % loop[-1][0])
            elif nf(data) != 'ELEM(INIT(%s))+self.delimiter' % S:
                fail('emit-each-piece-once-in-order', 'a piece is emitted as %s, not <piece> + self.delimiter' % src(data)[:80])
            if md is not None:
                fail('emit-each-piece-once-in-order', 'pieces are emitted with metadata')
        if len(r.emits) != 1:
            fail('emit-each-piece-once-in-order', 'a piece is emitted %d times per iteration' % len(r.emits))
        if any(i not in r.awaited for i in range(len(r.emits))):
            fail('emit-each-piece-once-in-order', 'the emission of a piece is not awaited before the next one')
        st = [(v, s_) for f, v, s_, l in r.stores if f == carry]
        if not st or nf(st[-1][0]) != 'LAST(%s)' % S:
            fail('carry-is-last-piece', 'after emitting, the carried buffer is %s; expected the last element of the split'
                 % (src(st[-1][0])[:80] if st else 'unchanged'))
        if any(s_ > 0 for v, s_ in st):
            fail('carry-written-once-before-suspension', 'the carried buffer is written after a suspension of the polling cycle')
        first_emit_susp = min(e[2] for e in r.emits)
        if any(l for f, v, s_, l in r.stores if f == carry):
            fail('carry-written-once-before-suspension', 'the carried buffer is written inside the emitting loop')
    for r in paths:
        if any(c in ('<continue>', '<break>') for c, o in r.conds):
            fail('emit-each-piece-once-in-order', 'the emitting loop can skip pieces (break/continue)')
        if r.emits:
            continue
        got_data = any(c.replace(' ', '') == RD and o for c, o in r.conds) or any(
            c.replace(' ', '') == 'not' + RD and not o for c, o in r.conds)
        st = [(v, s_) for f, v, s_, l in r.stores if f == carry]
        if got_data:
            if not st:
                fail('carry-written-once-before-suspension', 'data was read but the carried buffer was not extended')
            elif nf(st[-1][0]) not in (CONCAT, 'LAST(%s)' % S):
                fail('split-receiver', 'without a complete record the carried buffer becomes %s; expected <carried buffer> + <newly read data>'
                     % src(st[-1][0])[:80])
        elif st and nf(st[-1][0]) != B0:
            fail('carry-written-once-before-suspension', 'the carried buffer is changed although nothing was read')
    # the read position is only moved when the source is constructed: a seek on (re)start skips what was appended meanwhile
    seeks = [(m_, x) for mname, m_ in cls.methods.items() if mname != '__init__' for x in own_nodes(m_.node)
             if isinstance(x, ast.Call) and isinstance(x.func, ast.Attribute) and x.func.attr in ('seek', 'truncate')
             and self_field(x.func.value) is not None]
    R.ob('SPLIT-CARRY', con, 'position-moved-only-at-construction', not seeks,
         'the file position is moved outside __init__ (%s): records appended while the source was stopped are skipped, and a '
         'held-back tail is glued to later data' % ', '.join('%s line %d' % (m_.qual, x.lineno) for m_, x in seeks),
         ctx.where(seeks[0][0], seeks[0][1].lineno) if seeks else ctx.where(fn, fn.node.lineno))
    for tok in ('split-receiver', 'carry-is-last-piece', 'emit-each-piece-once-in-order', 'carry-written-once-before-suspension'):
        R.ob('SPLIT-CARRY', con, tok, tok not in bad, bad.get(tok, ''), ctx.where(fn, fn.node.lineno), None, len(paths))
    R.ob('SPLIT-CARRY', con, 'single-carry', True)


# ----------------------------------------------------------------------------- SEEN-SET (C17)
def check_seen_set(ctx, R):
    from ..symexpr import nf
    M = ctx.model
    cls = M.cls('streamz.sources', 'filenames')
    fn = cls.methods.get('_run')
    if fn is None:
        raise AnalysisError('anchor vanished: filenames._run')
    con = ctx.construct(fn)
    paths = _sym_paths(ctx, cls, fn)
    emitting = [r for r in paths if r.emits]
    if not emitting:
        raise AnalysisError('filenames._run: no path emits (unrecognised spelling)')
    WANT = ('sorted(set(glob(self.path))-self.seen)',)
    bad = {}
    for r in emitting:
        for i, (data, md, susp, loop) in enumerate(r.emits):
            it = loop[-1][0].replace(' ', '') if loop else None
            if it not in WANT:
                bad.setdefault('sorted-candidates', 'the loop iterates %s; expected sorted(set(glob(self.path)) - self.seen)'
                               % (loop[-1][0] if loop else 'nothing'))
                continue
            if nf(data) != 'ELEM(%s)' % it:
                bad.setdefault('record-before-await', 'the emitted value is %s, not the loop variable' % src(data)[:60])
            adds = [(c, s_) for c, s_, l in r.calls if nf(c) == 'self.seen.add(ELEM(%s))' % it and l and l[-1][0].replace(' ', '') == it]
            if not adds:
                bad.setdefault('record-before-await', 'the path is not recorded in self.seen')
            elif min(s_ for c, s_ in adds) > susp:
                bad.setdefault('record-before-await', 'the path is recorded in self.seen only after its emission was awaited')
            if i not in r.awaited:
                bad.setdefault('record-before-await', 'the emission of a path is not awaited')
        if len(r.emits) != 1:
            bad.setdefault('record-before-await', 'a path is emitted %d times' % len(r.emits))
    for r in paths:
        if any(c in ('<continue>', '<break>') for c, o in r.conds):
            bad.setdefault('sorted-candidates', 'the loop can skip paths (break/continue)')
    for tok in ('sorted-candidates', 'record-before-await'):
        R.ob('SEEN-SET', con, tok, tok not in bad, bad.get(tok, ''), ctx.where(fn, fn.node.lineno), None, len(paths))
    removes = []
    for f in [x for x in cls.module.all_funcs if x.cls is cls]:
        if f.name == '__init__':
            continue
        for x in own_nodes(f.node):
            if isinstance(x, ast.Call) and isinstance(x.func, ast.Attribute) and x.func.attr in (
                    'remove', 'discard', 'clear', 'pop', 'difference_update', 'intersection_update') and self_field(x.func.value) == 'seen':
                removes.append((f, x))
            if isinstance(x, (ast.Assign, ast.AugAssign)) and any(
                    self_field(t) == 'seen' for t in (x.targets if isinstance(x, ast.Assign) else [x.target])):
                if not (isinstance(x, ast.AugAssign) and isinstance(x.op, ast.BitOr)):
                    removes.append((f, x))
    R.ob('SEEN-SET', con, 'monotone', not removes, 'self.seen is shrunk or re-assigned outside __init__ (%s)'
         % ', '.join(f.name for f, _ in removes), ctx.where(removes[0][0], removes[0][1].lineno) if removes else None)
