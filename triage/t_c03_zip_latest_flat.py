"""C03/C01 witness: zip_latest.update returns a *nested* list ([[...awaitables...]]).  Stream._emit
extends its result with it, so a source doing `await asyncio.gather(*self._emit(x))` is handed a list
where an awaitable is expected and its polling loop dies after the first element."""
import asyncio, logging
logging.disable(logging.CRITICAL)
from streamz import Stream


async def main():
    a = Stream(asynchronous=True)
    b = Stream(asynchronous=True)
    got = []

    async def slow(x):
        await asyncio.sleep(0.01)
        got.append(x)
    a.zip_latest(b).sink(slow)
    await b.emit('b')
    r = a._emit(1)
    print('a._emit returned', r)
    assert all(not isinstance(e, list) for e in r), 'nested list handed back as awaitable'
    await asyncio.gather(*r)
    assert got == [(1, 'b')]
    print('OK')

asyncio.run(main())
