"""C04 checkpoint safety: the completion signal never precedes completion (structural clauses)"""
from ..rules import holds
from .common import hold_classes, declare

RULES = ['EMIT-AFTER-REL', 'SCRATCH-SLOT', 'HOLD-BEFORE-ESCAPE', 'REL-AFTER-AWAIT', 'EMIT-REL-TIMING', 'NO-REL-ON-FAIL', 'REL-WHILE-IN-FLIGHT', 'EMIT-BALANCE', 'REL-WHILE-BUFFERED', 'DROP-TABLE']
FLOORS = {'HOLD-BEFORE-ESCAPE': 14, 'REL-AFTER-AWAIT': 12, 'NO-REL-ON-FAIL': 15, 'EMIT-REL-TIMING': 1,
          'REL-WHILE-IN-FLIGHT': 1, 'DROP-TABLE': 8, 'REL-WHILE-BUFFERED': 4}

META = {'level': "Static typestate analysis of the reference-count protocol on every enumerated path (loops unrolled, helpers spliced, exceptional edges) of every method of every node class. Decides structural necessary conditions of 'never early, never for a failed element': retain-before-escape, release-after-await, no release on failure edges, ownership of in-flight slots. It does not decide when the loop runs a callback nor Dask cluster behaviour; a behavioural proof over all schedules is out of reach of static analysis.", 'note': 'Trusted: CPython ast; Python evaluation order and tornado/asyncio suspension semantics as encoded in sa/paths.py; the reasoned exception tables printed in the evidence. Two genuine defects are listed in known_findings.json (Stream._emit release timing; latest in-flight release).', 'technique': 'static analysis: bounded path enumeration + ownership/typestate rules (HOLD-BEFORE-ESCAPE, REL-AFTER-AWAIT, NO-REL-ON-FAIL, REL-WHILE-IN-FLIGHT, EMIT-REL-TIMING)'}


def run(ctx, R):
    R.explanation = (
        'Reference-count typestate on every path (loops unrolled to K, helpers spliced, exceptional edges) of every '
        'method of every node class: a retain must dominate every store/escape/use-after-suspension of the incoming '
        'metadata; a release that follows an emission must follow the await of that emission; no release on a failure '
        'edge; a coroutine must own (have taken) what it emits while suspended. These are necessary conditions of C04; '
        'when the loop runs the callback, and Dask cluster behaviour, are not decided.')
    R.not_decided = ['when the event loop actually runs a scheduled completion callback', 'Dask cluster behaviour']
    R.assume('Python evaluation order and tornado/asyncio suspension points (yield/await) as encoded in sa/paths.py')
    declare(R, holds.RULES, RULES, FLOORS)
    for c in hold_classes(ctx):
        R.run(holds.check_class, ctx, R, c, rules=set(RULES))
        R.run(holds.check_in_flight, ctx, R, c)
    R.run(holds.check_emit, ctx, R)
    R.run(holds.check_drop_table, ctx, R, hold_classes(ctx))
    # obligations of rules that belong to C05 were filtered by `rules=`; drop class-level extras
    for k in [k for k in R.obs if k[0] not in RULES]:
        del R.obs[k]


META['level'] += ' EMIT-BALANCE (all downstream holds retained before the first delivery) is also part of this check.'
META['level'] += ' DROP-TABLE: a buffered element that was never emitted is released only at the listed drop sites (input abandoned, duplicate superseded); REL-WHILE-BUFFERED: update() never releases the incoming element while it sits in one of the node\'s containers.'
