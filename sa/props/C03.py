"""C03 backpressure plumbing (structural clauses)"""
from ..rules import flow, delivery
from .common import declare

RULES = ['PROPAGATE', 'FLAT-RETURN', 'BOUND-PLUMB', 'NOTIFY-ON-FREE', 'EMIT-CONVERT', 'SYNC-TRANSPORT', 'AWAITABLE-RESULT', 'SINGLE-CONSUMER', 'FIFO-END']
FLOORS = {'PROPAGATE': 40, 'FLAT-RETURN': 30, 'BOUND-PLUMB': 8, 'NOTIFY-ON-FREE': 1, 'EMIT-CONVERT': 3, 'SYNC-TRANSPORT': 3, 'SINGLE-CONSUMER': 1, 'FIFO-END': 1, 'AWAITABLE-RESULT': 1}

META = {
    'level': "Static value-flow analysis of every _emit/emit call site (path enumeration with an abstract shape lattice): the "
             "awaitables produced downstream are never dropped on any path (returned, awaited, or parked in a slot that update "
             "returns), what update returns is flat, the documented bound parameter reaches the bounding primitive whose wait is "
             "what update returns, space-freeing paths notify waiters, emit()/sync() convert and transport. Necessary conditions "
             "of backpressure; that in-flight <= n for every schedule and absence of deadlock are not decided.",
    'note': "Trusted: CPython ast; the awaitable-constructor table in sa/paths.py; the reasoned table of call sites allowed to "
            "drop an emission (collect.flush). NOTE-level reports outside the property's anchor files never affect the exit code.",
    'technique': "static analysis: def-use/value-flow of emit results on enumerated paths + shape lattice + structural plumbing "
                 "checks (PROPAGATE, FLAT-RETURN, BOUND-PLUMB, NOTIFY-ON-FREE, EMIT-CONVERT, SYNC-TRANSPORT)",
}


def run(ctx, R):
    R.explanation = ('Every _emit/emit call site of the package is followed on every enumerated path to a return, an await '
                     'or a deferred-return slot; update() return shapes are evaluated in a 6-point shape lattice; the bound '
                     'parameters of buffer/map_async/zip are traced to their bounding primitive. Exactness of the bound under '
                     'every schedule and freedom from deadlock are not decided.')
    R.not_decided = ['in-flight <= n for every schedule', 'absence of deadlock for every schedule (only lost-wake-up shapes)']
    declare(R, {**flow.RULES, 'SINGLE-CONSUMER': delivery.RULES['SINGLE-CONSUMER'], 'FIFO-END': delivery.RULES['FIFO-END']}, RULES, FLOORS)
    R.run(flow.check_propagate, ctx, R)
    classes = [c for c in ctx.model.nodes if c.module.name in flow.ANCHOR_MODULES_C03 + ('streamz.river',)]
    R.run(flow.check_flat_return, ctx, R, classes)
    R.run(flow.check_slot_returned, ctx, R, classes)
    R.run(flow.check_bound_plumb, ctx, R)
    R.run(flow.check_emit_convert, ctx, R)
    R.run(flow.check_sync_transport, ctx, R)
    R.run(flow.check_awaitable_result, ctx, R, classes)
    # the bound of map_async (parallelism) holds only while one worker takes jobs: a replaced worker must end on its stop event
    R.run(delivery.check_single_consumer, ctx, R, [ctx.model.cls('streamz.core', 'map_async')])
    # the awaitable update() hands back must be the one that is resolved when *that* element was delivered: a sink that keeps
    # its pending futures in a list resolves them first-in first-out
    R.run(delivery.check_fifo_end, ctx, R, [c for c in ctx.model.nodes if c.module.name == 'streamz.sinks'])
