import asyncio, logging
logging.disable(logging.CRITICAL)
from streamz import Stream
from tornado.ioloop import IOLoop

async def t_slice_bp():
    src = Stream(asynchronous=True)
    done = []
    async def slow(x):
        await asyncio.sleep(0.05); done.append(x)
    src.slice(0, None, 1).sink(slow)
    await src.emit(1)
    print("slice: after awaited emit, consumer done =", done, "(expect [1])")
    await asyncio.sleep(0.1)

async def t_cl_disconnect():
    a = Stream(asynchronous=True); b = Stream(asynchronous=True); c = Stream(asynchronous=True)
    cl = a.combine_latest(b, c)
    L = cl.sink_to_list()
    await a.emit(1); await b.emit(2); await c.emit(3)
    try:
        c.disconnect(cl)
        await a.emit(10)
        print("combine_latest disconnect after data OK:", L)
    except Exception as e:
        print("combine_latest disconnect after data: EXC", type(e).__name__, e)

async def t_restart():
    src = Stream.from_iterable([1, 2, 3, 4], asynchronous=False, loop=IOLoop.current())
    got = []
    async def slow(x):
        await asyncio.sleep(0.03); got.append(x)
    src.sink(slow)
    src.start()
    await asyncio.sleep(0.01)   # loop suspended in backpressured emit of 1
    src.stop(); src.start()
    await asyncio.sleep(0.5)
    print("from_iterable stop/start while suspended:", got)

async def t_restart_periodic():
    n = [0]
    def cbk():
        n[0] += 1; return n[0]
    src = Stream.from_periodic(cbk, 0.02, loop=IOLoop.current())
    got = src.sink_to_list()
    src.start()
    await asyncio.sleep(0.05)
    for _ in range(3):
        src.stop(); src.start()
    t0 = len(got)
    await asyncio.sleep(0.2)
    print("from_periodic after 3 stop/start: emitted in 0.2s:", len(got) - t0, "(one loop would be ~10)")
    src.stop()

async def main():
    for t in [t_slice_bp, t_cl_disconnect, t_restart, t_restart_periodic]:
        try: await t()
        except Exception as e:
            import traceback; traceback.print_exc()
asyncio.run(main())
