"""C05/C10 witness: partition_unique and timed_window_unique.
Before the fix (a) an element dropped as a duplicate (keep='first') or replaced (keep='last') keeps its
retain forever, (b) partition_unique emits a *nested* metadata list, which _retain_refs/_release_refs of
every downstream node silently skip, so even the kept elements are never released by the node."""
import asyncio, logging
logging.disable(logging.CRITICAL)
from streamz import Stream
from streamz.core import RefCounter
from tornado.ioloop import IOLoop


def partition_unique(keep):
    src = Stream()
    seen_md = []

    class rec(Stream):
        def update(self, x, who=None, metadata=None):
            seen_md.append(metadata)
    keepalive = rec(src.partition_unique(2, keep=keep))  # downstreams are weak references
    refs = [RefCounter() for _ in range(3)]
    for v, r in zip([1, 1, 2], refs):
        src.emit(v, metadata=[{'ref': r}])
    print('partition_unique keep=%s counts %s metadata seen downstream %s' % (keep, [r.count for r in refs], seen_md))
    assert all(isinstance(m, dict) for md in seen_md for m in md), 'metadata is not a flat list of dicts'
    assert [r.count for r in refs] == [0, 0, 0]


async def timed_window_unique(keep):
    src = Stream(asynchronous=True)
    src.timed_window_unique(0.02, keep=keep).sink(lambda x: None)
    refs = [RefCounter(loop=IOLoop.current()) for _ in range(3)]
    for v, r in zip([1, 1, 2], refs):
        await src.emit(v, metadata=[{'ref': r}])
    await asyncio.sleep(0.1)
    print('timed_window_unique keep=%s counts %s' % (keep, [r.count for r in refs]))
    assert [r.count for r in refs] == [0, 0, 0]


partition_unique('first')
partition_unique('last')
asyncio.run(timed_window_unique('first'))
asyncio.run(timed_window_unique('last'))
print('OK')
