"""Dask siblings (DESIGN 4.12): SIBLING-SIG, DASK-REGISTRY, MRO-INIT."""
import ast

from ..model import AnalysisError, own_nodes, src, self_field
from ..symexpr import sym_paths, text
from .loopbind import ctor_chain

RULES = {
    'SIBLING-SIG': 'dask.map/accumulate/starmap agree with core.map/accumulate/starmap on a normal form: after rewriting '
                   'client.submit(f, a..) -> f(a..), submit(getitem, r, i) -> r[i], submit(apply, f, x, k) -> f(*x, **k), every '
                   'path has the same branch tests, state update, emitted expression and metadata argument; constructor '
                   'parameters and defaults agree',
    'DASK-REGISTRY': 'every node named by the property resolves on DaskStream to a class that derives from DaskStream (or gather)',
    'MRO-INIT': 'for each mix-in class n(DaskStream, core.n) the MRO makes DaskStream.__init__ forward to core.n.__init__ with '
                'ensure_io_loop=True exactly once, reaching Stream.__init__ once',
    'SCATTER-GATHER': 'scatter/gather convert at the boundary: scatter awaits client.scatter([x]) and emits the single future; '
                      'gather awaits client.gather(x) and emits its result; both emit exactly once with the incoming metadata',
}
NAMED = ('map', 'starmap', 'accumulate', 'zip', 'buffer', 'partition', 'sliding_window', 'union', 'scatter', 'gather')
PAIRS = ('map', 'accumulate', 'starmap')


class _DaskRewrite(ast.NodeTransformer):
    def visit_Call(self, n):
        self.generic_visit(n)
        f = n.func
        if isinstance(f, ast.Attribute) and f.attr == 'submit' and src(f.value) in ('client', 'default_client()') and n.args:
            g, rest = n.args[0], n.args[1:]
            gname = src(g)
            if gname == 'getitem' and len(rest) == 2 and not n.keywords:
                return ast.Subscript(value=rest[0], slice=rest[1], ctx=ast.Load())
            if gname == 'apply' and len(rest) in (2, 3) and not n.keywords:
                kw = [ast.keyword(arg=None, value=rest[2])] if len(rest) == 3 else []
                return ast.Call(func=rest[0], args=[ast.Starred(value=rest[1], ctx=ast.Load())], keywords=kw)
            if gname == '_apply_with_args' and len(rest) == 4 and not n.keywords:
                return ast.Call(func=rest[0], args=[ast.Starred(value=rest[1], ctx=ast.Load()), ast.Starred(value=rest[2], ctx=ast.Load())],
                                keywords=[ast.keyword(arg=None, value=rest[3])])
            return ast.Call(func=g, args=list(rest), keywords=n.keywords)
        if any(isinstance(a, ast.Starred) for a in n.args):
            # f(*(x + extra)) = f(*x, *extra) = f(*(*x, *extra))
            from .flow import flat_positional_nodes
            return ast.Call(func=n.func, args=flat_positional_nodes(n.args), keywords=n.keywords)
        return n

    def visit_Attribute(self, n):
        self.generic_visit(n)
        if isinstance(n.value, ast.Name) and n.value.id == 'core' and n.attr == 'no_default':
            return ast.Name(id='no_default', ctx=ast.Load())
        return n


def _helper_is_transparent(model):
    """the module-level helper used by dask.starmap must be the transparent application the rewrite assumes
    (decided on its symbolic normal form: temporaries are transparent)"""
    from ..symexpr import SymEval, nf
    fn = model.function('streamz.dask', '_apply_with_args', required=False)
    if fn is None:
        return True
    p = fn.params()
    if len(p) != 4:
        return False
    paths = [r for r in SymEval(model, None).run(fn) if not r.raised]
    if len(paths) != 1 or paths[0].ret is None:
        return False
    return nf(paths[0].ret) in ('%s(*(%s+%s),**%s)' % (p[0], p[1], p[2], p[3]), '%s(*%s+%s,**%s)' % (p[0], p[1], p[2], p[3]))


def _signature(model, cls, fn, rewrite):
    """path signatures on symbolic normal forms (helper methods spliced, temporaries substituted, branch order irrelevant)"""
    import copy
    from ..symexpr import SymEval, norm_cond

    def rw(e):
        if e is None:
            return 'None'
        return src(ev.simplify(ast.fix_missing_locations(rewrite.visit(copy.deepcopy(e)))))

    sigs = set()
    ev = SymEval(model, cls)
    for p in ev.run(fn):
        if p.raised:
            continue
        conds = []
        for c, o in p.conds:
            if c.startswith('<'):
                continue
            c2, o2 = norm_cond(c, o)
            t = rw(ast.parse(c2, mode='eval').body)
            if 'client' not in t:
                conds.append((t, o2))
        st = [v for f, v, s_, l in p.stores if f == 'state']
        em = tuple((rw(d), rw(m)) for d, m, s_, l in p.emits)
        rets = rw(p.ret)
        sigs.add((tuple(sorted(set(conds))), rw(st[-1]) if st else None, em, 'returns-emit' if 'EMITRESULT' in rets else rets))
    return sigs


def check_sibling_sig(ctx, R):
    M = ctx.model
    R.ob('SIBLING-SIG', 'streamz.dask._apply_with_args', 'transparent', _helper_is_transparent(M),
         'the task helper is not the plain application func(*(x + args), **kwargs) the sibling comparison assumes',
         None)
    for name in PAIRS:
        c = M.cls('streamz.core', name)
        d = M.cls('streamz.dask', name)
        cu, du = c.methods.get('update'), d.methods.get('update')
        if cu is None or du is None:
            raise AnalysisError('anchor vanished: %s.update in core or dask' % name)
        con = 'streamz.dask.%s.update' % name
        try:
            sc = _signature(M, c, cu, _DaskRewrite())
            sd = _signature(M, d, du, _DaskRewrite())
        except AnalysisError as e:
            raise
        only_c = sorted(sc - sd)
        only_d = sorted(sd - sc)
        ok = not only_c and not only_d
        detail = ''
        if not ok:
            detail = 'path signatures differ; only core: %s | only dask: %s' % (
                '; '.join(_fmt(s) for s in only_c[:2]), '; '.join(_fmt(s) for s in only_d[:2]))
        R.ob('SIBLING-SIG', con, 'paths', ok, detail, ctx.where(du, du.node.lineno), None, len(sc))
        # constructor parameters and defaults
        ci, di = c.methods.get('__init__'), d.methods.get('__init__')
        sigc, sigd = _ctor_sig(ci), _ctor_sig(di)
        R.ob('SIBLING-SIG', 'streamz.dask.%s.__init__' % name, 'signature', sigc == sigd,
             'constructor signatures differ: core %s vs dask %s' % (sigc, sigd), ctx.where(di, di.node.lineno))
        # the same instance fields are configured from the same parameters
        fc, fd = _ctor_fields(M, c, ci), _ctor_fields(M, d, di)
        common = {k: v for k, v in fc.items() if k in ('func', 'args', 'kwargs', 'state', 'returns_state', 'with_state')}
        diff = {k: (v, fd.get(k)) for k, v in common.items() if fd.get(k) != v}
        R.ob('SIBLING-SIG', 'streamz.dask.%s.__init__' % name, 'fields', not diff,
             'constructor configures fields differently: %s' % diff, ctx.where(di, di.node.lineno))


def _fmt(sig):
    conds, st, em, ret = sig
    return '[%s] state<-%s emit%s' % (' & '.join('%s=%s' % c for c in conds), st, list(em))


def _ctor_sig(fn):
    a = fn.node.args
    pos = [x.arg for x in a.args]
    defaults = [src(d).replace('core.', '') for d in a.defaults]
    return (tuple(pos), tuple(defaults), a.vararg.arg if a.vararg else None, a.kwarg.arg if a.kwarg else None)


def _ctor_fields(model, cls, fn):
    """field -> the values it is configured with (one per path), on the constructor's symbolic normal form: helper methods of
    the class / a private mix-in are spliced, named intermediates substituted, statement order is irrelevant"""
    from ..symexpr import SymEval
    out = {}
    for r in SymEval(model, cls).run(fn):
        if r.raised:
            continue
        last = {}
        for f, v, s_, l in r.stores:
            last[f] = src(v).replace('core.', '')
        for f, v in last.items():
            out.setdefault(f, set()).add(v)
    return {f: sorted(v) for f, v in out.items()}


def check_registry_and_mro(ctx, R):
    M = ctx.model
    ds = M.cls('streamz.dask', 'DaskStream')
    api = M.api_of(ds)
    for name in NAMED:
        c = api.get(name)
        ok = c is not None and (c.isa(ds) or name == 'gather') and c.module.name == 'streamz.dask'
        R.ob('DASK-REGISTRY', 'streamz.dask.DaskStream', name, ok,
             'DaskStream.%s does not resolve to a Dask-aware class (found %s): the segment would silently run the local node'
             % (name, c.fq if c else None), '%s:%d' % (c.file, c.node.lineno) if c else ds.file)
        if name == 'gather' and c is not None:
            # gather ends the Dask segment: what follows it is local again, so the node it creates must offer the *core* API
            # (were it a DaskStream, .gather().map(f) would submit f to the cluster and hand futures to the local sinks)
            R.ob('DASK-REGISTRY', c.fq if hasattr(c, 'fq') else 'streamz.dask.gather', 'ends-the-segment',
                 c.isa(M.stream) and not c.isa(ds),
                 'gather is a DaskStream: the nodes chained after .gather() are Dask nodes again and deliver futures, not values',
                 '%s:%d' % (c.file, c.node.lineno))
        if c is not None and name in ('scatter',):
            core_api = M.api_of(M.stream)
            R.ob('DASK-REGISTRY', 'streamz.core.Stream', 'scatter', core_api.get('scatter') is c or 'scatter' in M.stream.methods,
                 'Stream.scatter does not lead to the Dask scatter node', None)
    # DaskStream.__init__, on its symbolic normal form: on every path one super().__init__(*args, ...) call that carries
    # ensure_io_loop=True and the caller's keywords (kwargs[...] = True / kwargs.update(...) / dict(kwargs, ensure_io_loop=True))
    from ..symexpr import SymEval
    init = ds.methods.get('__init__')
    sets = fwd = False
    if init is not None:
        kwn = init.node.args.kwarg.arg if init.node.args.kwarg else None
        van = init.node.args.vararg.arg if init.node.args.vararg else None
        recs = [r for r in SymEval(M, ds).run(init) if not r.raised]
        sets = fwd = bool(recs)
        for r in recs:
            bcs = [c for c, _s, _l in r.calls if isinstance(c, ast.Call) and isinstance(c.func, ast.Attribute) and c.func.attr == '__init__'
                   and isinstance(c.func.value, ast.Call) and src(c.func.value.func) == 'super']
            if len(bcs) != 1:
                sets = fwd = False
                break
            c = bcs[0]
            kws = {k.arg: k.value for k in c.keywords if k.arg}
            explicit = isinstance(kws.get('ensure_io_loop'), ast.Constant) and kws['ensure_io_loop'].value is True
            # kwargs["ensure_io_loop"] = True before the call (recorded as an item store on the kwargs dict)
            stored = any(isinstance(x, ast.Assign) and isinstance(x.targets[0], ast.Subscript) and isinstance(x.targets[0].value, ast.Name)
                         and x.targets[0].value.id == kwn and isinstance(x.targets[0].slice, ast.Constant)
                         and x.targets[0].slice.value == 'ensure_io_loop' and isinstance(x.value, ast.Constant) and x.value.value is True
                         for x, _s, _l in r.calls) or \
                any(isinstance(x, ast.Call) and isinstance(x.func, ast.Attribute) and x.func.attr == 'update' and isinstance(x.func.value, ast.Name)
                    and x.func.value.id == kwn and any(k.arg == 'ensure_io_loop' and isinstance(k.value, ast.Constant) and k.value.value is True
                                                        for k in x.keywords) for x, _s, _l in r.calls)
            sets = sets and (explicit or stored)
            fwd = fwd and any(isinstance(a, ast.Starred) and isinstance(a.value, ast.Name) and a.value.id == van for a in c.args) \
                and any(k.arg is None and isinstance(k.value, ast.Name) and k.value.id == kwn for k in c.keywords)
    R.ob('MRO-INIT', 'streamz.dask.DaskStream.__init__', 'forwards', bool(sets and fwd),
         'DaskStream.__init__ does not set ensure_io_loop=True and forward *args/**kwargs along the MRO',
         ctx.where(init, init.node.lineno) if init else None)
    for c in M.subclasses(ds):
        if c is ds:
            continue
        others = [b for b in c.bases if b is not ds and b.isa(M.stream) and not b.isa(ds)]   # the non-Dask (core) node bases
        named = c.name in NAMED
        if others:
            own = set(c.methods) - set(getattr(c, 'inherited_private', ()))
            order_ok = c.mro.index(ds) < c.mro.index(others[0]) and not own
            ch = ctor_chain(M, c)
            ok = order_ok and ch.reaches_stream == 1 and ch.ensure is True and not ch.twice
            detail = ''
            if not order_ok:
                detail = 'DaskStream must precede %s in the bases so that its constructor runs first' % others[0].fq
            elif ch.twice:
                detail = 'ensure_io_loop is supplied twice along %s: TypeError at construction' % ' -> '.join(ch.steps)
            elif not ok:
                detail = 'constructor chain %s reaches Stream.__init__ %d time(s), ensure_io_loop=%s' % (
                    ' -> '.join(ch.steps), ch.reaches_stream, ch.ensure)
            if named or ok:
                R.ob('MRO-INIT', c.module.name + '.' + c.name, 'chain', ok, detail, '%s:%d' % (c.file, c.node.lineno))
            else:
                R.note('MRO-INIT outside C20\'s node list: %s.%s: %s' % (c.module.name, c.name, detail))
        else:
            ch = ctor_chain(M, c)
            ok = ch.reaches_stream == 1 and ch.ensure is True
            if named or not ok:
                R.ob('MRO-INIT', c.module.name + '.' + c.name, 'chain', ok,
                     'constructor chain %s reaches Stream.__init__ %d time(s), ensure_io_loop=%s' % (
                         ' -> '.join(ch.steps), ch.reaches_stream, ch.ensure), '%s:%d' % (c.file, c.node.lineno))


def _derives_from(fn, node, call, depth=0):
    """does `node` denote (through single-definition locals, subscripts and await/yield) the result of `call`"""
    from .idioms import local_defs
    if node is None or depth > 5:
        return False
    if node is call:
        return True
    if isinstance(node, (ast.Await, ast.Yield, ast.YieldFrom)):
        return _derives_from(fn, node.value, call, depth + 1)
    if isinstance(node, ast.Subscript):
        return _derives_from(fn, node.value, call, depth + 1)
    if isinstance(node, ast.Name):
        vals = local_defs(fn.node).get(node.id, [])
        return len(vals) == 1 and vals[0] is not None and _derives_from(fn, vals[0], call, depth + 1)
    return False


def check_scatter_gather(ctx, R):
    """on the let-normal form of every normal path: exactly one client.<prim>(<incoming value>, asynchronous=True) whose
    value is awaited; exactly one emission, of that value (scatter: its element 0), with the incoming metadata"""
    from ..symexpr import SymEval, nf
    M = ctx.model
    for name, prim in (('scatter', 'scatter'), ('gather', 'gather')):
        c = M.cls('streamz.dask', name)
        fn = c.methods.get('update')
        if fn is None:
            raise AnalysisError('anchor vanished: dask.%s.update' % name)
        con = ctx.construct(fn)
        paths = [r for r in SymEval(M, c, name_calls=True).run(fn) if not r.raised]
        if not paths:
            raise AnalysisError('%s: no normal path (unrecognised spelling)' % con)
        bad_call, bad_em, bad_single = None, None, None
        for r in paths:
            prims = []
            for k, (cl, s_, l) in enumerate(r.calls):
                if isinstance(cl, ast.Call) and isinstance(cl.func, ast.Attribute) and cl.func.attr == prim:
                    rv = nf(cl.func.value)
                    if rv == 'client' or (rv[:1] == 'C' and rv[1:].isdigit() and nf(r.calls[int(rv[1:])][0]) == 'default_client()'):
                        prims.append((k, cl))
            if len(prims) != 1:
                bad_call = bad_call or 'expected exactly one client.%s call, found %d' % (prim, len(prims))
                continue
            k, call = prims[0]
            a0 = nf(call.args[0]) if call.args else ''
            asyn = any(kw.arg == 'asynchronous' and isinstance(kw.value, ast.Constant) and kw.value.value is True for kw in call.keywords)
            if name == 'scatter' and a0 != '[x]':
                bad_call = bad_call or 'client.scatter is not given [x] (lists and dicts are treated differently by dask)'
            if name == 'gather' and a0 != 'x':
                bad_call = bad_call or 'client.gather is not given the incoming future x'
            if not asyn:
                bad_call = bad_call or 'client.%s is not called with asynchronous=True' % prim
            for kw in call.keywords:
                if kw.arg == 'errors' and not (isinstance(kw.value, ast.Constant) and kw.value.value == 'raise'):
                    bad_call = bad_call or ("client.%s(errors=%s): a task that failed on the cluster no longer raises to the "
                                            "emitter, the sinks receive made-up values" % (prim, nf(kw.value)))
                if kw.arg is None:
                    bad_call = bad_call or 'client.%s is called with **kwargs whose content is not visible' % prim
            if k not in r.awaited_calls:
                bad_call = bad_call or 'the result of client.%s is not awaited' % prim
            if len(r.emits) != 1:
                bad_em = bad_em or 'the node emits %d times on a normal path' % len(r.emits)
                continue
            data, md, s_, l = r.emits[0]
            want = 'FIRST(C%d)' % k if name == 'scatter' else 'C%d' % k
            if nf(md) != 'metadata' or l:
                bad_em = bad_em or 'the emission does not carry the incoming metadata'
            if nf(data) != want:
                if name == 'scatter' and nf(data) == 'C%d' % k:
                    bad_single = 'the single future is not taken out of the scattered list'
                else:
                    bad_em = bad_em or 'the emitted value is %s, not the converted value' % nf(data)[:60]
            if 0 not in r.awaited:
                bad_em = bad_em or 'the emission is not awaited'
        R.ob('SCATTER-GATHER', con, 'boundary-call', bad_call is None, bad_call or '', ctx.where(fn, fn.node.lineno), None, len(paths))
        R.ob('SCATTER-GATHER', con, 'emits-converted-value-once', bad_em is None and bad_call is None,
             bad_em or bad_call or '', ctx.where(fn, fn.node.lineno), None, len(paths))
        if name == 'scatter':
            R.ob('SCATTER-GATHER', con, 'single-future', bad_single is None and bad_call is None, bad_single or bad_call or '',
                 ctx.where(fn, fn.node.lineno))
