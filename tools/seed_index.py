#!/usr/bin/env python3
"""re-evaluate every kept seeded change against the current checks (fresh scratch worktree of /repo's HEAD, removed
afterwards), refresh caught_by in each meta.json and write seeded/INDEX.md"""
import json
import os
import re
import subprocess
import sys
import tempfile

HERE = os.path.dirname(os.path.dirname(os.path.abspath(__file__)))
SEEDED = os.path.join(HERE, 'seeded')


def main():
    wt = tempfile.mkdtemp(prefix='seedeval_')
    os.rmdir(wt)
    subprocess.run(['git', '-C', '/repo', 'worktree', 'add', '-q', '--detach', wt, 'HEAD'], check=True)
    rows = []
    try:
        for d in sorted(os.listdir(SEEDED)):
            sd = os.path.join(SEEDED, d)
            if not os.path.isdir(sd) or not os.path.exists(os.path.join(sd, 'meta.json')):
                continue
            env = dict(os.environ, SKIP_SUITE='1')
            out = subprocess.run([os.path.join(HERE, 'tools', 'eval_seed.sh'), sd, wt], capture_output=True, text=True, env=env).stdout
            meta = json.load(open(os.path.join(sd, 'meta.json')))
            m = re.search(r'demo: clean tree exit=(\d+), changed tree exit=(\d+)', out)
            caught = {}
            for l in out.splitlines():
                mm = re.match(r'\s+(C\d+) exit=(\d)\s+(.*)', l)
                if mm:
                    caught[mm.group(1)] = {'exit': int(mm.group(2)), 'rules': [r for r in mm.group(3).split() if '@' in r]}
            meta['caught_by'] = caught
            meta['caught_by_claimed_property_check'] = meta['breaks_property'] in caught and caught[meta['breaks_property']]['exit'] == 1
            if 'PATCH-DOES-NOT-APPLY' in out:
                meta['note'] = 'patch no longer applies to /repo HEAD'
            if m:
                meta['demo_exit_unchanged_tree'], meta['demo_exit_changed_tree'] = int(m.group(1)), int(m.group(2))
            json.dump(meta, open(os.path.join(sd, 'meta.json'), 'w'), indent=1)
            rows.append(meta)
            print(d, {k: v['rules'] for k, v in caught.items()} or 'NOT CAUGHT', flush=True)
    finally:
        subprocess.run(['git', '-C', '/repo', 'worktree', 'remove', '--force', wt])
    with open(os.path.join(SEEDED, 'INDEX.md'), 'w') as f:
        f.write('# Independently seeded changes\n\nEach directory holds `patch.diff` (apply with `git -C /repo apply`), `demo.py` '
                '(passes on the unchanged tree, fails with the change), `notes.md` (the author\'s description) and `meta.json`.\n'
                'Written by sub-agents that saw only the property text and a scratch worktree. Re-evaluated by `tools/seed_index.py`.\n\n')
        f.write('| id | breaks | caught by own check | all checks that report it (rule@construct) | missed at first / strengthened |\n|---|---|---|---|---|\n')
        for m in rows:
            cb = '; '.join('%s: %s' % (k, ', '.join(sorted(set(v['rules'])))) for k, v in sorted(m['caught_by'].items())) or '**not caught**'
            f.write('| %s | %s | %s | %s | %s |\n' % (m['id'], m['breaks_property'], 'yes' if m['caught_by_claimed_property_check'] else 'no',
                                                 cb, (m.get('strengthened') or '').replace('|', '/')))
        n = len(rows)
        own = sum(1 for m in rows if m['caught_by_claimed_property_check'])
        anyc = sum(1 for m in rows if m['caught_by'])
        first = sum(1 for m in rows if not m.get('missed_at_first') and m['caught_by'])
        f.write('\n%d changes; %d reported by at least one check, %d by the check of the property they were written against; '
                '%d were reported before any strengthening.\n' % (n, anyc, own, first))
    print('index written:', n, 'changes,', anyc, 'caught,', own, 'by own check')


if __name__ == '__main__':
    main()
