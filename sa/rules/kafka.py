"""Kafka wiring rules (DESIGN 4.11) - code the test-suite never executes (no broker, no confluent_kafka)."""
import ast

from ..model import AnalysisError, own_nodes, src, self_field
from .idioms import norm, local_defs

RULES = {
    'AUTOCOMMIT-OFF': "FromKafkaBatched.__init__ unconditionally sets consumer_params['enable.auto.commit'] to 'false' and nothing "
                      'else in the package writes that key',
    'COMMIT-ONLY-VIA-REF': 'consumer.commit is called only inside the closure used only as cb= of the RefCounter that travels as '
                           'metadata of the _emit of the same batch (loop=self.loop)',
    'TUPLE-LAYOUT': 'the batch tuple agrees position by position with the parameters of get_message_batch(_cudf) and with the '
                    'unpack in commit()',
    'OFFSET-ALGEBRA': 'first offset = max(cursor, low watermark); high is only the watermark or the clamp lowest + max_batch_size; '
                      'emission guarded by high > lowest; last component high - 1; cursor <- high in the same block; commit = last + 1',
    'SEED-FROM-COMMITTED': 'every path into the poll loop first sets positions[partition] from consumer.committed(...)',
    'READ-RANGE': 'get_message_batch assigns the partition at `low`, keeps messages with offset <= high, stops at offset >= high and '
                  'closes its consumer in finally',
}


def _fkb(ctx):
    M = ctx.model
    cls = M.cls('streamz.sources', 'FromKafkaBatched')
    return cls, None


def scope(cls):
    """every function of the class: methods and the closures nested in them (refactorings move code between them)"""
    return [f for f in cls.module.all_funcs if f.cls is cls]


def _calls(fn, pred):
    return [n for n in own_nodes(fn.node) if isinstance(n, ast.Call) and pred(n)]


def _attr_call(n, attr):
    return isinstance(n.func, ast.Attribute) and n.func.attr == attr


def find_batch_site(cls):
    """(function, append call) of the 6-tuple handed to get_message_batch"""
    for f in scope(cls):
        for n in own_nodes(f.node):
            if isinstance(n, ast.Call) and _attr_call(n, 'append') and n.args and isinstance(n.args[0], ast.Tuple) \
                    and len(n.args[0].elts) == 6:
                return f, n
    raise AnalysisError('FromKafkaBatched: no 6-tuple appended to a batch list was found (unrecognised spelling)')


def kafka_names(cls):
    """discover the local names of the batch computation by their definitions (alpha-insensitive)"""
    F, app = find_batch_site(cls)
    wm = None
    for n in own_nodes(F.node):
        if isinstance(n, ast.Assign) and isinstance(n.targets[0], (ast.Tuple, ast.List)) and isinstance(n.value, ast.Call) \
                and _attr_call(n.value, 'get_watermark_offsets') and len(n.targets[0].elts) == 2 \
                and all(isinstance(e, ast.Name) for e in n.targets[0].elts):
            wm = n
    if wm is None:
        raise AnalysisError('FromKafkaBatched: `low, high = consumer.get_watermark_offsets(...)` not found next to the batch tuple')
    low, high = wm.targets[0].elts[0].id, wm.targets[0].elts[1].id
    loop = next((l for l in own_nodes(F.node) if isinstance(l, ast.For) and any(x is wm for x in ast.walk(l))), None)
    part = loop.target.id if loop is not None and isinstance(loop.target, ast.Name) else None
    elts = app.args[0].elts
    start = elts[4].id if isinstance(elts[4], ast.Name) else None
    end = None
    e5 = elts[5]
    if isinstance(e5, ast.BinOp) and isinstance(e5.op, ast.Sub) and isinstance(e5.left, ast.Name) and src(e5.right) == '1':
        end = e5.left.id
    return {'F': F, 'app': app, 'wm': wm, 'low': low, 'high': high, 'part': part, 'start': start, 'end': end, 'loop': loop,
            'out': src(app.func.value)}


def check_autocommit(ctx, R):
    M = ctx.model
    cls, _ = _fkb(ctx)
    init = cls.methods['__init__']
    con = ctx.construct(init)
    ok, line = False, init.node.lineno
    # names that denote the very dict the consumer is later built from: the field, and a parameter stored in it as it is
    # (after `self.consumer_params = dict(consumer_params)` the parameter is another object)
    aliases = {'self.consumer_params'}
    for s in init.node.body:
        if isinstance(s, ast.Assign) and any(src(t) == 'self.consumer_params' for t in s.targets) and isinstance(s.value, ast.Name):
            aliases.add(s.value.id)
    stray = []
    for n in own_nodes(init.node):
        if isinstance(n, ast.Subscript) and isinstance(n.ctx, ast.Store) and isinstance(n.slice, ast.Constant) \
                and isinstance(n.slice.value, str) and '.' in n.slice.value and src(n.value) not in aliases:
            stray.append(n)
    R.ob('AUTOCOMMIT-OFF', con, 'settings-reach-the-consumer', not stray,
         'a consumer setting (%s) is written into %s, which is not the dict the consumer is built from (self.consumer_params): '
         'the setting never takes effect' % (stray[0].slice.value if stray else '', src(stray[0].value) if stray else ''),
         ctx.where(init, stray[0].lineno) if stray else ctx.where(init, init.node.lineno))
    for s in init.node.body:           # top level only: unconditional
        if isinstance(s, ast.Assign) and isinstance(s.targets[0], ast.Subscript) \
                and isinstance(s.targets[0].slice, ast.Constant) and s.targets[0].slice.value == 'enable.auto.commit':
            base = src(s.targets[0].value)
            val = s.value
            if base in aliases and isinstance(val, ast.Constant) and val.value in ('false', False, 'False'):
                ok, line = True, s.lineno
    R.ob('AUTOCOMMIT-OFF', con, 'enable.auto.commit', ok,
         "auto-commit is not forced off unconditionally in the constructor: offsets could be committed before processing",
         ctx.where(init, line))
    built = None
    for f in scope(cls):
        for n in own_nodes(f.node):
            if isinstance(n, ast.Call) and src(n.func).endswith('Consumer') and n.args and src(n.args[0]) == 'self.consumer_params':
                built = f
    R.ob('AUTOCOMMIT-OFF', cls.module.name + '.' + cls.name, 'consumer-built-from-params', built is not None,
         'the consumer is not constructed from self.consumer_params', '%s:%d' % (cls.file, cls.node.lineno))
    others = []
    for m in M.modules.values():
        for n in ast.walk(m.tree):
            if isinstance(n, ast.Subscript) and isinstance(n.ctx, ast.Store) and isinstance(n.slice, ast.Constant) \
                    and n.slice.value == 'enable.auto.commit':
                if not (m.name == 'streamz.sources' and init.node.lineno <= n.lineno <= init.node.end_lineno):
                    others.append('%s:%d' % (m.relpath, n.lineno))
            if isinstance(n, ast.Call) and isinstance(n.func, ast.Attribute) and n.func.attr in ('setdefault', 'update', 'pop') \
                    and n.args and isinstance(n.args[0], ast.Constant) and n.args[0].value == 'enable.auto.commit':
                others.append('%s:%d' % (m.relpath, n.lineno))
    R.ob('AUTOCOMMIT-OFF', 'streamz', 'no-other-writer', not others,
         "another site writes 'enable.auto.commit': %s" % ', '.join(others), others[0] if others else None)


def _commit_fn(cls):
    sites = []
    for f in scope(cls):
        for n in own_nodes(f.node):
            if isinstance(n, ast.Call) and _attr_call(n, 'commit') and 'consumer' in src(n.func.value):
                sites.append((f, n))
    return sites


def _refcounter_fn(cls):
    out = []
    for f in scope(cls):
        for n in own_nodes(f.node):
            if isinstance(n, ast.Call) and src(n.func) in ('RefCounter', 'core.RefCounter'):
                out.append((f, n))
    return out


def _refers_to(node, fn):
    """does the expression refer to function fn (closure name or self.<method>)"""
    for x in ast.walk(node):
        if isinstance(x, ast.Name) and x.id == fn.name and fn.owner is None:
            return True
        if isinstance(x, ast.Attribute) and isinstance(x.value, ast.Name) and x.value.id == 'self' and x.attr == fn.name \
                and fn.owner is not None:
            return True
    return False


def check_commit_via_ref(ctx, R):
    cls, _ = _fkb(ctx)
    ccon = cls.module.name + '.' + cls.name
    sites = _commit_fn(cls)
    cfns = {f.fq: f for f, _ in sites}
    if len(cfns) != 1:
        R.ob('COMMIT-ONLY-VIA-REF', ccon, 'commit-sites', False,
             'consumer.commit must be called in exactly one function of the class (found %s)' % sorted(f.qual for f in cfns.values()),
             '%s:%d' % (cls.file, cls.node.lineno))
        return
    commit = list(cfns.values())[0]
    R.ob('COMMIT-ONLY-VIA-REF', ccon, 'commit-sites', len(sites) == 1, 'consumer.commit is called %d times' % len(sites),
         ctx.where(commit, sites[0][1].lineno))
    rcs = _refcounter_fn(cls)
    if len(rcs) != 1:
        R.ob('COMMIT-ONLY-VIA-REF', ccon, 'refcounter', False, 'expected exactly one RefCounter(...) in the class, found %d' % len(rcs),
             '%s:%d' % (cls.file, cls.node.lineno))
        return
    ce, rc = rcs[0]
    # every reference to the commit function is inside the cb= of that RefCounter
    refs = []
    for f in scope(cls):
        for n in own_nodes(f.node):
            if (isinstance(n, ast.Name) and n.id == commit.name and commit.owner is None and isinstance(n.ctx, ast.Load)) or \
                    (isinstance(n, ast.Attribute) and isinstance(n.value, ast.Name) and n.value.id == 'self' and n.attr == commit.name
                     and commit.owner is not None):
                refs.append((f, n))
        # lambdas are not own_nodes' children boundaries for Name search: walk them too
        for lam in [x for x in own_nodes(f.node) if isinstance(x, ast.Lambda)]:
            for n in ast.walk(lam):
                if (isinstance(n, ast.Name) and n.id == commit.name and commit.owner is None) or \
                        (isinstance(n, ast.Attribute) and isinstance(n.value, ast.Name) and n.value.id == 'self' and n.attr == commit.name
                         and commit.owner is not None):
                    refs.append((f, n))
    refs = list({id(n): (f, n) for f, n in refs}.values())
    cb = next((k.value for k in rc.keywords if k.arg == 'cb'), None)
    loop = next((k.value for k in rc.keywords if k.arg == 'loop'), None)
    okref, detail = True, ''
    part_param = next((p_ for p_ in ce.params() if p_ != 'self'), None)
    in_cb = cb is not None and refs and all(any(n is x for x in ast.walk(cb)) for _, n in refs)
    cb_arg_ok = cb is not None and any(isinstance(c, ast.Call) and _refers_to(c.func, commit) and c.args
                                       and src(c.args[0]) == part_param for c in ast.walk(cb))
    if not in_cb:
        okref, detail = False, 'the commit function is referenced outside the cb= of the RefCounter'
    elif not cb_arg_ok:
        okref, detail = False, 'the callback does not commit the batch it was created for'
    elif loop is None or src(loop) != 'self.loop':
        okref, detail = False, 'the RefCounter is not bound to self.loop'
    else:
        ref_name = next((t.id for s_ in own_nodes(ce.node) if isinstance(s_, ast.Assign) and s_.value is rc
                         for t in s_.targets if isinstance(t, ast.Name)), None)
        ems = [n for n in own_nodes(ce.node) if isinstance(n, ast.Call) and _attr_call(n, '_emit')]
        okem = False
        for e in ems:
            md = next((k.value for k in e.keywords if k.arg == 'metadata'), e.args[1] if len(e.args) > 1 else None)
            if e.args and src(e.args[0]) == part_param and md is not None and isinstance(md, ast.List) and len(md.elts) == 1 \
                    and isinstance(md.elts[0], ast.Dict) and [src(k) for k in md.elts[0].keys] == ["'ref'"] \
                    and (src(md.elts[0].values[0]) == ref_name or md.elts[0].values[0] is rc):
                okem = True
        if not okem:
            okref, detail = False, "the batch is not emitted with metadata=[{'ref': <that counter>}]"
        awaited = any(isinstance(n, (ast.Yield, ast.Await)) and any(x in ems for x in ast.walk(n)) for n in own_nodes(ce.node))
        if okem and not awaited:
            okref, detail = False, 'the checkpointing function does not await the emission'
    R.ob('COMMIT-ONLY-VIA-REF', ctx.construct(ce), 'refcounter', okref, detail, ctx.where(ce, ce.node.lineno))
    # every batch handed out goes through the checkpointing function
    okloop, where = False, None
    for f in scope(cls):
        for l in own_nodes(f.node):
            if not isinstance(l, ast.For) or not isinstance(l.target, ast.Name):
                continue
            var = l.target.id
            for c in ast.walk(l):
                if isinstance(c, ast.Call) and _attr_call(c, 'add_callback') and len(c.args) == 2 and _refers_to(c.args[0], ce) \
                        and src(c.args[1]) == var:
                    okloop, where = True, (f, l)
                if isinstance(c, ast.Call) and _refers_to(c.func, ce) and [src(a) for a in c.args] == [var]:
                    okloop, where = True, (f, l)
    R.ob('COMMIT-ONLY-VIA-REF', ccon, 'every-batch-checkpointed', okloop,
         'the batches handed out by a poll are not each given to the checkpointing function',
         ctx.where(where[0], where[1].lineno) if where else '%s:%d' % (cls.file, cls.node.lineno))


def check_tuple_layout(ctx, R):
    M = ctx.model
    cls, _ = _fkb(ctx)
    K = kafka_names(cls)
    F, app = K['F'], K['app']
    con = ctx.construct(F)
    elts = [src(e) for e in app.args[0].elts]
    gmb = M.function('streamz.sources', 'get_message_batch')
    params = gmb.params()
    role = {'self.consumer_params': 'kafka_params', 'self.topic': 'topic', K['part']: 'partition', 'self.keys': 'keys',
            K['start']: 'low'}
    got = []
    for i, e in enumerate(elts):
        if e in role:
            got.append(role[e])
        elif i == 5 and K['end'] is not None:
            got.append('high')
        else:
            got.append('?' + e)
    ok = got == params[:len(got)] and len(got) == 6
    R.ob('TUPLE-LAYOUT', con, 'tuple-vs-get_message_batch', ok,
         'batch tuple roles %s do not match get_message_batch%s' % (got, tuple(params)), ctx.where(F, app.lineno))
    cudf = M.function('streamz.sources', 'get_message_batch_cudf', required=False)
    if cudf is not None:
        R.ob('TUPLE-LAYOUT', ctx.construct(cudf), 'same-signature', cudf.params()[:6] == params[:6],
             'get_message_batch_cudf%s differs from get_message_batch%s' % (tuple(cudf.params()), tuple(params)),
             ctx.where(cudf, cudf.node.lineno))
    fkb = M.function('streamz.sources', 'from_kafka_batched')
    sm = [n for n in own_nodes(fkb.node) if isinstance(n, ast.Call) and _attr_call(n, 'starmap')]
    oksm = bool(sm) and all(src(n.args[0]) in ('get_message_batch', 'get_message_batch_cudf') for n in sm if n.args)
    R.ob('TUPLE-LAYOUT', ctx.construct(fkb), 'starmap', oksm, 'the batch tuples are not unpacked into get_message_batch via starmap',
         ctx.where(fkb, sm[0].lineno if sm else fkb.node.lineno))
    sites = _commit_fn(cls)
    if not sites:
        raise AnalysisError('FromKafkaBatched: no consumer.commit call found')
    commit = sites[0][0]
    un = [n for n in own_nodes(commit.node) if isinstance(n, ast.Assign) and isinstance(n.targets[0], (ast.Tuple, ast.List))]
    okc, detail = False, 'no unpack of the batch tuple in the commit function'
    if un:
        t = un[0]
        p_ = next((x for x in commit.params() if x != 'self'), None)
        if src(t.value).replace(' ', '') == '%s[1:]' % p_ and len(t.targets[0].elts) == 5:
            names = [src(e) for e in t.targets[0].elts]
            tp = [n for n in own_nodes(commit.node) if isinstance(n, ast.Call) and src(n.func).endswith('TopicPartition')]
            if tp and len(tp[0].args) == 3:
                a = [src(x).replace(' ', '') for x in tp[0].args]
                okc = a[0] == names[0] and a[1] == names[1] and a[2] == names[4] + '+1'
                detail = 'commit builds TopicPartition(%s) from unpack %s; expected (topic, partition, last offset + 1)' % (', '.join(a), names)
        else:
            detail = 'commit unpacks %s into %d names' % (src(t.value), len(t.targets[0].elts))
    R.ob('TUPLE-LAYOUT', ctx.construct(commit), 'unpack', okc, detail, ctx.where(commit, commit.node.lineno))
    cm = sites[0][1]
    R.ob('TUPLE-LAYOUT', ctx.construct(commit), 'commit-offsets', any(k.arg == 'offsets' for k in cm.keywords),
         'commit() is not given offsets=[...]', ctx.where(commit, cm.lineno))


def check_offset_algebra(ctx, R):
    cls, _ = _fkb(ctx)
    K = kafka_names(cls)
    F, app, LOW, HIGH, PART, START, END = K['F'], K['app'], K['low'], K['high'], K['part'], K['start'], K['end']
    con = ctx.construct(F)
    defs = local_defs(F.node)
    if START is None or PART is None or END is None:
        raise AnalysisError('FromKafkaBatched: cannot identify the first-offset / end / partition variables of the batch tuple '
                            '(unrecognised spelling)')
    cursor = 'self.positions[%s]' % PART
    import re

    def N(node):
        d = {k: v for k, v in defs.items() if k not in (LOW, HIGH, PART, START, END) and len(v) == 1 and v[0] is not None
             and isinstance(v[0], ast.Subscript) and src(v[0]) == cursor}
        t = norm(node, d).replace(' ', '')
        for name, role_ in ((START, 'START'), (END, 'END'), (HIGH, 'HIGH'), (LOW, 'LOW')):
            t = re.sub(r'(?<![\w.])' + re.escape(name) + r'(?![\w])', role_, t)
        return t.replace(cursor.replace(' ', ''), 'CURSOR').replace('self.max_batch_size', 'MAX')

    starts = defs.get(START, [])
    okl = len(starts) == 1 and starts[0] is not None and N(starts[0]) in ('max(CURSOR,LOW)', 'max(LOW,CURSOR)')
    R.ob('OFFSET-ALGEBRA', con, 'lowest', okl,
         'the first offset of a batch is not max(cursor, low watermark): %s' % [src(v) for v in starts if v is not None],
         ctx.where(F, starts[0].lineno if starts and starts[0] is not None else F.node.lineno))
    guard = None
    for n in own_nodes(F.node):
        if isinstance(n, ast.If) and any(x is app for s_ in n.body for x in ast.walk(s_)):
            guard = n
    same = END == HIGH
    gform = N(guard.test) if guard is not None else None
    okg = gform in (('START<END',) if not same else ('START<HIGH', 'START<END'))
    R.ob('OFFSET-ALGEBRA', con, 'guard', okg,
         'a batch is emitted under %s; expected the strict end > start (no empty / negative ranges)' % (src(guard.test) if guard else None),
         ctx.where(F, guard.lineno if guard else app.lineno))
    adv = [s_ for s_ in (guard.body if guard else []) if isinstance(s_, ast.Assign) and src(s_.targets[0]) == cursor]
    oka = len(adv) == 1 and src(adv[0].value) == END
    R.ob('OFFSET-ALGEBRA', con, 'cursor-advance', oka,
         'the cursor is not advanced to the exclusive end in the block that hands the range out (ranges would overlap or leave gaps)',
         ctx.where(F, adv[0].lineno if adv else app.lineno))
    R.ob('OFFSET-ALGEBRA', con, 'range', N(app.args[0].elts[4]) == 'START' and N(app.args[0].elts[5]) in ('(END-1)', '(HIGH-1)'),
         'the range handed out is not [start, end - 1]', ctx.where(F, app.lineno))
    # the end is the watermark clamped to start + max_batch_size, and nothing else
    okh, detail, line = True, '', app.lineno
    CL = ('(START+MAX)', '(MAX+START)')
    if same:
        clamp = 0
        for n in own_nodes(F.node):
            if not isinstance(n, ast.Assign) or n is K['wm']:
                continue
            for t in n.targets:
                for e in ([t] if not isinstance(t, (ast.Tuple, ast.List)) else t.elts):
                    if isinstance(e, ast.Name) and e.id == HIGH:
                        v = N(n.value)
                        line = n.lineno
                        if isinstance(n.targets[0], (ast.Tuple, ast.List)):
                            okh, detail = False, 'the watermark variable is unpacked again from %s' % src(n.value)
                        elif v in CL:
                            g = next((x for x in own_nodes(F.node) if isinstance(x, ast.If) and any(y is n for y in x.body)), None)
                            gt = N(g.test) if g is not None else None
                            if gt not in tuple(c + '<HIGH' for c in CL) + tuple(c + '<END' for c in CL):
                                okh, detail = False, 'the clamp is applied under %s' % (src(g.test) if g else 'no guard')
                            clamp += 1
                        elif v in tuple('min(HIGH,%s)' % c for c in CL) + tuple('min(%s,HIGH)' % c for c in CL) + \
                                tuple('min(END,%s)' % c for c in CL) + tuple('min(%s,END)' % c for c in CL):
                            clamp += 1
                        else:
                            okh, detail = False, 'the end of the range is re-defined as %s' % src(n.value)
        if okh and clamp != 1:
            okh, detail = False, 'expected exactly one clamp of the end to start + max_batch_size, found %d' % clamp
    else:
        ends = defs.get(END, [])
        if len(ends) != 1 or ends[0] is None:
            okh, detail = False, 'the end of the range has %d definitions' % len(ends)
        else:
            v = N(ends[0])
            line = ends[0].lineno
            if v not in tuple('min(HIGH,%s)' % c for c in CL) + tuple('min(%s,HIGH)' % c for c in CL):
                okh, detail = False, 'the end of the range is %s; expected min(high watermark, start + max_batch_size)' % src(ends[0])
        redefs = [n for n in own_nodes(F.node) if isinstance(n, ast.Assign) and n is not K['wm'] and any(
            isinstance(t, ast.Name) and t.id == HIGH for t in n.targets)]
        if redefs:
            okh, detail = False, 'the high watermark is re-assigned'
    R.ob('OFFSET-ALGEBRA', con, 'high', okh, detail, ctx.where(F, line))
    if guard is not None and starts and starts[0] is not None:
        R.ob('OFFSET-ALGEBRA', con, 'order', K['wm'].lineno < starts[0].lineno <= guard.lineno,
             'watermarks / start / guard are not evaluated in that order', ctx.where(F, guard.lineno))


def check_seed(ctx, R):
    cls, _ = _fkb(ctx)
    ccon = cls.module.name + '.' + cls.name
    # the poll loop
    poll = None
    for f in scope(cls):
        for n in f.node.body:
            if isinstance(n, ast.While) and 'self.stopped' in src(n.test):
                poll = (f, n)
    if poll is None:
        raise AnalysisError('FromKafkaBatched: poll loop `while not self.stopped` not found at the top level of a method')
    PF, ploop = poll
    seed = None
    for f in scope(cls):
        for x in own_nodes(f.node):
            if isinstance(x, ast.Assign) and isinstance(x.targets[0], ast.Subscript) and self_field(x.targets[0]) == 'positions' \
                    and isinstance(x.value, ast.Attribute) and x.value.attr == 'offset' and isinstance(x.value.value, ast.Name) \
                    and src(x.targets[0].slice) == x.value.value.id + '.partition':
                seed = (f, x)
    ok, detail = seed is not None, 'positions are not seeded from consumer.committed() before the poll loop'
    if seed is not None:
        SF, asg = seed
        loop = next((l for l in own_nodes(SF.node) if isinstance(l, ast.For) and any(y is asg for y in ast.walk(l))), None)
        it = src(loop.iter) if loop is not None else None
        cdef = [x for x in own_nodes(SF.node) if isinstance(x, ast.Assign) and isinstance(x.value, ast.Call)
                and _attr_call(x.value, 'committed') and any(isinstance(t, ast.Name) and t.id == it for t in x.targets)]
        if not cdef and not (loop is not None and isinstance(loop.iter, ast.Call) and _attr_call(loop.iter, 'committed')):
            ok, detail = False, 'the seeding loop does not iterate the result of consumer.committed(...)'
        alldefs = [x for x in own_nodes(SF.node) if isinstance(x, (ast.Assign, ast.AugAssign, ast.For)) and any(
            isinstance(t, ast.Name) and t.id == it for t in (x.targets if isinstance(x, ast.Assign) else [x.target]))]
        other = [x for x in alldefs if x not in cdef]
        if ok and other:
            ok, detail = False, ('the seeding loop can iterate `%s` defined at line %d, which is not a result of consumer.committed(): '
                                 'positions would start from a value that is not the committed offset' % (it, other[0].lineno))
        outer = next((w for w in SF.node.body if isinstance(w, ast.While) and any(y is asg for y in ast.walk(w))), None)
        if ok and outer is not None:
            brs = [b for b in ast.walk(outer) if isinstance(b, ast.Break)]
            if not brs or any(b.lineno < asg.lineno for b in brs):
                ok, detail = False, 'the retry loop can be left before positions are seeded'
            if not (isinstance(outer.test, ast.Constant) and outer.test.value is True):
                ok, detail = False, 'the retry loop may be skipped'
        if ok:
            if SF is PF:
                anchor = outer if outer is not None else loop
                if anchor is None or anchor.lineno >= ploop.lineno:
                    ok, detail = False, 'the seeding does not precede the poll loop'
            else:
                # seeding lives in a helper: the poll function must call it, unconditionally, before the loop
                calls = [s_ for s_ in PF.node.body if s_.lineno < ploop.lineno and any(
                    isinstance(c, ast.Call) and _refers_to(c.func, SF) for c in ast.walk(s_))
                    and isinstance(s_, (ast.Expr, ast.Assign))]
                if not calls:
                    ok, detail = False, 'the helper that seeds the positions is not called before the poll loop'
    R.ob('SEED-FROM-COMMITTED', ccon, 'positions', ok, detail,
         ctx.where(seed[0], seed[1].lineno) if seed else ctx.where(PF, ploop.lineno))
    resets = []
    if seed is not None:
        for f in scope(cls):
            for n in own_nodes(f.node):
                if isinstance(n, ast.Assign) and src(n.targets[0]) == 'self.positions':
                    after = (f is seed[0] and n.lineno > seed[1].lineno) or (f is PF and any(x is n for x in ast.walk(ploop)))
                    if after:
                        resets.append((f, n))
    R.ob('SEED-FROM-COMMITTED', ccon, 'no-reset', not resets, 'self.positions is re-initialised after being seeded',
         ctx.where(resets[0][0], resets[0][1].lineno) if resets else None)


def check_read_range(ctx, R):
    M = ctx.model
    fn = M.function('streamz.sources', 'get_message_batch')
    con = ctx.construct(fn)
    defs = local_defs(fn.node)
    tp = [n for n in own_nodes(fn.node) if isinstance(n, ast.Call) and src(n.func).endswith('TopicPartition')]
    ok = bool(tp) and [src(a) for a in tp[0].args] == ['topic', 'partition', 'low']
    assigned = any(isinstance(n, ast.Call) and _attr_call(n, 'assign') for n in own_nodes(fn.node))
    R.ob('READ-RANGE', con, 'assign-at-low', ok and assigned, 'the consumer is not assigned at (topic, partition, low)',
         ctx.where(fn, tp[0].lineno if tp else fn.node.lineno))
    rets = [n for n in own_nodes(fn.node) if isinstance(n, ast.Return)]
    out = src(rets[0].value) if rets and isinstance(rets[0].value, ast.Name) else None
    keep = stop = False
    for n in own_nodes(fn.node):
        if isinstance(n, ast.If):
            t = norm(n.test, defs).replace(' ', '')
            appends = any(isinstance(x, ast.Call) and _attr_call(x, 'append') and src(x.func.value) == out for x in ast.walk(n))
            if t in ('msg.offset()<=high',) and appends:
                keep = True
            if t in ('high<=msg.offset()',) and any(isinstance(x, ast.Break) for x in n.body):
                stop = True
    R.ob('READ-RANGE', con, 'keep-upto-high', keep, 'messages are not kept exactly when offset <= high', ctx.where(fn, fn.node.lineno))
    R.ob('READ-RANGE', con, 'stop-at-high', stop, 'the read loop does not stop once offset >= high', ctx.where(fn, fn.node.lineno))
    fin = [n for n in own_nodes(fn.node) if isinstance(n, ast.Try) and any(
        isinstance(x, ast.Call) and src(x.func) == 'consumer.close' for s_ in n.finalbody for x in ast.walk(s_))]
    R.ob('READ-RANGE', con, 'close-in-finally', bool(fin), 'the per-batch consumer is not closed in a finally clause',
         ctx.where(fn, fn.node.lineno))
    inits = [n for n in own_nodes(fn.node) if isinstance(n, ast.Assign) and isinstance(n.targets[0], ast.Name)
             and n.targets[0].id == out and isinstance(n.value, ast.List) and not n.value.elts]
    R.ob('READ-RANGE', con, 'returns-out', bool(rets) and out is not None and all(src(r.value) == out for r in rets) and len(inits) == 1,
         'the collected messages are not what is returned', ctx.where(fn, fn.node.lineno))
