"""helpers shared by property drivers"""
HOLD_SCOPE = ('streamz.core', 'streamz.dask', 'streamz.sinks', 'streamz.sources', 'streamz.river')


def hold_classes(ctx):
    return [c for c in ctx.model.nodes if c.module.name in HOLD_SCOPE]


def declare(R, rules_table, ids, floors=None):
    floors = floors or {}
    for r in ids:
        R.rule(r, rules_table[r], floors.get(r))
