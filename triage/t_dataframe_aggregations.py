import warnings; warnings.filterwarnings('ignore')
import pandas as pd, numpy as np
from streamz import Stream
from streamz.dataframe import DataFrame, Series

def run(batches, build):
    ex = batches[0].iloc[:0]
    src = Stream()
    sdf = DataFrame(src, example=ex)
    out = build(sdf).stream.sink_to_list()
    for b in batches:
        src.emit(b)
    return out

df = pd.DataFrame({'x': [1., 2., 3., 4., 5., 6.], 'y': [1, 2, 1, 2, 1, 3]})
emp = df.iloc[:0]
# C06 mean after empty first batch (Series)
print("mean series [empty, 3 rows]:", run([emp, df.iloc[:3]], lambda s: s.x.mean()), "expect", df.iloc[:3].x.mean())
print("mean df [empty, 3 rows]:", [o.to_dict() for o in run([emp, df.iloc[:3]], lambda s: s.mean())])
print("sum series [empty, 3]:", run([emp, df.iloc[:3]], lambda s: s.x.sum()))
print("count series:", run([emp, df.iloc[:3]], lambda s: s.x.count()))
try:
    print("groupby sum [empty,3]:", [o.to_dict() for o in run([emp, df.iloc[:3]], lambda s: s.groupby('y').x.sum())])
except Exception as e: print("groupby sum EXC", type(e), e)
try:
    print("groupby mean [3, empty, 3]:", [o.to_dict() for o in run([df.iloc[:3], emp, df.iloc[3:]], lambda s: s.groupby('y').x.mean())])
    print(" expect", df.groupby('y').x.mean().to_dict())
except Exception as e: print("groupby mean EXC", type(e), e)
try:
    print("groupby var:", [o.to_dict() for o in run([df.iloc[:3], df.iloc[3:]], lambda s: s.groupby('y').x.var())], df.groupby('y').x.var().to_dict())
except Exception as e: print("groupby var EXC", type(e), e)
# window n
for name, f, g in [('sum', lambda w: w.x.sum(), lambda d: d.x.sum()), ('mean', lambda w: w.x.mean(), lambda d: d.x.mean()), ('var', lambda w: w.x.var(), lambda d: d.x.var()), ('count', lambda w: w.x.count(), lambda d: d.x.count()), ('size', lambda w: w.x.size, lambda d: d.x.size)]:
    for N in (1, 2, 4):
        for split in ([1,1,1,1,1,1], [3,3], [6], [2,0,4], [0,6], [5,1]):
            bs = []; i = 0
            for k in split:
                bs.append(df.iloc[i:i+k]); i += k
            try:
                out = run(bs, lambda s: f(s.window(n=N)))
            except Exception as e:
                print("window", name, N, split, "EXC", type(e).__name__, e); continue
            exp = []; i = 0
            for k in split:
                i += k; exp.append(g(df.iloc[max(0, i-N):i]))
            ok = all((np.isnan(a) and np.isnan(b)) or abs(a-b) < 1e-9 for a, b in zip(out, exp)) and len(out) == len(exp)
            if not ok: print("window", name, N, split, "GOT", out, "EXP", exp)
