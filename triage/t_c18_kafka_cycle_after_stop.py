"""C18 witness: from_kafka.poll_kafka read the stop flag only at the END of a polling cycle
(`while True: ...poll, emit...; if self.stopped: break`).  A stop() issued before the scheduled poll loop has
begun its first cycle still lets that cycle run: a message is polled and emitted after stop().
(confluent_kafka is not installed: a minimal in-memory stand-in is used; the streamz code is the real one.)"""
import asyncio, logging, sys, types
logging.disable(logging.CRITICAL)
ck = types.ModuleType('confluent_kafka')


class Msg:
    def value(self): return b'payload'
    def error(self): return None


class Consumer:
    def __init__(self, params): pass
    def subscribe(self, topics): pass
    def unsubscribe(self): pass
    def close(self): pass
    def get_watermark_offsets(self, tp, timeout=None): return (0, 1)
    def poll(self, timeout=None): return Msg() if timeout == 0 else None


class TopicPartition:
    def __init__(self, *a): pass


ck.Consumer, ck.TopicPartition, ck.KafkaException = Consumer, TopicPartition, Exception
sys.modules['confluent_kafka'] = ck
from streamz import Stream      # noqa: E402


async def main():
    s = Stream.from_kafka(['t'], {'group.id': 'g'}, poll_interval=0.01, asynchronous=True)
    got = s.sink_to_list()
    s.start()
    s.stop()                    # before the poll loop got to run
    await asyncio.sleep(0.1)
    print('emitted after stop():', got)
    assert got == [], 'a polling cycle began (and emitted) after stop()'
    print('OK')

asyncio.run(main())
