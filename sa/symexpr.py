"""E5 - normal forms for sibling checks: a tiny symbolic path evaluator for loop-free step functions.

It does not execute anything: along each syntactic path (If arms; Try = body + else) it substitutes the
defining expressions of locals and of `self.<field>` stores into later uses, so that two implementations
can be compared on the *expressions* they emit / store / return, independent of temporaries.
"""
import ast
import copy

from .model import AnalysisError, src


class _Subst(ast.NodeTransformer):
    def __init__(self, env):
        self.env = env

    def visit_Name(self, n):
        if isinstance(n.ctx, ast.Load) and n.id in self.env:
            return copy.deepcopy(self.env[n.id])
        return n

    def visit_Attribute(self, n):
        if isinstance(n.ctx, ast.Load) and isinstance(n.value, ast.Name) and n.value.id == 'self' \
                and ('self.' + n.attr) in self.env:
            return copy.deepcopy(self.env['self.' + n.attr])
        self.generic_visit(n)
        # (a helper's parameter that stands for the node: `node.last` has just become `self.last`)
        if isinstance(n.ctx, ast.Load) and isinstance(n.value, ast.Name) and n.value.id == 'self' \
                and ('self.' + n.attr) in self.env:
            return copy.deepcopy(self.env['self.' + n.attr])
        return n

    def visit_Lambda(self, n):
        return n


class SymPath:
    def __init__(self):
        self.env = {}
        self.conds = []
        self.stores = {}        # field -> expr node (last store)
        self.emits = []         # (data expr, metadata expr or None)
        self.ret = None
        self.raised = False
        self.calls = []         # every Call node evaluated as an expression statement (substituted)

    def copy(self):
        p = SymPath()
        p.env = dict(self.env)
        p.conds = list(self.conds)
        p.stores = dict(self.stores)
        p.emits = list(self.emits)
        p.ret, p.raised = self.ret, self.raised
        p.calls = list(self.calls)
        return p

    def ev(self, node):
        if node is None:
            return None
        return _Subst(self.env).visit(copy.deepcopy(node))


def _index(expr, i):
    return ast.Subscript(value=expr, slice=ast.Constant(value=i), ctx=ast.Load())


def sym_paths(fn_node, rewrite=None, maxpaths=256, loops='error'):
    """enumerate symbolic paths of a loop-free function. rewrite: optional NodeTransformer applied to every
    evaluated expression (e.g. client.submit(f, a) -> f(a))."""
    rw = (lambda e: ast.fix_missing_locations(rewrite.visit(e)) if e is not None else None) if rewrite else (lambda e: e)

    def assign(p, target, value):
        if isinstance(target, ast.Name):
            p.env[target.id] = value
        elif isinstance(target, (ast.Tuple, ast.List)):
            if isinstance(value, (ast.Tuple, ast.List)) and len(value.elts) == len(target.elts):
                for t, v in zip(target.elts, value.elts):
                    assign(p, t, v)
            else:
                for i, t in enumerate(target.elts):
                    assign(p, t, _index(value, i))
        elif isinstance(target, ast.Attribute) and isinstance(target.value, ast.Name) and target.value.id == 'self':
            p.env['self.' + target.attr] = value
            p.stores[target.attr] = value
        elif isinstance(target, ast.Subscript) or isinstance(target, ast.Attribute):
            # in-place store into an object: record as a call-like effect
            p.calls.append(ast.Assign(targets=[p.ev(target)], value=value, lineno=0))

    def block(stmts, p):
        if not stmts:
            yield p
            return
        s, rest = stmts[0], stmts[1:]
        for q in stmt(s, p):
            if q.ret is not None or q.raised:
                yield q
            else:
                yield from block(rest, q)

    def record_calls(p, orig):
        """emissions syntactically present in the ORIGINAL statement (so that a temporary holding an
        emission's result is not counted again where it is used), with their arguments substituted"""
        for c in ast.walk(orig):
            if isinstance(c, ast.Call) and isinstance(c.func, ast.Attribute) and c.func.attr in ('_emit', 'emit') \
                    and isinstance(c.func.value, ast.Name) and c.func.value.id == 'self':
                data = rw(p.ev(c.args[0])) if c.args else None
                mdn = next((k.value for k in c.keywords if k.arg == 'metadata'), c.args[1] if len(c.args) > 1 else None)
                p.emits.append((data, rw(p.ev(mdn)) if mdn is not None else None))

    def stmt(s, p):
        if isinstance(s, ast.Expr):
            if isinstance(s.value, ast.Constant):
                yield p
                return
            q = p.copy()
            record_calls(q, s.value)
            v = rw(q.ev(s.value))
            q.calls.append(v)
            yield q
        elif isinstance(s, ast.Assign):
            q = p.copy()
            record_calls(q, s.value)
            v = rw(q.ev(s.value))
            for t in s.targets:
                assign(q, t, v)
            yield q
        elif isinstance(s, ast.AugAssign):
            q = p.copy()
            cur = q.ev(ast.Name(id=s.target.id, ctx=ast.Load())) if isinstance(s.target, ast.Name) else q.ev(s.target)
            v = ast.BinOp(left=cur, op=s.op, right=rw(q.ev(s.value)))
            assign(q, s.target, v)
            yield q
        elif isinstance(s, ast.Return):
            q = p.copy()
            if s.value is not None:
                record_calls(q, s.value)
            v = rw(q.ev(s.value)) if s.value is not None else ast.Constant(value=None)
            q.ret = v
            yield q
        elif isinstance(s, ast.Raise):
            q = p.copy()
            q.raised = True
            yield q
        elif isinstance(s, ast.If):
            t = rw(p.ev(s.test))
            for outcome, arm in ((True, s.body), (False, s.orelse)):
                q = p.copy()
                q.conds.append((src(t), outcome))
                yield from block(arm, q)
        elif isinstance(s, ast.Try):
            for q in block(s.body, p):
                if q.ret is not None or q.raised:
                    yield q
                else:
                    for r in block(s.orelse, q):
                        if r.ret is not None or r.raised:
                            yield r
                        else:
                            yield from block(s.finalbody, r)
        elif isinstance(s, (ast.For, ast.While, ast.AsyncFor)):
            if loops == 'error':
                raise AnalysisError('symbolic evaluation: loop at line %d is outside the supported fragment' % s.lineno)
            # loops == 'opaque': names assigned in the loop become opaque
            q = p.copy()
            for n in ast.walk(s):
                if isinstance(n, ast.Name) and isinstance(n.ctx, ast.Store):
                    q.env[n.id] = ast.Name(id='<loop:%s@%d>' % (n.id, s.lineno), ctx=ast.Load())
            yield q
        elif isinstance(s, (ast.Pass, ast.Import, ast.ImportFrom, ast.Assert, ast.FunctionDef, ast.Global, ast.Nonlocal)):
            yield p
        else:
            raise AnalysisError('symbolic evaluation: unsupported statement %s at line %d' % (type(s).__name__, s.lineno))

    out = []
    for q in block(fn_node.body, SymPath()):
        out.append(q)
        if len(out) > maxpaths:
            raise AnalysisError('symbolic evaluation: too many paths')
    return out


def text(node):
    return src(node) if node is not None else 'None'


# =====================================================================================================
# v2: symbolic evaluation with loops (body evaluated once, loop variable = ELEM(iterable)), list surgery
# (pop / star-unpack / [-1] / [:-1] as LAST / INIT / FIRST / REST), await/yield transparency with a suspension
# counter, and splicing of helper methods / private module functions.  Used by the "idiom + lemma" rules so that
# temporaries, helper extraction, early returns and equivalent spellings do not change the normal form.
# =====================================================================================================
def _sym(name, *args):
    return ast.Call(func=ast.Name(id=name, ctx=ast.Load()), args=list(args), keywords=[])


class Rec:
    """what one symbolic path did"""
    def __init__(self):
        self.env = {}
        self.conds = []
        self.stores = []       # (field, value expr, n_suspensions_before, loop_ctx)
        self.emits = []        # (data expr, metadata expr|None, n_suspensions_before, loop_ctx, awaited_later flag holder)
        self.calls = []        # (call expr (substituted), n_suspensions_before, loop_ctx)
        self.susp = 0
        self.ret = None
        self.done = False
        self.raised = False
        self.awaited = set()   # indices of emissions whose result was awaited / yielded
        self.jump = None       # 'break' / 'continue' until the enclosing loop consumes it
        self.order = []        # ('store'|'emit'|'call'|'cond', index) in program order
        self.mutated = []      # (text of a mutated base value, number of calls recorded at that moment)
        self.awaited_calls = set()   # indices into calls of opaque calls whose value was awaited / yielded (name_calls mode)
        self.stale = set()     # texts of tests that may not be re-used (a value they mention was mutated since)

    def copy(self):
        r = Rec()
        r.awaited = set(self.awaited)
        r.jump = self.jump
        r.stale = set(self.stale)
        r.awaited_calls = set(self.awaited_calls)
        r.order = list(self.order)
        r.mutated = list(self.mutated)
        r.env = dict(self.env)
        r.conds = list(self.conds)
        r.stores = list(self.stores)
        r.emits = list(self.emits)
        r.calls = list(self.calls)
        r.susp, r.ret, r.done, r.raised = self.susp, self.ret, self.done, self.raised
        return r

    def ev(self, node):
        if node is None:
            return None
        return _Subst(self.env).visit(copy.deepcopy(node))


class SymEval:
    def __init__(self, model, cls=None, depth=3, maxpaths=2000, no_splice=(), name_calls=False, private_only=False):
        self.model, self.cls, self.depth, self.maxpaths = model, cls, depth, maxpaths
        self.private_only = private_only  # splice only private (underscore) methods: public ones are API boundaries
        self.name_calls = name_calls      # let-normal form: the value of an opaque call is the symbol C<index into Rec.calls>
        self.no_splice = set(no_splice)

    # -------------------------------------------------------------- expression rewriting
    def simplify(self, e):
        """list surgery on already substituted expressions"""
        class T(ast.NodeTransformer):
            def visit_Subscript(self_, n):
                self_.generic_visit(n)
                sl = n.slice
                if isinstance(n.value, ast.Dict) and isinstance(sl, ast.Constant) and all(isinstance(k, ast.Constant) for k in n.value.keys):
                    for k, v in zip(n.value.keys, n.value.values):
                        if k.value == sl.value:
                            return v
                if isinstance(n.value, (ast.Tuple, ast.List)) and isinstance(sl, ast.Constant) and isinstance(sl.value, int) \
                        and not any(isinstance(x, ast.Starred) for x in n.value.elts) and -len(n.value.elts) <= sl.value < len(n.value.elts):
                    return n.value.elts[sl.value]
                if isinstance(sl, ast.UnaryOp) and isinstance(sl.op, ast.USub) and isinstance(sl.operand, ast.Constant) and sl.operand.value == 1:
                    return _sym('LAST', n.value)
                if isinstance(sl, ast.Constant) and sl.value == -1:
                    return _sym('LAST', n.value)
                if isinstance(sl, ast.Constant) and sl.value == 0:
                    return _sym('FIRST', n.value)
                if isinstance(sl, ast.Slice) and sl.lower is None and sl.step is None and sl.upper is not None and src(sl.upper) == '-1':
                    return _sym('INIT', n.value)
                if isinstance(sl, ast.Slice) and sl.upper is None and sl.step is None and sl.lower is not None and src(sl.lower) == '1':
                    return _sym('REST', n.value)
                return n

            def visit_Compare(self_, n):
                self_.generic_visit(n)
                # X is None / X is not None where X is visibly None or visibly a value (arithmetic, a literal container)
                if len(n.ops) == 1 and isinstance(n.ops[0], (ast.Is, ast.IsNot)) and isinstance(n.comparators[0], ast.Constant) \
                        and n.comparators[0].value is None:
                    x = n.left
                    isnone = None
                    if isinstance(x, ast.Constant):
                        isnone = x.value is None
                    elif isinstance(x, (ast.BinOp, ast.Tuple, ast.List, ast.Dict, ast.Set, ast.ListComp, ast.DictComp, ast.SetComp,
                                        ast.JoinedStr, ast.Lambda, ast.Compare)):
                        isnone = False
                    if isnone is not None:
                        return ast.Constant(value=isnone if isinstance(n.ops[0], ast.Is) else not isnone)
                if len(n.ops) == 1 and isinstance(n.ops[0], (ast.In, ast.NotIn)) and isinstance(n.left, ast.Constant) \
                        and isinstance(n.comparators[0], ast.Dict) and all(isinstance(k, ast.Constant) for k in n.comparators[0].keys):
                    present = any(k.value == n.left.value for k in n.comparators[0].keys)
                    return ast.Constant(value=present if isinstance(n.ops[0], ast.In) else not present)
                return n

            def visit_UnaryOp(self_, n):
                self_.generic_visit(n)
                if isinstance(n.op, ast.Not) and isinstance(n.operand, ast.Constant):
                    return ast.Constant(value=not n.operand.value)
                return n

            def visit_BoolOp(self_, n):
                self_.generic_visit(n)
                # constants decided by earlier folding: drop the neutral ones, short-circuit on the absorbing one when it
                # comes first (operands before it would still be evaluated)
                neutral = isinstance(n.op, ast.And)
                vals = []
                for v in n.values:
                    if isinstance(v, ast.Constant) and isinstance(v.value, bool):
                        if v.value is neutral:
                            continue
                        if not vals:
                            return ast.Constant(value=v.value)
                    vals.append(v)
                if not vals:
                    return ast.Constant(value=neutral)
                if len(vals) == 1:
                    return vals[0]
                if len(vals) != len(n.values):
                    return ast.BoolOp(op=n.op, values=vals)
                return n

            def visit_SetComp(self_, n):
                self_.generic_visit(n)
                if len(n.generators) == 1:
                    g = n.generators[0]
                    if isinstance(n.elt, ast.Name) and isinstance(g.target, ast.Name) and n.elt.id == g.target.id and len(g.ifs) == 1:
                        t = g.ifs[0]
                        if isinstance(t, ast.Compare) and len(t.ops) == 1 and isinstance(t.ops[0], ast.NotIn) \
                                and isinstance(t.left, ast.Name) and t.left.id == g.target.id:
                            return ast.BinOp(left=_sym('set', g.iter), op=ast.Sub(), right=t.comparators[0])
                return n

            def visit_Call(self_, n):
                self_.generic_visit(n)
                if isinstance(n.func, ast.Attribute) and n.func.attr == 'difference' and len(n.args) == 1:
                    return ast.BinOp(left=n.func.value, op=ast.Sub(), right=n.args[0])
                # f(**{'a': 1, 'b': 2})  ==  f(**dict(a=1, b=2))  ==  f(a=1, b=2)
                kws, kchanged = [], False
                for k in n.keywords:
                    v = k.value
                    if k.arg is None and isinstance(v, ast.Dict) and v.keys and all(
                            x is None or (isinstance(x, ast.Constant) and isinstance(x.value, str)) for x in v.keys):
                        # (f(**{**m, 'a': 1})  ==  f(**m, a=1))
                        kws.extend(ast.keyword(arg=(x.value if x is not None else None), value=y) for x, y in zip(v.keys, v.values))
                        kchanged = True
                    elif k.arg is None and isinstance(v, ast.Call) and isinstance(v.func, ast.Name) and v.func.id == 'dict' and not v.args \
                            and all(kk.arg for kk in v.keywords):
                        kws.extend(v.keywords)
                        kchanged = True
                    elif k.arg is None and isinstance(v, ast.Call) and isinstance(v.func, ast.Name) and v.func.id == 'dict' \
                            and len(v.args) == 1 and not isinstance(v.args[0], ast.Starred) and all(kk.arg for kk in v.keywords):
                        # f(**dict(base, a=1))  ==  f(**base, a=1)   (a key of base that is given again is overridden: the
                        # explicit keywords are kept last; a duplicate cannot be expressed in a call and is left alone)
                        kws.append(ast.keyword(arg=None, value=v.args[0]))
                        kws.extend(v.keywords)
                        kchanged = True
                    else:
                        kws.append(k)
                if kchanged:
                    n = ast.Call(func=n.func, args=n.args, keywords=kws)
                # f(*((a, b) + rest))  ==  f(a, b, *rest);   f(*(a, b))  ==  f(a, b);   f(**{})  ==  f()
                args = []
                changed = False
                for a in n.args:
                    if isinstance(a, ast.Starred):
                        v = a.value
                        parts = []
                        while isinstance(v, ast.BinOp) and isinstance(v.op, ast.Add) and isinstance(v.left, (ast.Tuple, ast.List)):
                            parts.extend(v.left.elts)
                            v = v.right
                        if isinstance(v, (ast.Tuple, ast.List)):
                            args.extend(parts + list(v.elts))
                            changed = True
                            continue
                        if parts:
                            args.extend(parts)
                            args.append(ast.Starred(value=v, ctx=ast.Load()))
                            changed = True
                            continue
                    args.append(a)
                if changed:
                    return ast.Call(func=n.func, args=args, keywords=n.keywords)
                return n
        return ast.fix_missing_locations(T().visit(e)) if e is not None else None

    def val(self, r, node):
        return self.simplify(r.ev(node))

    # -------------------------------------------------------------- statements
    def run(self, fn, bind=None):
        r = Rec()
        if bind:
            r.env.update(bind)
        out = []
        for q in self.block(fn.node.body, r, fn, (), 0):
            out.append(q)
            if len(out) > self.maxpaths:
                raise AnalysisError('symbolic evaluation: too many paths in %s' % fn.qual)
        return out

    def block(self, stmts, r, fn, loop, depth):
        if not stmts:
            yield r
            return
        for q in self.stmt(stmts[0], r, fn, loop, depth):
            if q.done or q.raised or q.jump:
                yield q
            else:
                yield from self.block(stmts[1:], q, fn, loop, depth)

    def assign(self, r, target, value, loop):
        if isinstance(target, ast.Name):
            r.env[target.id] = value
        elif isinstance(target, (ast.Tuple, ast.List)):
            stars = [i for i, t in enumerate(target.elts) if isinstance(t, ast.Starred)]
            if isinstance(value, (ast.Tuple, ast.List)) and len(value.elts) == len(target.elts) and not stars:
                for t, v in zip(target.elts, value.elts):
                    self.assign(r, t, v, loop)
            elif len(stars) == 1 and len(target.elts) == 2:
                if stars[0] == 0:       # *init, last = X
                    self.assign(r, target.elts[0].value, _sym('INIT', value), loop)
                    self.assign(r, target.elts[1], _sym('LAST', value), loop)
                else:                   # first, *rest = X
                    self.assign(r, target.elts[0], _sym('FIRST', value), loop)
                    self.assign(r, target.elts[1].value, _sym('REST', value), loop)
            else:
                for i, t in enumerate(target.elts):
                    self.assign(r, t.value if isinstance(t, ast.Starred) else t,
                                _sym('FIRST', value) if i == 0 else _index(value, i), loop)
        elif isinstance(target, ast.Attribute) and isinstance(target.value, ast.Name) and (
                target.value.id == 'self' or (isinstance(r.env.get(target.value.id), ast.Name) and r.env[target.value.id].id == 'self')):
            r.env['self.' + target.attr] = value
            r.stores.append((target.attr, value, r.susp, loop))
            r.order.append(('store', len(r.stores) - 1))
        elif isinstance(target, ast.Subscript) and isinstance(target.value, ast.Name) and isinstance(target.slice, ast.Constant) \
                and isinstance(r.env.get(target.value.id), ast.Dict) \
                and all(isinstance(k, ast.Constant) for k in r.env[target.value.id].keys):
            d = r.env[target.value.id]
            keys, vals = list(d.keys), list(d.values)
            for i, k in enumerate(keys):
                if k.value == target.slice.value:
                    vals[i] = value
                    break
            else:
                keys.append(ast.Constant(value=target.slice.value))
                vals.append(value)
            _mark_stale(r, d)
            r.env[target.value.id] = ast.Dict(keys=keys, values=vals)
        else:
            tv = r.ev(target)
            r.calls.append((ast.Assign(targets=[tv], value=value, lineno=0), r.susp, loop))
            r.order.append(('call', len(r.calls) - 1))
            base = tv
            while isinstance(base, (ast.Subscript, ast.Attribute)):
                base = base.value
            _mark_stale(r, base)
            # a local bound to a container literal that receives an item under a key this evaluation cannot name is no longer
            # that literal: from here on it is an opaque value derived from it
            if isinstance(target, ast.Subscript) and isinstance(target.value, ast.Name) and isinstance(
                    r.env.get(target.value.id), (ast.Dict, ast.List, ast.Set)):
                r.env[target.value.id] = _sym('MUTATED', r.env[target.value.id])

    def _splice(self, r, bind, callee, fn, loop, depth):
        """run the body of a helper on the path r with its parameters bound to (already evaluated) argument values"""
        bind = dict(bind)
        a_ = callee.node.args
        pos = a_.posonlyargs + a_.args
        for prm, d in zip(pos[len(pos) - len(a_.defaults):], a_.defaults):
            bind.setdefault(prm.arg, d)
        base = r.copy()
        saved_env = dict(base.env)
        base.env = {k: v for k, v in base.env.items() if k.startswith('self.')}
        base.env.update(bind)
        base.ret, base.done = None, False
        for q in self.block(callee.node.body, base, callee, loop, depth + 1):
            if q.raised:
                q2 = q.copy()
                yield q2, None
                continue
            q2 = q.copy()
            rv = q2.ret
            fields = {k: v for k, v in q2.env.items() if k.startswith('self.')}
            q2.env = dict(saved_env)
            q2.env.update(fields)
            q2.ret, q2.done = None, False
            yield q2, (rv if rv is not None else ast.Constant(value=None))

    def _helper(self, fn, call):
        """resolve a call to a spliceable helper: method of the class (incl. static) or private module-level function"""
        f = call.func
        if isinstance(f, ast.Attribute) and isinstance(f.value, ast.Name) and f.value.id == 'self' and self.cls is not None:
            callee = self.cls.find(f.attr)
            stream_api = callee is not None and f.attr in ('_emit', 'emit', '_retain_refs', '_release_refs') and \
                getattr(callee.cls, 'name', None) == 'Stream'
            if callee is not None and not stream_api and f.attr not in self.no_splice and not (
                    self.private_only and not f.attr.startswith('_')):
                static = any(src(d) == 'staticmethod' for d in callee.node.decorator_list)
                if not any(src(d) in ('property', 'classmethod') for d in callee.node.decorator_list):
                    return callee, (0 if static else 1)
        # an explicit call of a private helper base class:  _QueueBacked.__init__(self, upstream, Queue(maxsize=n), **kwargs)
        if isinstance(f, ast.Attribute) and isinstance(f.value, ast.Name) and f.value.id.startswith('_') and self.cls is not None \
                and call.args and isinstance(call.args[0], ast.Name) and call.args[0].id == 'self' and f.attr not in self.no_splice:
            from .model import Class
            base = self.model.resolve_name(fn.module, f.value)
            if isinstance(base, Class) and base in getattr(self.model, 'private_bases', ()) and base in (self.cls.mro or ()):
                callee = base.methods.get(f.attr)
                if callee is not None and not any(src(d) in ('property', 'classmethod', 'staticmethod') for d in callee.node.decorator_list):
                    return callee, 0
        if isinstance(f, ast.Name) and f.id.startswith('_') and not f.id.startswith('__'):
            from .model import Func
            t = self.model.resolve_name(fn.module, f)
            if isinstance(t, Func) and t.owner is None and t.parent is None:
                return t, 0
        # ... or the same through a module alias of the package:  core._split_function_kwargs(kwargs)
        if isinstance(f, ast.Attribute) and f.attr.startswith('_') and not f.attr.startswith('__') and isinstance(f.value, ast.Name) \
                and f.value.id != 'self':
            from .model import Func
            t = self.model.resolve_name(fn.module, f)
            if isinstance(t, Func) and t.owner is None and t.parent is None and t.module.name.startswith('streamz'):
                return t, 0
        return None

    def eval_value(self, r, node, fn, loop, depth, awaited=False):
        """evaluate an expression that may await/yield, pop from a local list, or call a helper.
        yields (Rec, value expr)"""
        if node is None:
            yield r, None
            return
        if isinstance(node, (ast.Await, ast.Yield, ast.YieldFrom)):
            for q, v in self.eval_value(r, node.value, fn, loop, depth, awaited=True):
                q = q.copy()
                q.susp += 1
                if v is not None:
                    for x in ast.walk(v):
                        if isinstance(x, ast.Call) and isinstance(x.func, ast.Name) and x.func.id == 'EMITRESULT':
                            q.awaited.add(x.args[0].value)
                    # (let-normal form) awaiting a named call awaits what it wraps: gather(*EMITRESULT), convert_yielded(...)
                    todo = [x.id for x in ast.walk(v) if isinstance(x, ast.Name) and x.id[:1] == 'C' and x.id[1:].isdigit()]
                    seen_c = set()
                    while todo:
                        cid = todo.pop()
                        k_ = int(cid[1:])
                        if k_ in seen_c or k_ >= len(q.calls):
                            continue
                        seen_c.add(k_)
                        if isinstance(v, ast.Name) and v.id == cid:
                            q.awaited_calls.add(k_)
                        for x in ast.walk(q.calls[k_][0]):
                            if isinstance(x, ast.Call) and isinstance(x.func, ast.Name) and x.func.id == 'EMITRESULT':
                                q.awaited.add(x.args[0].value)
                            if isinstance(x, ast.Name) and x.id[:1] == 'C' and x.id[1:].isdigit():
                                todo.append(x.id)
                yield q, v
            return
        if isinstance(node, ast.IfExp):
            # conditional expression: two paths, like an if statement
            for q0, t in self.eval_value(r, node.test, fn, loop, depth):
                if isinstance(t, ast.Constant):
                    yield from self.eval_value(q0, node.body if t.value else node.orelse, fn, loop, depth)
                    continue
                key = src(t)
                known = None
                if _pure_test(t) and key not in q0.stale:
                    known = _known_outcome(q0, key)
                for outcome, arm in ((True, node.body), (False, node.orelse)):
                    if known is not None and outcome != known:
                        continue
                    q = q0.copy()
                    q.conds.append((key, outcome))
                    q.order.append(('cond', len(q.conds) - 1))
                    yield from self.eval_value(q, arm, fn, loop, depth)
            return
        if isinstance(node, ast.Call):
            h = self._helper(fn, node) if depth < self.depth else None
            if h is not None and h[0].is_coro and not awaited:
                h = None        # a coroutine function called but not awaited: its body does not run here
            if h is not None and (h[0].node.args.vararg or h[0].node.args.kwarg):
                # f(func, /, *args, **kwargs): the surplus positional arguments become the tuple, the surplus keywords the dict;
                # an unpacked argument in front of the named parameters cannot be mapped - the call is left opaque
                n_named_ = min(len(h[0].params()[h[1]:]), len(node.args))
                if any(isinstance(a, ast.Starred) for a in node.args[:n_named_]) or \
                        (len(node.args) > n_named_ and not h[0].node.args.vararg):
                    h = None
            if h is not None:
                callee, off = h
                params = callee.params()[off:]
                # call by value: an argument that contains a call / await is evaluated once, before the body runs
                # (in let-normal form its result is a symbol), left to right
                slots = [(p_, a) for p_, a in zip(params, node.args) if not isinstance(a, ast.Starred)] + \
                    [(k.arg, k.value) for k in node.keywords if k.arg]
                argstates = [(r, {})]
                for p_, a in slots:
                    nxt = []
                    for q, bnd in argstates:
                        if any(isinstance(x, (ast.Await, ast.Yield, ast.YieldFrom, ast.Call)) for x in ast.walk(a)) \
                                and not isinstance(a, ast.Lambda):
                            for q2, v in self.eval_value(q, a, fn, loop, depth):
                                if q2.raised:
                                    yield q2, None
                                    continue
                                nxt.append((q2, dict(bnd, **{p_: v})))
                        else:
                            nxt.append((q, dict(bnd, **{p_: self.val(q, a)})))
                    argstates = nxt
                ca_ = callee.node.args
                if ca_.vararg or ca_.kwarg:
                    named_ = set(params) | {x.arg for x in ca_.kwonlyargs}
                    argstates2 = []
                    for r_, bind_ in argstates:
                        bind_ = dict(bind_)
                        if ca_.vararg:
                            bind_[ca_.vararg.arg] = ast.Tuple(elts=[
                                ast.Starred(value=self.val(r_, a.value), ctx=ast.Load()) if isinstance(a, ast.Starred) else self.val(r_, a)
                                for a in node.args[len(params):]], ctx=ast.Load())
                        if ca_.kwarg:
                            extra_ = [k for k in node.keywords if k.arg is None or k.arg not in named_]
                            bind_[ca_.kwarg.arg] = ast.Dict(keys=[ast.Constant(value=k.arg) if k.arg else None for k in extra_],
                                                            values=[self.val(r_, k.value) for k in extra_])
                        argstates2.append((r_, bind_))
                    argstates = argstates2
                for r_, bind_ in argstates:
                    yield from self._splice(r_, bind_, callee, fn, loop, depth)
                return
            # list surgery on a local:  L.pop() / L.pop(-1) / L.pop(0)
            f = node.func
            if isinstance(f, ast.Attribute) and f.attr == 'pop' and isinstance(f.value, ast.Name) and f.value.id in r.env \
                    and not node.keywords and len(node.args) <= 1:
                a = src(node.args[0]) if node.args else '-1'
                if a in ('-1', '0'):
                    q = r.copy()
                    cur = q.env[f.value.id]
                    q.env[f.value.id] = _sym('INIT' if a == '-1' else 'REST', cur)
                    yield q, _sym('LAST' if a == '-1' else 'FIRST', cur)
                    return
            # emission
            if isinstance(f, ast.Attribute) and f.attr in ('_emit', 'emit') and isinstance(f.value, (ast.Name, ast.Attribute)):
                mdn = next((k.value for k in node.keywords if k.arg == 'metadata'), node.args[1] if len(node.args) > 1 else None)
                for q0, data in (self.eval_value(r, node.args[0], fn, loop, depth) if node.args else [(r, None)]):
                    for q1, md in (self.eval_value(q0, mdn, fn, loop, depth) if mdn is not None else [(q0, None)]):
                        q = q1.copy()
                        q.emits.append((data, md, q.susp, loop))
                        q.order.append(('emit', len(q.emits) - 1))
                        yield q, _sym('EMITRESULT', ast.Constant(value=len(q.emits) - 1))
                return
            # nested awaits / helper calls in arguments: evaluate arguments left to right
            states = [(r, [])]
            for a in node.args:
                nxt = []
                for q, acc in states:
                    inner = a.value if isinstance(a, ast.Starred) else a
                    if any(isinstance(x, (ast.Await, ast.Yield, ast.Call)) for x in ast.walk(inner)):
                        for q2, v in self.eval_value(q, inner, fn, loop, depth):
                            nxt.append((q2, acc + [ast.Starred(value=v, ctx=ast.Load()) if isinstance(a, ast.Starred) else v]))
                    else:
                        v = self.val(q, inner)
                        nxt.append((q, acc + [ast.Starred(value=v, ctx=ast.Load()) if isinstance(a, ast.Starred) else v]))
                states = nxt
            # keyword values (and **mappings) likewise: a helper call in them is evaluated (spliced) before the call is built
            kstates = [(q, acc, []) for q, acc in states]
            for k in node.keywords:
                nxt = []
                for q, acc, kws in kstates:
                    if any(isinstance(x, (ast.Await, ast.Yield, ast.Call)) for x in ast.walk(k.value)) and not isinstance(k.value, ast.Lambda):
                        for q2, v in self.eval_value(q, k.value, fn, loop, depth):
                            nxt.append((q2, acc, kws + [ast.keyword(arg=k.arg, value=v)]))
                    else:
                        nxt.append((q, acc, kws + [ast.keyword(arg=k.arg, value=self.val(q, k.value))]))
                kstates = nxt
            for q, acc, kws in kstates:
                fexpr = self.val(q, node.func)
                call = ast.Call(func=fexpr, args=acc, keywords=kws)
                call = self.simplify(call)
                if not isinstance(call, ast.Call):      # (x.difference(y) and the like are rewritten to operators)
                    yield q, call
                    continue
                q = q.copy()
                if self.name_calls and isinstance(fexpr, ast.Name) and fexpr.id in ('len', 'isinstance', 'callable') and not node.keywords:
                    # an observer of an unchanged value has the value it had: same symbol (so that tests of it agree)
                    txt = src(call)
                    prev = next((k for k in range(len(q.calls) - 1, -1, -1)
                                 if isinstance(q.calls[k][0], ast.Call) and src(q.calls[k][0]) == txt), None)
                    if prev is not None and not any(m_k > prev and m_b in txt for m_b, m_k in q.mutated):
                        yield q, ast.Name(id='C%d' % prev, ctx=ast.Load())
                        continue
                q.calls.append((call, q.susp, loop))
                q.order.append(('call', len(q.calls) - 1))
                # a local list literal that is appended to: functional update (inside a loop: one representative element)
                if isinstance(f, ast.Attribute) and f.attr == 'append' and isinstance(f.value, ast.Name) and len(acc) == 1 \
                        and isinstance(q.env.get(f.value.id), ast.List) and not isinstance(acc[0], ast.Starred):
                    q.env[f.value.id] = ast.List(elts=list(q.env[f.value.id].elts) + [acc[0]], ctx=ast.Load())
                if isinstance(fexpr, ast.Attribute) and fexpr.attr in _MUTATORS:
                    _mark_stale(q, fexpr.value)
                if self.name_calls:
                    yield q, ast.Name(id='C%d' % (len(q.calls) - 1), ctx=ast.Load())
                else:
                    yield q, self.simplify(call)
            return
        # any other expression: calls / awaits nested in it (outside short-circuit and comprehension scopes) are
        # evaluated first, left to right, and replaced by their values
        inner = self._liftable(node)
        if not inner:
            yield r, self.val(r, node)
            return
        states = [(r, {})]
        for c in inner:
            nxt = []
            for q, m in states:
                for q2, v in self.eval_value(q, c, fn, loop, depth):
                    m2 = dict(m)
                    m2[id(c)] = v if v is not None else ast.Constant(value=None)
                    nxt.append((q2, m2))
            states = nxt
        for q, m in states:
            val = self.val(q, _copy_keep_ids(node, m))
            yield q, _unlift(val)

    @staticmethod
    def _liftable(node):
        out = []

        def walk(n, top):
            if isinstance(n, (ast.Lambda, ast.ListComp, ast.SetComp, ast.DictComp, ast.GeneratorExp)):
                return
            if isinstance(n, (ast.Call, ast.Await, ast.Yield, ast.YieldFrom)) and not top:
                out.append(n)
                return
            if isinstance(n, ast.BoolOp):
                walk(n.values[0], False)
                return
            if isinstance(n, ast.IfExp):
                if not top:
                    out.append(n)
                return
            for ch in ast.iter_child_nodes(n):
                walk(ch, False)
        walk(node, True)
        return out

    def stmt(self, s, r, fn, loop, depth):
        if isinstance(s, ast.Expr):
            if isinstance(s.value, ast.Constant):
                yield r
                return
            for q, v in self.eval_value(r, s.value, fn, loop, depth):
                yield q
        elif isinstance(s, (ast.Assign, ast.AnnAssign)):
            value = s.value
            targets = s.targets if isinstance(s, ast.Assign) else [s.target]
            if value is None:
                yield r
                return
            # X = [<takes something out of a container> for t in it]  ==  X = []; for t in it: X.append(<...>)
            # (a comprehension whose element expression removes from a container is a loop with effects, not a value)
            if isinstance(value, ast.ListComp) and len(value.generators) == 1 and not value.generators[0].is_async \
                    and len(targets) == 1 and isinstance(targets[0], ast.Name) and any(
                        isinstance(x, ast.Call) and isinstance(x.func, ast.Attribute) and x.func.attr in ('popleft', 'pop', 'popitem', 'get_nowait')
                        for x in ast.walk(value.elt)):
                g = value.generators[0]
                nm = targets[0].id
                body = ast.Expr(value=ast.Call(func=ast.Attribute(value=ast.Name(id=nm, ctx=ast.Load()), attr='append', ctx=ast.Load()),
                                               args=[value.elt], keywords=[]))
                for t_ in reversed(g.ifs):
                    body = ast.If(test=t_, body=[body], orelse=[])
                stmts = [ast.Assign(targets=[ast.Name(id=nm, ctx=ast.Store())], value=ast.List(elts=[], ctx=ast.Load())),
                         ast.For(target=g.target, iter=g.iter, body=[body], orelse=[])]
                for x in stmts:
                    ast.copy_location(x, s)
                    ast.fix_missing_locations(x)
                yield from self.block(stmts, r, fn, loop, depth)
                return
            for q, v in self.eval_value(r, value, fn, loop, depth):
                q = q.copy()
                for t in targets:
                    self.assign(q, t, v, loop)
                yield q
        elif isinstance(s, ast.AugAssign):
            for q, v in self.eval_value(r, s.value, fn, loop, depth):
                q = q.copy()
                cur = self.val(q, ast.Name(id=s.target.id, ctx=ast.Load()) if isinstance(s.target, ast.Name) else s.target)
                if isinstance(s.target, ast.Attribute) and isinstance(s.target.value, ast.Name) and s.target.value.id == 'self':
                    cur = q.env.get('self.' + s.target.attr, s.target)
                self.assign(q, s.target, ast.BinOp(left=cur, op=s.op, right=v), loop)
                yield q
        elif isinstance(s, ast.Return):
            for q, v in self.eval_value(r, s.value, fn, loop, depth):
                q = q.copy()
                q.ret = v if v is not None else ast.Constant(value=None)
                q.done = True
                yield q
        elif isinstance(s, ast.Raise):
            q = r.copy()
            if isinstance(s.exc, ast.Call) and src(s.exc.func) in ('gen.Return', 'Return'):
                q.ret = self.val(q, s.exc.args[0]) if s.exc.args else ast.Constant(value=None)
                q.done = True
            else:
                q.raised = True
            yield q
        elif isinstance(s, ast.If):
            for q0, t in self.eval_value(r, s.test, fn, loop, depth):
                key = src(t)
                known = None
                if isinstance(t, ast.Constant):
                    yield from self.block(s.body if t.value else s.orelse, q0, fn, loop, depth)
                    continue
                if _pure_test(t) and key not in q0.stale:
                    known = _known_outcome(q0, key)
                for outcome, arm in ((True, s.body), (False, s.orelse)):
                    if known is not None and outcome != known:
                        continue
                    q = q0.copy()
                    q.conds.append((src(t), outcome))
                    q.order.append(('cond', len(q.conds) - 1))
                    yield from self.block(arm, q, fn, loop, depth)
        elif isinstance(s, ast.Try):
            for q in self.block(s.body, r, fn, loop, depth):
                if q.done or q.raised:
                    yield q
                else:
                    for q2 in self.block(s.orelse, q, fn, loop, depth):
                        if q2.done or q2.raised:
                            yield q2
                        else:
                            yield from self.block(s.finalbody, q2, fn, loop, depth)
        elif isinstance(s, (ast.For, ast.AsyncFor)):
            for q0, it in self.eval_value(r, s.iter, fn, loop, depth):
                if isinstance(it, (ast.List, ast.Tuple)) and not it.elts:
                    yield q0            # loop over an empty literal: no iteration
                    continue
                q = q0.copy()
                ctx2 = loop + ((src(it), s.lineno),)
                self.assign(q, s.target, _sym('ELEM', it), ctx2)
                any_path = False
                for q2 in self.block(s.body, q, fn, ctx2, depth):
                    any_path = True
                    if q2.raised:
                        yield q2
                        continue
                    q3 = q2.copy()
                    q3.done = q2.done
                    # a `return` inside the loop ends the function on that path; `break`/`continue` end this (single,
                    # representative) iteration and are remembered in conds as '<break>' / '<continue>'
                    q3.jump = None
                    yield q3
                if not any_path:
                    yield q0
        elif isinstance(s, ast.While):
            # evaluate the body once under the test
            for q0, t in self.eval_value(r, s.test, fn, loop, depth):
                ctx2 = loop + (('while ' + src(t), s.lineno),)
                q = q0.copy()
                for q2 in self.block(s.body, q, fn, ctx2, depth):
                    if q2.jump:
                        q2 = q2.copy()
                        q2.jump = None
                    yield q2
                yield q0
        elif isinstance(s, (ast.Break, ast.Continue)):
            q = r.copy()
            q.conds.append(('<%s>' % type(s).__name__.lower(), True))
            q.jump = type(s).__name__.lower()
            yield q
        elif isinstance(s, (ast.With, ast.AsyncWith)):
            yield from self.block(s.body, r, fn, loop, depth)
        elif isinstance(s, (ast.Pass, ast.Import, ast.ImportFrom, ast.Assert, ast.FunctionDef, ast.AsyncFunctionDef,
                            ast.Global, ast.Nonlocal, ast.Delete, ast.ClassDef)):
            yield r
        else:
            raise AnalysisError('symbolic evaluation: unsupported statement %s at line %d' % (type(s).__name__, s.lineno))


_MUTATORS = {'append', 'extend', 'add', 'pop', 'remove', 'clear', 'update', 'popleft', 'appendleft', 'discard', 'insert',
             'setdefault', 'sort', 'reverse'}


def _pure_test(t):
    for x in ast.walk(t):
        if isinstance(x, (ast.Await, ast.Yield, ast.YieldFrom)):
            return False
        if isinstance(x, ast.Call) and not (isinstance(x.func, ast.Name) and x.func.id in (
                'len', 'isinstance', 'callable', 'type', 'ELEM', 'FIRST', 'LAST', 'INIT', 'REST', 'set', 'sorted', 'tuple', 'list')):
            return False
    return True


def _known_outcome(r, key):
    """outcome already recorded on this path for the same test, modulo negation spellings (not X / X is not Y / X != Y)"""
    nk, pol = norm_cond(key, True)
    for c, o in reversed(r.conds):
        if c in r.stale:
            continue
        nc, no = norm_cond(c, o)
        if nc == nk:
            return no if pol else (not no)
    return None


def _mark_stale(r, base):
    b = src(base)
    r.mutated.append((b, len(r.calls)))
    for c, o in r.conds:
        if b in c:
            r.stale.add(c)


class _Lifted(ast.expr):
    """placeholder carrying an already evaluated value through substitution (never substituted again)"""
    _fields = ()

    def __init__(self, value=None):
        super().__init__()
        self.lifted = value

    def __deepcopy__(self, memo):
        return _Lifted(self.lifted)


def _copy_keep_ids(node, m):
    """the expression with every lifted sub-expression (by identity) replaced by a placeholder"""
    class Clone(ast.NodeTransformer):
        def generic_visit(self_, n):
            if id(n) in m:
                return _Lifted(m[id(n)])
            new = type(n)()
            for f, v in ast.iter_fields(n):
                if isinstance(v, list):
                    setattr(new, f, [self_.generic_visit(x) if isinstance(x, ast.AST) else x for x in v])
                elif isinstance(v, ast.AST):
                    setattr(new, f, self_.generic_visit(v))
                else:
                    setattr(new, f, v)
            for a in ('lineno', 'col_offset', 'end_lineno', 'end_col_offset'):
                if hasattr(n, a):
                    setattr(new, a, getattr(n, a))
            return new
    return Clone().generic_visit(node)


def _unlift(e):
    class U(ast.NodeTransformer):
        def visit(self_, n):
            if isinstance(n, _Lifted):
                return n.lifted
            return super().visit(n)
    return ast.fix_missing_locations(U().visit(e)) if e is not None else None


def norm_cond(c, o):
    """(text, outcome) of a recorded test with negations folded into the outcome:  not X / X is not Y / X != Y / X not in Y"""
    if c.startswith('<'):
        return c, o
    try:
        t = ast.parse(c, mode='eval').body
    except SyntaxError:
        return c, o
    while True:
        if isinstance(t, ast.UnaryOp) and isinstance(t.op, ast.Not):
            t, o = t.operand, not o
            continue
        if isinstance(t, ast.Compare) and len(t.ops) == 1 and isinstance(t.ops[0], (ast.IsNot, ast.NotEq, ast.NotIn)):
            op = {ast.IsNot: ast.Is, ast.NotEq: ast.Eq, ast.NotIn: ast.In}[type(t.ops[0])]()
            t, o = ast.Compare(left=t.left, ops=[op], comparators=t.comparators), not o
            continue
        break
    return src(t), o


def nf(e):
    """text of a symbolic value without spaces"""
    return src(e).replace(' ', '') if e is not None else 'None'
