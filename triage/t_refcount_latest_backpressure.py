import asyncio, threading, logging
logging.disable(logging.CRITICAL)
from streamz import Stream
from streamz.core import RefCounter
from tornado.ioloop import IOLoop
from tornado import gen

async def t_latest_lost():
    src = Stream(asynchronous=True)
    got = []
    async def slow(x):
        await asyncio.sleep(0.05); got.append(x)
    src.latest().sink(slow)
    await src.emit(1)
    await asyncio.sleep(0.01)   # consumer busy with 1
    await src.emit(2)
    await src.emit(3)
    await asyncio.sleep(0.5)
    print("latest busy-consumer delivered:", got, "(expect ends with 3)")

async def t_latest_dup():
    src = Stream(asynchronous=True)
    got = []
    src.latest().sink(got.append)
    await src.emit(1)
    await asyncio.sleep(0)
    await src.emit(2)
    await asyncio.sleep(0.1)
    print("latest dup schedule delivered:", got)

async def t_rate_limit_ref():
    src = Stream(asynchronous=True)
    fired = []
    got = []
    src.rate_limit(0.05).sink(got.append)
    r1 = RefCounter(cb=lambda: fired.append(('cb1', list(got))), loop=IOLoop.current())
    r2 = RefCounter(cb=lambda: fired.append(('cb2', list(got))), loop=IOLoop.current())
    f1 = src.emit(1, metadata=[{'ref': r1}])
    f2 = src.emit(2, metadata=[{'ref': r2}])
    await asyncio.sleep(0.01)
    print("rate_limit: after 10ms got", got, "fired", fired, "counts", r1.count, r2.count)
    await asyncio.sleep(0.2)

async def t_map_async_ref():
    src = Stream(asynchronous=True)
    fired = []
    started = []
    async def f(x):
        started.append(x); await asyncio.sleep(0.05); return x
    got = src.map_async(f).sink_to_list()
    r1 = RefCounter(cb=lambda: fired.append(('cb1', list(started), list(got))), loop=IOLoop.current())
    fut = src.emit(1, metadata=[{'ref': r1}])
    print("map_async: count right after emit:", r1.count)
    await asyncio.sleep(0.01)
    print("map_async: after 10ms fired", fired, "got", got, "count", r1.count)
    await asyncio.sleep(0.2)
    print("map_async: end fired", fired, "count", r1.count)

async def t_map_async_fail():
    src = Stream(asynchronous=True)
    fired = []
    async def f(x):
        raise ValueError(x)
    got = src.map_async(f).sink_to_list()
    r1 = RefCounter(cb=lambda: fired.append('cb1'), loop=IOLoop.current())
    await src.emit(1, metadata=[{'ref': r1}])
    await asyncio.sleep(0.1)
    print("map_async failing func: fired", fired, "count", r1.count)

async def t_async_sink_ref():
    src = Stream(asynchronous=True)
    fired = []
    done = []
    async def slow(x):
        await asyncio.sleep(0.05); done.append(x)
    src.map(lambda x: x).sink(slow)
    r1 = RefCounter(cb=lambda: fired.append(('cb1', list(done))), loop=IOLoop.current())
    await src.emit(1, metadata=[{'ref': r1}])
    print("direct async sink: fired", fired)

async def t_timed_window_native():
    src = Stream(asynchronous=True)
    done = []
    async def slow(x):
        await asyncio.sleep(0.05); done.append(x)
    src.timed_window(0.02).sink(slow)
    await asyncio.sleep(0.03)
    try:
        for i in range(5):
            await src.emit(i)
            await asyncio.sleep(0.01)
        print("timed_window native coroutine sink: OK", done)
    except Exception as e:
        print("timed_window native coroutine sink: EXC", type(e), e)
    await asyncio.sleep(0.3)
    print(done)

async def t_ziplatest_source():
    a = Stream.from_iterable([1,2,3], asynchronous=True)
    b = Stream(asynchronous=True)
    L = a.zip_latest(b).sink_to_list()
    await b.emit('x')
    a.start()
    await asyncio.sleep(0.1)
    print("from_iterable->zip_latest:", L)

async def t_partition_unique_leak():
    src = Stream(asynchronous=True)
    L = src.partition_unique(2).sink_to_list()
    refs = [RefCounter(loop=IOLoop.current()) for _ in range(3)]
    for r, x in zip(refs, [1, 1, 2]):
        await src.emit(x, metadata=[{'ref': r}])
    print("partition_unique keep=first [1,1,2]:", L, [r.count for r in refs])
    src = Stream(asynchronous=True)
    L = src.partition_unique(2, keep='last').sink_to_list()
    refs = [RefCounter(loop=IOLoop.current()) for _ in range(3)]
    for r, x in zip(refs, [1, 1, 2]):
        await src.emit(x, metadata=[{'ref': r}])
    print("partition_unique keep=last [1,1,2]:", L, [r.count for r in refs])

async def main():
    for t in [t_latest_lost, t_latest_dup, t_rate_limit_ref, t_map_async_ref, t_map_async_fail, t_async_sink_ref, t_timed_window_native, t_ziplatest_source, t_partition_unique_leak]:
        try:
            await t()
        except Exception as e:
            import traceback; traceback.print_exc()
asyncio.run(main())
