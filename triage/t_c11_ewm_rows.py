"""Witness for the known finding C11 / EWM-ROWS (never part of a check; run by hand):
    cd /repo && /venv/bin/python /verif/triage/t_c11_ewm_rows.py
sdf.ewm(com).mean() emits one row per *batch* (the value it carries on), not one per row: for batches of more than one row the
results "taken together" are not what pandas computes in one pass (rows are missing)."""
import pandas as pd
from streamz.dataframe import DataFrame

sdf = DataFrame(example=pd.DataFrame(columns=['x', 'y']))
L = sdf.ewm(1).mean().stream.gather().sink_to_list()
sdf.emit(pd.DataFrame({'x': [1., 2.], 'y': [2., 3.]}))      # a batch of two rows
sdf.emit(pd.DataFrame({'x': [3.], 'y': [4.]}))
got = pd.concat(L, ignore_index=True)
want = pd.DataFrame({'x': [1., 2., 3.], 'y': [2., 3., 4.]}).ewm(1).mean()
print('streamz rows:', len(got), ' pandas rows:', len(want))
print(got)
print(want)
assert len(got) == len(want), 'FAIL: %d rows emitted, pandas has %d' % (len(got), len(want))
print('PASS')
