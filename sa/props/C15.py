"""C15 delivery follows the current topology under connect/disconnect/destroy/gc (structural clauses)"""
from ..rules import topology, delivery
from .common import declare

RULES = ['BOTH-ENDS', 'PER-UPSTREAM-OVERRIDE', 'BELIEF-CONSISTENT', 'WEAK-DOWN', 'STRONG-SINK', 'DESTROY-SUPER', 'FANOUT', 'NONE-SENTINEL', 'EDIT-ATOMIC', 'HOOKS-ONLY', 'SWAP-ATOMIC']
FLOORS = {'BOTH-ENDS': 5, 'PER-UPSTREAM-OVERRIDE': 6, 'BELIEF-CONSISTENT': 0, 'WEAK-DOWN': 3, 'STRONG-SINK': 4,
          'DESTROY-SUPER': 3, 'FANOUT': 3, 'EDIT-ATOMIC': 4, 'HOOKS-ONLY': 5}

META = {
    'level': "Static analysis of the graph-editing protocol: every function that touches one end of an edge touches the other end in "
             "the same block (BOTH-ENDS), nodes with per-upstream state override both hooks, call the base and resize every "
             "per-upstream field with the index taken before the base removal (PER-UPSTREAM-OVERRIDE), no method removes with the "
             "raising form what another method believes may be absent (BELIEF-CONSISTENT, Engler's contradiction rule), downstreams "
             "is a weak ordered set with no strong copy (WEAK-DOWN), sinks register/unregister in the strong global set and every "
             "constructor/destroy override reaches its base (STRONG-SINK, DESTROY-SUPER), _emit iterates the current downstreams "
             "(FANOUT). What a combining node should emit after an edit is value-level and not decided.",
    'note': "Trusted: weakref.WeakSet drops collected members; premise of the property (no parallel edges). One genuine defect is a "
            "known finding: zip_latest has per-upstream state but no _add_upstream/_remove_upstream overrides.",
    'technique': "static analysis: class-level field effect tables + sibling/contradiction rules + MRO-resolved call paths "
                 "(BOTH-ENDS, PER-UPSTREAM-OVERRIDE, BELIEF-CONSISTENT, WEAK-DOWN, STRONG-SINK, DESTROY-SUPER)",
}


def run(ctx, R):
    R.explanation = 'Edge primitives, per-upstream state hooks and liveness containers of every node class.'
    R.not_decided = ['what a combining node should emit after an edit (value-level)', 'garbage-collector timing']
    declare(R, {**topology.RULES, **delivery.RULES}, RULES, FLOORS)
    M = ctx.model
    nodes = [c for c in M.nodes if c.module.name in ('streamz.core', 'streamz.sinks', 'streamz.sources', 'streamz.dask')]
    R.run(topology.check_both_ends, ctx, R, nodes)
    R.run(topology.check_per_upstream, ctx, R, [c for c in nodes if c.module.name == 'streamz.core'])
    R.run(topology.check_belief_consistent, ctx, R, [c for c in nodes if c.module.name == 'streamz.core'])
    R.run(topology.check_weak_and_sinks, ctx, R)
    R.run(topology.check_edit_reach, ctx, R)
    R.run(topology.check_destroy_super, ctx, R, nodes)
    R.run(delivery.check_fanout, ctx, R)
    R.run(topology.check_none_sentinel, ctx, R, [c for c in nodes if c.module.name == 'streamz.core'])
    R.run(topology.check_edit_atomic, ctx, R, nodes)
    R.run(topology.check_hooks_only, ctx, R)
    # an edit made from inside a delivery (a sink that connects another input to the combining node that is emitting)
    R.run(delivery.check_zip_consume_first, ctx, R)


META['level'] += ' connect()/disconnect() reach neither destroy() nor the removal from _global_sinks (call-graph closure), and per-upstream fields are resized unconditionally.'
META['level'] += ' NONE-SENTINEL: an optional constructor argument (e.g. combine_latest emit_on) is never tested for truthiness where another site tests it against None.'
META['level'] += ' EDIT-ATOMIC: the hook that runs second in connect/disconnect/destroy cannot refuse with an explicit raise (a guard that is dead by shape - a tuple/list field compared with a node - is recognised).'
META['level'] += ' HOOKS-ONLY: only the four base hooks and constructors mutate the upstreams/downstreams containers; every other edit goes through the overridable hooks.'
