"""Witness for C11 / EWM-ROWS first-marker-needs-a-row (never part of a check; run by hand):
    cd /repo && /venv/bin/python /verif/triage/t_c11_ewm_empty_first_batch.py
An empty FIRST batch (C11 names empty batches) initialises EWMean with an empty seed (initial() keeps new.iloc[:1]) and on_new
then clears the first-batch marker blindly: every later result is an empty frame. With the fix the first row that arrives
seeds the mean, and the value after each batch is what pandas' ewm().mean() has at that row."""
import pandas as pd
from streamz import Stream
from streamz.dataframe import DataFrame

df = pd.DataFrame({'x': [1., 2., 3., 4.]})
want = df.ewm(com=1).mean()


def run(batches):
    s = Stream()
    sdf = DataFrame(s, example=df.iloc[:0])
    L = sdf.ewm(com=1).mean().stream.sink_to_list()
    for b in batches:
        s.emit(b)
    return L


L = run([df.iloc[:0], df.iloc[:2], df.iloc[2:]])
print([list(x['x']) for x in L])
assert len(L[-1]) == 1 and abs(float(L[-1]['x'].iloc[0]) - float(want['x'].iloc[3])) < 1e-9, \
    'FAIL: after an empty first batch the ewm mean is %r, pandas has %r' % (L[-1], want.iloc[3:])
assert abs(float(L[-2]['x'].iloc[0]) - float(want['x'].iloc[1])) < 1e-9
# the ordinary case is unchanged
L2 = run([df.iloc[:2], df.iloc[2:]])
assert abs(float(L2[-1]['x'].iloc[0]) - float(want['x'].iloc[3])) < 1e-9 and abs(float(L2[0]['x'].iloc[0]) - float(want['x'].iloc[1])) < 1e-9
# an empty batch in the middle changes nothing
L3 = run([df.iloc[:2], df.iloc[:0], df.iloc[2:]])
assert abs(float(L3[-1]['x'].iloc[0]) - float(want['x'].iloc[3])) < 1e-9
print('PASS')
