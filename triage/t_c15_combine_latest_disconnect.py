"""C15 witness: combine_latest.disconnect after data has flowed.
update() removes an upstream from `missing` once it has delivered; _remove_upstream then did
`self.missing.remove(upstream)` unconditionally -> KeyError for any upstream that already delivered."""
from streamz import Stream

a, b, c = Stream(), Stream(), Stream()
cl = a.combine_latest(b, c)
L = cl.sink_to_list()
a.emit(1); b.emit(2); c.emit(3)
c.disconnect(cl)                 # KeyError before the fix
assert c not in cl.upstreams and cl not in c.downstreams
a.emit(10)
print(L)
assert L[-1] == (10, 2)
print('OK')
