"""C14 latest delivers an in-order subsequence ending with the newest element (structural clauses)"""
from ..rules import delivery, flow
from .common import declare

RULES = ['MAILBOX', 'SINGLE-CONSUMER', 'SERIAL-DRAIN', 'EMIT-SIG', 'PASS-VALUE', 'FANOUT', 'AWAITABLE-RESULT']
FLOORS = {'MAILBOX': 2, 'SINGLE-CONSUMER': 1, 'SERIAL-DRAIN': 1, 'EMIT-SIG': 2, 'PASS-VALUE': 1, 'FANOUT': 3, 'AWAITABLE-RESULT': 1}

META = {
    'level': "Static analysis of latest's single-slot mailbox: the wait on the edge-triggered Condition is guarded by a predicate "
             "loop on the slot written by update() (no lost wake-up), the slot is emptied when taken, before the next suspension "
             "(no re-delivery), there is one serial forwarding coroutine that awaits each delivery (SINGLE-CONSUMER, SERIAL-DRAIN, "
             "EMIT-SIG), and the slot receives the very element (PASS-VALUE). With a single slot and a single serial consumer "
             "these shapes imply an in-order subsequence ending with the newest element; nothing about timing is decided.",
    'note': "Trusted: tornado.locks.Condition is edge-triggered (notify wakes only current waiters); suspension points = yield/await.",
    'technique': "static analysis: wait/notify (mailbox) discipline rule + scheduling-site census + event paths (MAILBOX, "
                 "SINGLE-CONSUMER, SERIAL-DRAIN)",
}


def run(ctx, R):
    R.explanation = 'Mailbox discipline of streamz.core.latest (update/cb) on every enumerated path.'
    declare(R, {**delivery.RULES, **flow.RULES}, RULES, FLOORS)
    cls = [ctx.model.cls('streamz.core', 'latest')]
    R.run(delivery.check_mailbox, ctx, R, cls)
    R.run(delivery.check_single_consumer, ctx, R, cls)
    R.run(delivery.check_serial_drain, ctx, R, cls)
    R.run(delivery.check_emit_sig, ctx, R, cls)
    R.run(delivery.check_pass_value, ctx, R, cls)
    # the forwarder delivers through Stream._emit: a consumer that detaches itself during delivery must not kill it
    R.run(delivery.check_fanout, ctx, R)
    # ... and yields on what the consumers hand back: a sink that returns a plain value among the results makes the forwarding
    # coroutine fail on its yield (BadYieldError) - it dies silently and the newest element is never delivered
    R.run(flow.check_awaitable_result, ctx, R, [c for c in ctx.model.nodes if c.module.name in ('streamz.core', 'streamz.sinks')])


META['level'] += ' MAILBOX also requires a notification after every store into the slot and a slot that wraps the element (no element value can look like the empty marker).'
META['level'] += ' MAILBOX also requires that every normal path of update() stores the arrival (stores-every-arrival) and that no method but the forwarding coroutine empties the slot (only-forwarder-empties); the forwarder delivers through an _emit that iterates a snapshot of its consumers (FANOUT).'
META['level'] += ' AWAITABLE-RESULT: what a sink hands back to the forwarding coroutine is an awaitable or nothing (a plain value would end the forwarder on its yield).'
