"""debug helper: print the event paths of one method, optionally on a benign/ patch
usage: python3 tools/dbg_paths.py <patch-id|dir-with-patch.diff|-> <module.Class> <method>"""
import os, sys
sys.path.insert(0, os.path.dirname(os.path.dirname(os.path.abspath(__file__))))
from selftest.benign_patches import overrides_for
from sa.model import Model
from sa.ctx import Ctx
pid, owner, meth = sys.argv[1:4]
if os.path.isdir(pid):
    from selftest.patchapply import apply_patch
    from sa.model import REPO
    ov = apply_patch(open(os.path.join(pid, 'patch.diff')).read(), lambda rel: open(os.path.join(REPO, rel)).read())
    ov = {k: v for k, v in ov.items() if k.endswith('.py')}
else:
    ov = overrides_for({pid})[pid] if pid != '-' else None
ctx = Ctx(Model(overrides=ov), K=2, depth=3, tier='quick')
mod, cn = owner.rsplit('.', 1)
cls = ctx.model.cls(mod, cn)
fn = cls.find(meth)
for st, status in ctx.paths(fn, cls):
    print('----', status)
    for e in st.events:
        print('   ', '  ' * e.depth, e.brief(), {k: v for k, v in (e.x or {}).items() if k in ('field', 'iter_field', 'kw', 'alias')} or '')
