"""C20 a Dask-backed pipeline is observationally equivalent to the local one (structural clauses)"""
from ..rules import dasksib, holds, flow, delivery
from .common import declare

RULES = ['SIBLING-SIG', 'DASK-REGISTRY', 'MRO-INIT', 'SCATTER-GATHER', 'HOLD-BEFORE-ESCAPE', 'REL-AFTER-AWAIT', 'LINEAR-HOLD',
         'NO-REL-ON-FAIL', 'META-PASS', 'PROPAGATE', 'EMIT-SIG', 'SWAP-ATOMIC']
FLOORS = {'SIBLING-SIG': 9, 'DASK-REGISTRY': 10, 'MRO-INIT': 9, 'SCATTER-GATHER': 5, 'HOLD-BEFORE-ESCAPE': 2, 'REL-AFTER-AWAIT': 2,
          'LINEAR-HOLD': 2, 'META-PASS': 2, 'PROPAGATE': 8, 'EMIT-SIG': 5}

META = {
    'level': "Static sibling cross-check of the Dask re-implementations against their core counterparts: after rewriting "
             "client.submit into the call it performs, every path of dask.map/accumulate/starmap has the same branch tests, state "
             "update, emitted expression and metadata argument as core's, and the constructors agree (SIBLING-SIG); every node the "
             "property names resolves on DaskStream to a Dask-aware class (DASK-REGISTRY); the mix-ins' statically computed MRO makes "
             "DaskStream.__init__ forward to the core constructor with ensure_io_loop=True exactly once (MRO-INIT); scatter/gather "
             "convert at the boundary, hold their reference while they wait and release after the awaited emission (SCATTER-GATHER + "
             "the hold rules of C04/C05 on the Dask classes). Cluster completion order, serialisation and numeric equality are not decided.",
    'note': "Trusted: client.submit(f, *a, **k) computes f(*a, **k); the C3 MRO computed statically; dask futures preserve values.",
    'technique': "static analysis: sibling cross-check on symbolic normal forms + static MRO/constructor-chain analysis + typestate "
                 "rules on scatter/gather (SIBLING-SIG, DASK-REGISTRY, MRO-INIT, SCATTER-GATHER)",
}


def run(ctx, R):
    R.explanation = 'Normal-form comparison of dask vs core update() paths, registry/MRO analysis, hold rules on scatter/gather.'
    R.not_decided = ['cluster completion order', 'serialisation of functions and data', 'numeric equality of results']
    declare(R, {**dasksib.RULES, **holds.RULES, **flow.RULES, **delivery.RULES}, RULES, FLOORS)
    M = ctx.model
    R.run(dasksib.check_sibling_sig, ctx, R)
    R.run(dasksib.check_registry_and_mro, ctx, R)
    R.run(dasksib.check_scatter_gather, ctx, R)
    dcls = [c for c in M.nodes if c.module.name == 'streamz.dask']
    for c in dcls:
        R.run(holds.check_class, ctx, R, c, rules={'HOLD-BEFORE-ESCAPE', 'REL-AFTER-AWAIT', 'LINEAR-HOLD', 'NO-REL-ON-FAIL'})
    R.run(flow.check_meta_pass, ctx, R, [c for c in dcls if c.name in ('map', 'accumulate', 'starmap')])
    R.run(flow.check_propagate, ctx, R, modules=('streamz.dask', 'streamz.core'), note_modules=())
    # of the core classes only those that the Dask mix-ins inherit their update() from matter here: a dropped awaitable is
    # invisible locally (synchronous consumers return nothing) but loses ordering/back-pressure on Dask
    mixed = {b.name for c in dcls for b in c.mro if b.module.name == 'streamz.core' and b.name not in ('Stream', 'APIRegisterMixin')}
    for k in [k for k in R.obs if k[0] == 'PROPAGATE' and k[1].startswith('streamz.core.')
              and k[1].split('.')[2] not in mixed]:
        del R.obs[k]
    R.run(delivery.check_emit_sig, ctx, R, dcls)
    # a flush that resets its buffer only after awaiting downstream is harmless with synchronous local consumers, but
    # a Dask segment makes that await long: arrivals in between are wiped
    R.run(delivery.check_swap_atomic, ctx, R, [c_ for c_ in (M.cls('streamz.core', n, required=False) for n in sorted(mixed)) if c_ is not None])


META['level'] += ' PROPAGATE is also evaluated on the core classes whose update() the Dask mix-ins inherit.'
META['level'] += ' DASK-REGISTRY ends-the-segment: gather is a core Stream, not a DaskStream.'
