"""KNOWN FINDING (C04 REL-WHILE-IN-FLIGHT / C05 EMITTED-STILL-HELD, streamz.core.latest):
(a) latest keeps its hold on an element after it has emitted it, until the *next* element arrives
    (streamz/tests/test_core.py::test_latest_ref_counts asserts exactly this, so it cannot be changed
    without editing the suite);
(b) update() releases the previous slot even while cb() is still awaiting the delivery of that element,
    so the completion callback can fire while the consumer is still busy with it."""
import asyncio, logging
logging.disable(logging.CRITICAL)
from streamz import Stream
from streamz.core import RefCounter
from tornado.ioloop import IOLoop


async def main():
    src = Stream(asynchronous=True)
    done, fired = [], []

    async def slow(x):
        await asyncio.sleep(0.05)
        done.append(x)
    src.latest().sink(slow)
    r1 = RefCounter(cb=lambda: fired.append(('cb1', list(done))), loop=IOLoop.current())
    await src.emit(1, metadata=[{'ref': r1}])
    await asyncio.sleep(0.01)           # consumer busy with 1
    await src.emit(2)                   # releases 1's hold while 1 is still being delivered
    await asyncio.sleep(0.005)
    print('(b) callback of 1 fired with consumer-finished list:', fired)
    b = bool(fired) and 1 not in fired[0][1]
    await asyncio.sleep(0.2)
    r3 = RefCounter(loop=IOLoop.current())
    await src.emit(3, metadata=[{'ref': r3}])
    await asyncio.sleep(0.2)
    print('(a) 3 fully delivered', done, 'but its count is still', r3.count)
    a = 3 in done and r3.count == 1
    print('GENUINE DEFECT REPRODUCED' if a and b else 'not reproduced (a=%s b=%s)' % (a, b))

asyncio.run(main())
