"""Reference-count typestate rules (DESIGN 4.4) on enumerated paths.

Tokens: the `metadata` parameter of an update ('md'), values taken out of a metadata
container ('take:<f>@line' / 'field:<f>').  Events come from sa.paths.
"""
import ast

from ..model import self_field
from ..paths import fmt_path, FLAT, NESTED, NONE, OTHER, SCALAR

RULES = {
    'HOLD-BEFORE-ESCAPE': 'in update(): if the incoming metadata is stored, escapes into a deferred computation or is '
                          'used after a suspension, a _retain_refs(metadata) precedes that, with no suspension before it',
    'REL-AFTER-AWAIT': 'a hold covering an emission is released only after that emission\'s awaitable was awaited '
                       '(coroutines) / handed back to the caller (plain functions)',
    'EMIT-REL-TIMING': 'Stream._emit releases its per-downstream hold only once the awaitable returned by update() completed',
    'NO-REL-ON-FAIL': 'no release is reachable after an exception raised by the processing of that element',
    'REL-WHILE-IN-FLIGHT': 'a coroutine that emits metadata read from a field and suspends on the emission has taken it '
                           'out of the field first, if another method releases that field\'s content',
    'LINEAR-HOLD': 'each retain in update() is, on every normal path, stored into a metadata container, released, or '
                   'handed to a deferred computation',
    'NO-DOUBLE-REL': 'no token is released twice on one path without being re-acquired (count never negative)',
    'EMIT-AFTER-REL': 'metadata is not emitted after this node has already released its hold on it on the same path: the '
                      'completion callback could fire before downstream has even seen the element (and fires although a '
                      'downstream failure follows)',
    'SCRATCH-SLOT': 'a slot that is only a scratch alias of a buffered entry (table SCRATCH_OVERWRITE: zip_latest.metadata[0], '
                    'released right after each emission) is never released through the "replace what the slot held" step: that '
                    'release is taken only when the arriving element does not belong to the slot\'s owner',
    'RETAIN-ONCE': 'node-level _retain_refs uses the default n and happens at most once per update path',
    'EMIT-BALANCE': 'Stream._emit retains len(downstreams) up front and releases exactly once per visited downstream',
    'REL-WHILE-BUFFERED': 'update() does not release the incoming metadata on a path on which it stored that metadata into one of '
                          'the node\'s containers and has not taken it out again',
    'DROP-TABLE': 'a value taken out of one of the node\'s containers is released only after it was emitted, except at the sites '
                  'listed in DROP_OK (an input is abandoned / a duplicate is superseded): nothing else may signal completion for '
                  'an element that was never delivered',
    'REMOVE-RELEASES': 'every removal from a metadata container (pop/popleft/get/swap/clear/overwrite) releases what it removed',
    'REL-SHAPE': 'what is handed to _emit(metadata=), _retain_refs and _release_refs is a flat list of dicts',
    'EMITTED-STILL-HELD': 'a single-slot holder gives up its hold once it has emitted the slot (unless a combining node)',
}

# combining nodes that legitimately keep "the most recent value" after emitting it (named by C05)
COMBINING = {'combine_latest', 'zip_latest'}
# scratch alias: zip_latest.metadata[0] is overwritten by the head of lossless_buffer before each emission;
# the value it overwrites was released on the previous iteration (REL(self.metadata[0])) or is the initial None
SCRATCH_OVERWRITE = {('zip_latest', 'metadata'): 'slot 0 (the lossless upstream\'s slot) is a scratch alias of the head of '
                                                  'lossless_buffer: it is released right after each emission, the real hold lives in lossless_buffer'}

EXIT_STATUSES_NORMAL = ('next', 'return', 'loopcut')


def has(tags, t):
    return tags is not None and t in tags


def md_containers(ctx, cls):
    """fields that receive metadata-derived values (discovered by taint, plus field-to-field transfer)"""
    fields = {}
    for name in ('update', '_insert_job'):
        fn = cls.find(name)
        if fn is None or fn.cls is None:
            continue
        for st, status in ctx.paths(fn, cls):
            for e in st.events:
                if e.kind == 'ST' and has(e.b, 'md'):
                    fields.setdefault(e.a, set()).add(e.c)
    changed = True
    while changed:
        changed = False
        for name, fn in _methods(cls):
            if name == '__init__':
                continue
            for st, status in ctx.paths(fn, cls):
                for e in st.events:
                    if e.kind == 'ST' and e.b and e.a not in fields and e.c not in ('reset',):
                        if any(t.startswith('emit@') for t in e.b):
                            continue        # the result of an emission is not metadata
                        if (e.x or {}).get('vshape') not in (FLAT, NESTED, SCALAR):
                            continue        # the data half of an (x, metadata) pair
                        if any(t.startswith('take:') and t[5:].split('@')[0] in fields for t in e.b):
                            fields.setdefault(e.a, set()).add(e.c)
                            changed = True
    return fields


def _methods(cls):
    seen = {}
    for c in cls.mro:
        if c.module.name.split('.')[0] != 'streamz':
            continue
        for n, f in c.methods.items():
            if n not in seen and c.name not in ('Stream', 'APIRegisterMixin'):
                seen[n] = f
    return sorted(seen.items())


def is_failure(evs, status):
    return any(e.kind in ('HANDLER', 'EXC') for e in evs) or status == 'raise'


def cond_false(evs, upto, pred):
    return any(e.kind == 'COND' and e.b is False and pred(e.a) for e in evs[:upto])


def cond_true(evs, upto, pred):
    return any(e.kind == 'COND' and e.b is True and pred(e.a) for e in evs[:upto])


# ----------------------------------------------------------------------------- per-class driver
def check_class(ctx, R, cls, rules=None):
    """run the hold rules on every method defined by `cls` (owner context)"""
    want = (lambda r: True) if rules is None else (lambda r: r in rules)
    mdf = md_containers(ctx, cls)
    methods = [(n, f) for n, f in ctx.entry_methods(cls) if n not in ('__init__', '__str__')]
    cname = cls.name
    for mname, fn in methods:
        if any(d for d in fn.node.decorator_list if getattr(d, 'id', None) == 'property'):
            continue
        paths = ctx.paths(fn, cls)
        R.count('paths', len(paths))
        R.count('functions', 1)
        con = ctx.construct(fn)
        is_update = mname == 'update'
        # (a plain generator helper is a coroutine fragment: driven by `yield from`, its yields suspend the driving coroutine)
        coro = fn.is_coro or fn.is_generator
        acc = {}

        def rep(rule, token, ok, detail='', line=None, evs=None):
            if not want(rule):
                return
            k = (rule, token)
            cur = acc.get(k)
            if cur is None:
                acc[k] = [ok, detail, line, evs, 1]
            else:
                cur[4] += 1
                if cur[0] and not ok:
                    cur[0], cur[1], cur[2], cur[3] = ok, detail, line, evs

        for st, status in paths:
            evs = st.events
            failure = is_failure(evs, status)
            empty_token = cond_false(evs, len(evs), lambda a: a == 'metadata')
            # ------------------------------------------------------------ HOLD-BEFORE-ESCAPE
            if is_update or mname == '_insert_job':
                i_ret = next((i for i, e in enumerate(evs) if e.kind == 'RET' and has(e.b, 'md')), None)
                first_sus = next((i for i, e in enumerate(evs) if e.kind == 'SUS'), None)
                trig = None
                for i, e in enumerate(evs):
                    if e.kind == 'ST' and has(e.b, 'md'):
                        trig = (i, 'stored into self.%s' % e.a)
                        break
                    if e.kind == 'DEFER' and has(e.b, 'md'):
                        trig = (i, 'handed to %s' % e.a)
                        break
                    if e.kind == 'SELFCALL' and e.c in ('async', 'gen') and has(e.b, 'md'):
                        trig = (i, 'escapes into un-awaited coroutine %s' % e.a)
                        break
                    if e.kind == 'CLOSURE' and has(e.b, 'md'):
                        trig = (i, 'captured by a closure')
                        break
                    if coro and e.kind == 'EM' and has(e.b, 'md') and any(
                            x.kind == 'SUS' and has(x.b, 'emit@%d' % e.line) for x in evs[i + 1:]):
                        # the emitter gives up its own hold as soon as update() has returned its future (EMIT-REL-TIMING), so a
                        # node that waits for downstream must hold the element itself while it waits
                        trig = (i, 'emitted and awaited by this coroutine')
                        break
                    if first_sus is not None and i > first_sus and e.kind in ('EM', 'REL', 'ST', 'DEFER') and has(e.b, 'md'):
                        trig = (i, 'used after a suspension (%s)' % e.kind)
                        break
                if trig is not None and mname == 'update':
                    bad = i_ret is None or i_ret > trig[0] or (first_sus is not None and first_sus < i_ret)
                    rep('HOLD-BEFORE-ESCAPE', 'metadata', not bad,
                        'metadata %s without a preceding retain' % trig[1] if bad else '', evs[trig[0]].line, evs)
                # -------------------------------------------------------- LINEAR-HOLD / RETAIN-ONCE
                rets = [i for i, e in enumerate(evs) if e.kind == 'RET' and has(e.b, 'md')]
                if rets and mname == 'update':
                    rep('RETAIN-ONCE', 'metadata',
                        len(rets) == 1 and evs[rets[0]].c is None,
                        'metadata retained %d time(s) on one path / with explicit n=%s' % (len(rets), evs[rets[0]].c),
                        evs[rets[0]].line, evs)
                    if not failure and not empty_token and status in EXIT_STATUSES_NORMAL:
                        after = evs[rets[0] + 1:]
                        ok = any((e.kind == 'ST' and has(e.b, 'md')) or (e.kind == 'REL' and has(e.b, 'md'))
                                 or (e.kind in ('DEFER', 'CLOSURE') and has(e.b, 'md'))
                                 or (e.kind == 'SELFCALL' and e.c in ('async', 'gen') and has(e.b, 'md'))
                                 for e in after)
                        conds = ' & '.join('%s=%s' % (c.a, c.b) for c in evs if c.kind == 'COND' and c.c is None)[-160:]
                        rep('LINEAR-HOLD', 'metadata', ok,
                            'retained, then neither stored nor released nor handed on, on the path [%s]' % conds,
                            evs[rets[0]].line, evs)
            # ------------------------------------------------------------ EMIT-AFTER-REL
            for i, e in enumerate(evs):
                if e.kind != 'EM' or not e.b:
                    continue
                toks = {t for t in e.b if t == 'md' or t.startswith(('field:', 'take:'))}
                for j in range(i):
                    r_ = evs[j]
                    if r_.kind == 'REL' and r_.b and isinstance(r_.x.get('arg'), ast.Name) and isinstance(e.x.get('md'), ast.Name) \
                            and r_.x['arg'].id == e.x['md'].id and (toks & set(r_.b)) \
                            and not any(x.kind == 'RET' and x.b and (set(x.b) & toks) for x in evs[j:i]) \
                            and not any(x.kind == 'LADD' and x.a == r_.x['arg'].id for x in evs[j:i]) \
                            and not any(x.kind == 'ITER' for x in evs[j:i]):       # (a new iteration re-binds the name)
                        rep('EMIT-AFTER-REL', e.x['md'].id, False,
                            '`%s` is released at line %d and emitted afterwards at line %d' % (e.x['md'].id, r_.line, e.line),
                            e.line, evs)
                        break
                else:
                    if isinstance(e.x.get('md'), ast.Name):
                        rep('EMIT-AFTER-REL', e.x['md'].id, True)
            # ------------------------------------------------------------ SCRATCH-SLOT
            for i, e in enumerate(evs):
                if e.kind != 'REL' or not isinstance(e.x.get('arg'), ast.Subscript):
                    continue
                a_ = e.x['arg']
                fld = self_field(a_)
                if fld is None or (cname, fld) not in SCRATCH_OVERWRITE or isinstance(a_.slice, ast.Constant):
                    continue
                R.table('SCRATCH_OVERWRITE', {'%s.%s' % k: v for k, v in SCRATCH_OVERWRITE.items()})
                guarded = cond_false(evs, i, lambda a: a.replace(' ', '') == 'whoisself.lossless')
                rep('SCRATCH-SLOT', fld, guarded,
                    'self.%s[<slot of the arriving element>] is released although the element may belong to the lossless '
                    'upstream, whose slot content was already released right after its emission: released twice (count below '
                    'zero, or a still buffered element completed early)' % fld, e.line, evs)
            # ------------------------------------------------------------ REL-WHILE-BUFFERED
            # the incoming element was put into one of the node's containers on this path and is still there: releasing *its*
            # metadata (instead of what it replaced / nothing) completes an element that is still waiting in the buffer
            if is_update:
                for i, e in enumerate(evs):
                    if e.kind != 'REL' or not has(e.b, 'md') or not isinstance((e.x or {}).get('arg'), ast.Name):
                        continue
                    stores = [j for j in range(i) if evs[j].kind == 'ST' and has(evs[j].b, 'md') and evs[j].c in ('setitem', 'append', 'extend', 'assign')
                              and evs[j].a in mdf]
                    if not stores:
                        rep('REL-WHILE-BUFFERED', 'metadata', True)
                        continue
                    j = stores[-1]
                    gone = any(x.kind == 'TK' and x.a == evs[j].a for x in evs[j + 1:i]) or \
                        any(x.kind == 'ST' and x.a == evs[j].a and x.c in ('reset',) for x in evs[j + 1:i]) or \
                        any(x.kind == 'EM' for x in evs[j + 1:i])
                    rep('REL-WHILE-BUFFERED', 'metadata', gone,
                        'the incoming metadata was stored into self.%s at line %d and is released at line %d while it is still '
                        'there: the element is reported complete while it waits in the buffer (and is released again when it '
                        'leaves)' % (evs[j].a, evs[j].line, e.line), e.line, evs)
            # ------------------------------------------------------------ NO-DOUBLE-REL
            rels = [(i, e) for i, e in enumerate(evs) if e.kind == 'REL']
            for a in range(len(rels)):
                for b in range(a + 1, len(rels)):
                    (i, e1), (j, e2) = rels[a], rels[b]
                    if e1.a == e2.a and e1.b == e2.b and e1.b:
                        between = evs[i + 1:j]
                        reacq = any(x.kind in ('ITER', 'TK', 'RET') or (x.kind == 'ST' and x.c in ('setitem', 'assign'))
                                    for x in between)
                        if not reacq:
                            rep('NO-DOUBLE-REL', e1.a, False, 'released twice with nothing re-acquired in between', e2.line, evs)
                        else:
                            rep('NO-DOUBLE-REL', e1.a, True)
            if len(rels) == 1:
                rep('NO-DOUBLE-REL', rels[0][1].a, True)
            # ------------------------------------------------------------ REMOVE-RELEASES
            if not failure and mdf:
                for i, e in enumerate(evs):
                    removal = None
                    if e.kind == 'TK' and e.a in mdf:
                        removal = e.c
                    elif e.kind == 'ST' and e.a in mdf and e.c in ('assign', 'setitem', 'reset'):
                        # a swap-reset is judged at its TK event
                        if any(x.kind == 'TK' and x.a == e.a and x.c == 'swap' and x.line == e.line for x in evs[:i]):
                            continue
                        removal = 'overwrite'
                    if removal is None:
                        continue
                    token = '%s.%s' % (e.a, removal)
                    fieldtag = 'field:' + e.a
                    if removal == 'overwrite':
                        if (cname, e.a) in SCRATCH_OVERWRITE and (e.x.get('key') == '0' or cond_true(
                                evs, i, lambda a: a == 'who is self.lossless')):
                            R.table('SCRATCH_OVERWRITE', {'%s.%s' % k: v for k, v in SCRATCH_OVERWRITE.items()})
                            continue
                        key = e.x.get('key')
                        prior_pop = any(x.kind == 'TK' and x.a == e.a and x.c in ('pop', 'del') for x in evs[:i])
                        notin = cond_false(evs, i, lambda a: ' in self.' in a) or cond_true(evs, i, lambda a: ' not in self.' in a)
                        slot_empty = cond_false(evs, i, lambda a: a.startswith('self.' + e.a)) or any(
                            c.kind == 'COND' and c.b is False and fieldtag in ((c.x or {}).get('tags') or ()) for c in evs[:i])
                        fresh_key = mname == '_add_upstream'      # no parallel edges (C15's premise): key is new
                        if prior_pop or notin or slot_empty or fresh_key:
                            continue
                        ok = any(x.kind == 'REL' and has(x.b, fieldtag) for x in evs[:i])
                        rep('REMOVE-RELEASES', token, ok, 'slot self.%s overwritten while it may still hold a retained value' % e.a,
                            e.line, evs)
                        continue
                    if removal in ('remove', 'discard') and not (e.x or {}).get('sub'):
                        # set/list membership removal of a non-metadata member is not a metadata removal
                        pass
                    taketag = 'take:%s@%d' % (e.a, e.line)
                    ok = any(x.kind == 'REL' and (has(x.b, taketag)) for x in evs)
                    if not ok:
                        # peek-then-pop / copy-then-clear: content was read from the field and released
                        ok = any(x.kind == 'REL' and has(x.b, fieldtag) for x in evs)
                    if not ok:
                        # the list that is released is built in a loop over values read from this field and that loop ran
                        # zero times on this path (the taken entries carried no metadata): nothing is owed
                        ok = any(x.kind == 'REL' for x in evs) and any(
                            x.kind == 'LOOPEXIT' and x.a == 0 and x.c == 'cond' and fieldtag in ((x.x or {}).get('iter_tags') or ())
                            for x in evs)
                    if not ok:
                        # ... or the released list is a local that only explicit loops fill (tags empty) and one of the
                        # filling loops ran zero times on this path
                        ok = any(x.kind == 'REL' and not x.b and isinstance((x.x or {}).get('arg'), ast.Name) for x in evs) and any(
                            x.kind == 'LOOPEXIT' and x.a == 0 and x.c == 'cond' and (x.x or {}).get('node') is not None and any(
                                isinstance(y, ast.Call) and isinstance(y.func, ast.Attribute) and y.func.attr in ('append', 'extend')
                                and isinstance(y.func.value, ast.Name) for y in ast.walk(x.x['node']))
                            for x in evs)
                    if not ok:
                        # field-to-field transfer: the taken value was moved into another container
                        ok = any(x.kind == 'ST' and has(x.b, taketag) and x.a != e.a for x in evs) and \
                            any(x.kind == 'REL' for x in evs)
                    if not ok:
                        # truthiness-guarded release: on the path where the taken value tested falsy
                        # nothing was there, so nothing is owed
                        ok = any(x.kind == 'COND' and x.b is False and taketag in _cond_tags(st, x) for x in evs[i:])
                    if not ok:
                        # `for .. in <taken>: release(..)`: on the zero-iteration path the taken container was empty
                        tknode = (e.x or {}).get('node')
                        for xi, x in enumerate(evs[i:], i):
                            if x.kind == 'LOOPEXIT' and x.a == 0 and x.c == 'cond' and x.x and tknode is not None:
                                loop = x.x['node']
                                it = getattr(loop, 'iter', None)
                                via_helper = False
                                if it is not None and x.depth > 0 and isinstance(it, ast.Name):
                                    # the loop lives in a helper that was handed the taken value: map its parameter back
                                    from ..paths import caller_expr
                                    ce = caller_expr(evs, xi, it)
                                    via_helper = ce is not None and any(n is tknode for n in ast.walk(ce))
                                if it is not None and (via_helper or any(n is tknode for n in ast.walk(it)) or taketag in st_tags_of(st, it)):
                                    body_rel = any(isinstance(n, ast.Call) and isinstance(n.func, ast.Attribute)
                                                   and n.func.attr == '_release_refs' for n in ast.walk(loop))
                                    if body_rel:
                                        ok = True
                    rep('REMOVE-RELEASES', token, ok, 'value removed from self.%s is never released on this path' % e.a,
                        e.line, evs)
            # ------------------------------------------------------------ REL-AFTER-AWAIT
            for i, e in enumerate(evs):
                if e.kind != 'REL' or not e.b:
                    continue
                ems = [j for j in range(i) if evs[j].kind == 'EM' and evs[j].b and (evs[j].b & e.b)
                       and not any(x.kind == 'EXC' and x.x and x.x.get('source') is evs[j] for x in evs[j:i])]
                if not ems:
                    continue
                j = ems[-1]
                emtag = 'emit@%d' % evs[j].line
                if coro:
                    awaited = any(x.kind == 'SUS' and has(x.b, emtag) for x in evs[j + 1:i])
                    guarded_empty = any(x.kind == 'COND' and x.b is False and x.x and
                                        emtag in _cond_tags(st, x) for x in evs[j + 1:i])

                    rep('REL-AFTER-AWAIT', e.a, awaited or guarded_empty,
                        'release of %s before the awaitable of the emission at line %d was awaited' % (e.a, evs[j].line),
                        e.line, evs)
                elif not (cname == 'Stream' and mname == '_emit'):
                    returned = any(x.kind == 'RETURN' and has(x.b, emtag) for x in evs[i:]) or \
                        any(x.kind == 'LADD' and has(x.b, emtag) for x in evs[j:]) and \
                        (any(x.kind == 'RETURN' for x in evs[i:]) or status == 'loopcut')    # (the return lies beyond the unrolling cut)
                    table_exc = (cname, mname) in DROPPED_EMIT_OK
                    if table_exc:
                        R.table('DROPPED_EMIT_OK', {'%s.%s' % k: v for k, v in DROPPED_EMIT_OK.items()})
                    rep('REL-AFTER-AWAIT', e.a, returned or table_exc,
                        'plain function releases %s after emitting but does not hand the emission\'s awaitables '
                        'back to its caller' % e.a, e.line, evs)
            # ------------------------------------------------------------ NO-REL-ON-FAIL
            exc_i = next((i for i, e in enumerate(evs) if e.kind == 'EXC'), None)
            if exc_i is not None:
                srcev = (evs[exc_i].x or {}).get('source')
                for e in evs[exc_i:]:
                    if e.kind == 'ITER':
                        break           # the next iteration handles the next element
                    if e.kind == 'REL':
                        rep('NO-REL-ON-FAIL', e.a, False,
                            'release of %s reachable after an exception raised at line %d (%s)'
                            % (e.a, evs[exc_i].line, evs[exc_i].a), e.line, evs)
            for e in evs:
                if e.kind == 'REL' and exc_i is None:
                    rep('NO-REL-ON-FAIL', e.a, True)
            # ------------------------------------------------------------ REL-SHAPE
            for e in evs:
                if e.kind in ('EM', 'REL', 'RET'):
                    sh = e.x.get('md_shape') if e.kind == 'EM' else e.x.get('shape')
                    if e.kind == 'EM' and e.x.get('md') is None:
                        continue
                    if sh in (NESTED, 'OVERFLAT') or (isinstance(sh, tuple)):
                        rep('REL-SHAPE', '%s:%s' % (e.kind, e.a), False,
                            'metadata argument %s has shape %s (not a flat list of dicts)' % (e.a, sh if not isinstance(sh, tuple) else sh[0]),
                            e.line, evs)
                    elif sh in (FLAT, NONE):
                        rep('REL-SHAPE', '%s:%s' % (e.kind, e.a), True)
                    elif sh == SCALAR and e.kind in ('REL', 'RET') and not cond_false(evs, len(evs), lambda a: a.startswith('isinstance(')):
                        rep('REL-SHAPE', '%s:%s' % (e.kind, e.a), True)
                    else:
                        R.count('shape_undecided', 1)
        for (rule, token), (ok, detail, line, evs, n) in acc.items():
            R.ob(rule, con, token, ok, detail, ctx.where(fn, line) if line else None,
                 fmt_path(evs) if (evs is not None and not ok) else None, n)


# call sites allowed to drop the awaitables of an emission (C03 table, reasoned)
DROPPED_EMIT_OK = {
    ('collect', 'flush'): 'invoked as a user callback (flush signal), a buffering node by documentation: '
                          'its emission is not part of any producer\'s update()',
}


def st_tags_of(st, node):
    out = set()
    for n in ast.walk(node):
        if isinstance(n, ast.Name):
            out |= set(st.env.get(n.id, ()))
    return out


def _cond_tags(st, cond_ev):
    """tags of the value whose *truthiness* was tested (bare name, or len(name)); other predicates
    (isawaitable(x), x is None ...) say nothing about the value being empty"""
    x = cond_ev.x or {}
    if 'tags' in x:
        # recorded when the test was evaluated (right environment even inside a spliced helper); only plain
        # truthiness tests of a name / attribute / subscript / len(..) carry tags
        return set(x['tags'])
    node = x.get('node')
    out = set()
    if node is None:
        return out
    if isinstance(node, ast.Call) and isinstance(node.func, ast.Name) and node.func.id == 'len' and node.args:
        node = node.args[0]
    if isinstance(node, ast.Name):
        out |= set(st.env.get(node.id, ()))
    return out


def _names_with_tag(evs, j, i, tag, st):
    return {k for k, v in st.env.items() if tag in v}


def _resolve_snapshot(fn, node):
    from .idioms import local_defs
    d = local_defs(fn.node)
    hops = 0
    while isinstance(node, ast.Name) and len(d.get(node.id, [])) == 1 and d[node.id][0] is not None and hops < 3:
        node = d[node.id][0]
        hops += 1
    return ast.unparse(node).replace(' ', '')


def _counts_downstreams(fn, count_src):
    """the retain count is len(self.downstreams), or len(<local snapshot of self.downstreams>)"""
    try:
        node = ast.parse(count_src, mode='eval').body
    except SyntaxError:
        return False
    if isinstance(node, ast.Name):
        # fanout = len(self.downstreams) ; self._retain_refs(metadata, fanout)
        from .idioms import local_defs
        d = local_defs(fn.node).get(node.id, [])
        if len(d) == 1 and d[0] is not None:
            node = d[0]
    if not (isinstance(node, ast.Call) and isinstance(node.func, ast.Name) and node.func.id == 'len' and len(node.args) == 1):
        return False
    return _resolve_snapshot(fn, node.args[0]) in ('self.downstreams', 'list(self.downstreams)', 'tuple(self.downstreams)')


# ----------------------------------------------------------------------------- Stream._emit
def check_emit(ctx, R):
    """EMIT-BALANCE, NO-REL-ON-FAIL and EMIT-REL-TIMING on Stream._emit"""
    M = ctx.model
    fn = M.method('streamz.core', 'Stream', '_emit')
    cls = M.stream
    con = ctx.construct(fn)
    paths = ctx.paths(fn, cls)
    R.count('paths', len(paths))
    from .delivery import delivery_loops
    dls = delivery_loops(cls, fn)
    dl_nodes = [l for _, l, _, _ in dls]
    bal_ok, bal_detail, bal_line, bal_evs = True, '', None, None
    timing_bad = None
    n_loop_paths = 0
    for st, status in paths:
        evs = st.events
        if any(e.kind == 'EXC' for e in evs):
            continue
        rets = [e for e in evs if e.kind == 'RET']
        iters = [i for i, e in enumerate(evs) if e.kind == 'ITER' and e.x.get('node') in dl_nodes]
        md_true = cond_true(evs, len(evs), lambda a: a == 'metadata')
        if md_true:
            if len(rets) != 1 or rets[0].c is None or not _counts_downstreams(fn, rets[0].c):
                bal_ok, bal_detail, bal_line, bal_evs = False, 'up-front retain is not exactly len(self.downstreams) (found %s)' % (
                    [r.c for r in rets]), (rets[0].line if rets else fn.node.lineno), evs
        elif rets:
            bal_ok, bal_detail, bal_line, bal_evs = False, 'retain on the empty-metadata path', rets[0].line, evs
        if not iters:
            continue
        n_loop_paths += 1
        ends = [i for i, e in enumerate(evs) if e.kind in ('LOOPEXIT', 'LOOPCUT') and e.x and e.x.get('node') in dl_nodes
                and i > iters[-1]]
        bounds = iters + [min(ends or [len(evs)])]
        for a, b in zip(bounds, bounds[1:]):
            seg = evs[a:b]
            calls = [k for k, e in enumerate(seg) if e.kind == 'CALL' and e.c == 'update']
            rels = [k for k, e in enumerate(seg) if e.kind == 'REL' and e.c is None]
            if len(calls) != 1:
                bal_ok, bal_detail, bal_line, bal_evs = False, 'loop body calls downstream.update %d times' % len(calls), seg[0].line, evs
                continue
            if md_true and (len(rels) != 1 or rels[0] < calls[0]):
                bal_ok, bal_detail, bal_line, bal_evs = False, \
                    'per-downstream release count is %d (or precedes the update call)' % len(rels), seg[0].line, evs
            if rels and rels[0] > calls[0]:
                # is the release ordered after completion of what update() returned?
                between = seg[calls[0] + 1:rels[0]]
                if not any(e.kind == 'SUS' for e in between):
                    timing_bad = (seg[rels[0]].line, evs)
    # the loop iterates the same field whose length was retained (possibly through one local snapshot / a helper)
    if len(dls) != 1:
        bal_ok, bal_detail, bal_line = False, 'expected one delivery loop over self.downstreams, found %d' % len(dls), fn.node.lineno
    if n_loop_paths == 0:
        from ..model import AnalysisError
        raise AnalysisError('no delivery loop found in Stream._emit')
    R.ob('EMIT-BALANCE', con, 'metadata', bal_ok, bal_detail, ctx.where(fn, bal_line) if bal_line else None,
         fmt_path(bal_evs) if bal_evs else None, len(paths))
    # failure edges
    bad = None
    for st, status in paths:
        evs = st.events
        ei = next((i for i, e in enumerate(evs) if e.kind == 'EXC'), None)
        if ei is not None:
            for e in evs[ei:]:
                if e.kind == 'REL':
                    bad = (e.line, evs)
    # also: a release in a finally / handler is syntactically visible even without try-path enumeration
    R.ob('NO-REL-ON-FAIL', con, 'metadata', bad is None,
         'release reachable after downstream.update() raised' if bad else '', ctx.where(fn, bad[0]) if bad else None,
         fmt_path(bad[1]) if bad else None, len(paths))
    R.ob('EMIT-REL-TIMING', con, 'metadata', timing_bad is None,
         'hold released when update() returns, not when the awaitable it returned completes '
         '(an asynchronous sink is still running when the completion callback fires)' if timing_bad else '',
         ctx.where(fn, timing_bad[0]) if timing_bad else None, fmt_path(timing_bad[1]) if timing_bad else None, len(paths))


# ----------------------------------------------------------------------------- class-level
def check_in_flight(ctx, R, cls):
    """REL-WHILE-IN-FLIGHT and EMITTED-STILL-HELD"""
    mdf = md_containers(ctx, cls)
    if not mdf:
        return
    # which fields have their content released by some method (REL of a value read in place)
    released_in_place = {}
    for name, fn in ctx.entry_methods(cls):
        if name == '__init__':
            continue
        for st, status in ctx.paths(fn, cls):
            for e in st.events:
                if e.kind == 'REL' and e.b:
                    for t in e.b:
                        if t.startswith('field:') and t[6:] in mdf and not any(
                                u.startswith('take:' + t[6:] + '@') for u in e.b):
                            released_in_place.setdefault(t[6:], set()).add(name)
    for name, fn in ctx.entry_methods(cls):
        if name == '__init__' or not fn.is_coro:
            continue
        con = ctx.construct(fn)
        for st, status in ctx.paths(fn, cls):
            evs = st.events
            for i, e in enumerate(evs):
                if e.kind != 'EM' or not e.b:
                    continue
                inplace = [t[6:] for t in e.b if t.startswith('field:') and t[6:] in mdf
                           and not any(u.startswith('take:' + t[6:] + '@') for u in e.b)]
                if not inplace:
                    continue
                suspended = any(x.kind == 'SUS' for x in evs[i + 1:])
                if not suspended:
                    continue
                for f in inplace:
                    others = released_in_place.get(f, set()) - {name}
                    if len(mdf) == 1:
                        # identity of a finding survives a renaming of the field: it is the class's only metadata slot
                        if not hasattr(R, 'roles'):
                            R.roles = {}
                        R.roles[('REL-WHILE-IN-FLIGHT', con, f)] = 'only-metadata-slot'
                        R.roles[('EMITTED-STILL-HELD', con, f)] = 'only-metadata-slot'
                    R.ob('REL-WHILE-IN-FLIGHT', con, f, not others,
                         'emits self.%s in place and suspends on the emission while %s releases that field\'s content'
                         % (f, ', '.join(sorted(others))), ctx.where(fn, e.line), fmt_path(evs) if others else None, 1)
                    # EMITTED-STILL-HELD: after the awaited emission nothing in this coroutine gives the hold up
                    later = evs[i + 1:]
                    gives_up = any((x.kind == 'REL' and has(x.b, 'field:' + f)) or
                                   (x.kind == 'TK' and x.a == f) for x in later)
                    if cls.name not in COMBINING:
                        R.ob('EMITTED-STILL-HELD', con, f, gives_up,
                             'slot self.%s is emitted but its hold is kept until the next element replaces it' % f,
                             ctx.where(fn, e.line), fmt_path(evs) if not gives_up else None, 1)
                    else:
                        R.table('COMBINING', sorted(COMBINING))


# ----------------------------------------------------------------------------- DROP-TABLE
# (class, method) -> why releasing a buffered element that was never emitted is what the node is for at that site
DROP_OK = {
    ('zip', '_remove_upstream'): 'the input is disconnected: what it had buffered can never be paired any more',
    ('combine_latest', '_remove_upstream'): 'the input is disconnected: its latest value leaves the node',
    ('partition_unique', 'update'): 'keep="last": the buffered duplicate is superseded by the arriving element',
    ('timed_window_unique', 'update'): 'keep="last": the buffered duplicate is superseded by the arriving element',
}


def check_drop_table(ctx, R, classes):
    """who-may-drop rule, on event paths: a release whose value carries a take tag (it came out of a container of the node)
    on a path that has emitted nothing before it is a *drop*.  Drops are allowed only at the sites
    of DROP_OK; a path on which the element's processing raised is not a drop (NO-REL-ON-FAIL judges those)."""
    R.table('DROP_OK', {'%s.%s' % k: v for k, v in DROP_OK.items()})
    for cls in classes:
        for mname, fn in ctx.entry_methods(cls):
            if mname in ('__init__', '__str__'):
                continue
            paths = ctx.paths(fn, cls)
            drop, n = None, 0
            for st, status in paths:
                evs = st.events
                for i, e in enumerate(evs):
                    if e.kind != 'REL' or not e.b or isinstance(e.b, (bool, str)):
                        continue
                    takes = {t for t in e.b if t.startswith('take:')}
                    if not takes:
                        continue
                    n += 1
                    # (any emission on the path counts: what exactly a helper-built emission carries is not traced here -
                    # META-MEMBERS / PAIRED-BUFFER decide that - a *drop* is a release on a path that emitted nothing at all)
                    emitted = any(x.kind == 'EM' for x in evs[:i])
                    failed = any(x.kind == 'EXC' for x in evs[:i])
                    if not emitted and not failed and drop is None:
                        drop = (e, evs)
            if n == 0:
                continue
            allowed = (cls.name, mname) in DROP_OK
            R.ob('DROP-TABLE', ctx.construct(fn), 'drops', drop is None or allowed,
                 '%s.%s releases an element it took out of a buffer without ever having emitted it (line %d): the completion '
                 'callback fires for data that was dropped, not delivered (not one of the sites listed in DROP_OK)'
                 % (cls.name, mname, drop[0].line if drop else 0), ctx.where(fn, drop[0].line) if drop else None,
                 fmt_path(drop[1]) if drop and not allowed else None, n)
