"""C02 asynchronous timing never changes what lossless pipelines deliver (structural clauses)"""
from ..rules import delivery, flow
from .common import declare

RULES = ['SINGLE-CONSUMER', 'SERIAL-DRAIN', 'FIFO-END', 'SWAP-ATOMIC', 'ATOMIC-RMW', 'AWAITABLE-SHARE', 'EMIT-SIG', 'BOUND-PLUMB', 'NOTIFY-ON-FREE', 'ARM-CANCEL',
         'APPEND-THEN-TEST', 'ARM-ON-FIRST', 'AWAITABLE-RESULT', 'PROPAGATE', 'EAGER-UPDATE', 'CANCEL-ONLY-TIMERS']
FLOORS = {'SINGLE-CONSUMER': 4, 'SERIAL-DRAIN': 6, 'FIFO-END': 10, 'SWAP-ATOMIC': 6, 'ATOMIC-RMW': 1, 'AWAITABLE-SHARE': 1,
          'EMIT-SIG': 30, 'CANCEL-ONLY-TIMERS': 1, 'AWAITABLE-RESULT': 1}

META = {
    'level': "Static analysis of the cooperative-scheduling discipline of every asynchronous node: one consumer coroutine per "
             "queue scheduled from a once-only or guarded site (SINGLE-CONSUMER), which awaits downstream before taking the next "
             "element (SERIAL-DRAIN), FIFO queue classes and buffer ends (FIFO-END), flush swap with no suspension between read "
             "and reset (SWAP-ATOMIC), no stale read-modify-write across a suspension (ATOMIC-RMW), shared awaitables are Futures "
             "(AWAITABLE-SHARE), exactly one emission per dequeued element (EMIT-SIG). These shapes are necessary for "
             "schedule-independence; the order under every interleaving of several un-awaited producers is not decided.",
    'note': "Trusted: suspension points = yield/await; tornado Queue / asyncio.Queue are FIFO; table entry map_async.start "
            "(replaces its consumer after signalling the old one).",
    'technique': "static analysis: event paths of coroutines + scheduling-site census (SINGLE-CONSUMER, SERIAL-DRAIN, "
                 "FIFO-END, SWAP-ATOMIC, ATOMIC-RMW, AWAITABLE-SHARE)",
}


def run(ctx, R):
    R.explanation = ('Scheduling-discipline rules over all coroutine methods of streamz.core/sinks node classes; suspension '
                     'points are yield/await. Decides structural necessary conditions of schedule-independence only.')
    R.not_decided = ['delivery order under every interleaving of several un-awaited producers', 'batch contents']
    declare(R, {**delivery.RULES, **flow.RULES}, RULES, FLOORS)
    M = ctx.model
    core = [c for c in M.nodes if c.module.name in ('streamz.core', 'streamz.sinks')]
    R.run(delivery.check_single_consumer, ctx, R, core)
    R.run(delivery.check_serial_drain, ctx, R, core)
    R.run(delivery.check_fifo_end, ctx, R, core)
    R.run(delivery.check_swap_atomic, ctx, R, core)
    R.run(delivery.check_atomic_rmw, ctx, R, [(c, f) for c in core for f in c.methods.values()])
    R.run(delivery.check_awaitable_share, ctx, R, core)
    R.run(delivery.check_emit_sig, ctx, R, core)
    flow.check_bound_plumb(ctx, R)        # map_async's slot wait is also what keeps its jobs in arrival order
    delivery.check_partition_timer(ctx, R)  # partition with a timeout
    R.run(flow.check_awaitable_result, ctx, R, core)
    R.run(delivery.check_eager_update, ctx, R, [c for c in core if c.module.name == 'streamz.core'])
    # an emission whose awaitables are neither awaited nor handed back is never run for a native-coroutine consumer
    R.run(flow.check_propagate, ctx, R, modules=('streamz.core', 'streamz.sinks'), note_modules=())
    R.run(delivery.check_cancel_only_timers, ctx, R)
META['level'] += ' CANCEL-ONLY-TIMERS: cancel() is applied to stored timer handles only, never to a task or future that is carrying an element.'
