"""Fold rules for the streaming dataframe aggregations (DESIGN 4.10)."""
import ast
import copy

from ..model import AnalysisError, own_nodes, src, self_field
from ..paths import Interp, fmt_path
from ..symexpr import sym_paths, text
from .holds import is_failure

RULES = {
    'FOLD-PURE': 'fold operators and everything they reach have no effect but their return value: no store to self outside '
                 '__init__, no global/nonlocal, no clock/random read, no in-place mutation of an object reachable from a parameter '
                 'unless a fresh copy intervened (a callee that mutates a parameter is only ever given fresh objects)',
    'BATCH-PURE': 'functions applied to each batch (map_partitions callbacks and helpers of streamz.dataframe / collection) do not '
                  'mutate the batch they are given: sibling consumers of the same stream see the batch unmodified',
    'INITIAL-NEUTRAL': 'Aggregation.initial() takes only the shape from the first batch: no arithmetic on its values (inf/NaN '
                       'would poison the neutral element)',
    'STATE-PLUMB': 'start / with_state given at the public API reach Stream.accumulate: every function that takes them passes them '
                   'on, accumulate_partitions forwards start/returns_state, accumulate seeds self.state from start',
    'CTOR-COPY': 'a method that re-instantiates its helper class forwards every state-bearing field',
    'ACC-CONTRACT': 'with with_state, accumulate emits the very object it has just stored in self.state',
    'FOLD-DERIVE': 'every state component a fold step returns is derived from the incoming state (never a constant injected by a '
                   'guard); boolean latches excepted by table',
    'MIRROR': 'on_old is the algebraic inverse of on_new: same terms with the accumulate operator inverted, same result expression',
    'ACCRUE-DECAY-SIG': 'window accumulators apply on_new at most once per call and on_old exactly once per non-empty decayed chunk, '
                        'the size-state twin in lock-step',
    'DECAY-UNREACHABLE': 'EWMean (whose on_old is a stub) is only constructed by EWM, an Expanding window whose diff never decays',
    'AGG-TABLE': 'each public aggregation method hands over the aggregation class its name promises',
    'REDUCER-NAME': 'each aggregation class uses the pandas reducers its name promises (Count->count, Size->size, Sum->sum, ...)',
    'WINDOW-FIFO': 'window history deques are appended at the right and decayed from the left',
    'CARRY-PLUMB': 'carry-over plumbing of the batch-independent operations: the carried rows are concatenated in front of the '
                   'batch (concat([carry, batch])), the pandas operation runs on that concatenation, exactly the carried rows are '
                   'dropped from its result (rolling: result.iloc[len(carry):]; cumulative: the one seed row), and the new carry '
                   'is a suffix of the concatenation (cumulative: the last row of the result)',
    'EWM-ROWS': 'a per-row operation emits one row per row of the batch, not only the value it carries to the next batch',
    'OPERATOR-TABLE': 'every operator method of OperatorMixin maps to the operator function of its name with its operands in '
                      'the order the Python data model prescribes (reflected methods: swapped); map_partitions rebuilds the '
                      'positional argument order (partial_by_order inserts the non-stream arguments at their recorded positions)',
    'FULL-POSITIONAL': 'Full (the window itself as state) appends the batch with concat([state, batch]) and decays by position: '
                       'state.iloc[len(decayed):] - never by index label, which repeats across batches',
    'DECAY-CONSERVES': 'rows leave the window history only into the decayed list: a frame popped from the left is appended to '
                       'it (or is empty), and when the oldest frame is split the decayed head X[:k] and the kept tail X[k:] are '
                       'complementary slices of the same frame at the same position; in diff_iloc the excess is rows - window, '
                       'a popped frame reduces it by its length and a split consumes exactly the excess',
}

AGG = 'streamz.dataframe.aggregations'
DFC = 'streamz.dataframe.core'
MUTATORS = {'append', 'appendleft', 'extend', 'extendleft', 'pop', 'popleft', 'clear', 'insert', 'remove', 'update', 'sort',
            'reverse', 'add', 'discard', 'setdefault', 'popitem', 'rotate'}
FRESH_CALLS = {'deque', 'list', 'dict', 'set', 'tuple', 'copy', 'deepcopy', 'OrderedDict'}
IMPURE_CALLS = ('time.time', 'time', 'random.', 'np.random.', 'numpy.random.', 'datetime.now', 'Timestamp.now', 'pd.Timestamp.now',
                'datetime.datetime.now', 'uuid.')
AUG_SCALAR_OK = {('EWMean.on_new', 'old_wt'): 'a Python float by construction: initial() supplies the literal 1 and every step '
                                              'returns the float computed here',
                 ('EWMean.on_new', 'result'): 're-bound from a fresh expression each iteration'}
LATCH_OK = {('EWMean', 'on_new', 2): 'boolean latch: initial() supplies True, every step returns the literal False'}
MIRROR_EXCEPT = {'Full': 'concat vs positional drop (not an algebraic inverse by design)',
                 'EWMean': 'on_old is unreachable (DECAY-UNREACHABLE)'}


# the same exception independent of names: state component 1 of EWMean (initial() supplies the literal 1, every step returns
# the float computed from it) may be updated with an augmented assignment on a *local name* that holds it
SCALAR_COMPONENT_OK = {('EWMean', 1): AUG_SCALAR_OK[('EWMean.on_new', 'old_wt')]}


def _state_component(fn, name, depth=0):
    """index of the state component a local / parameter `name` of a method of an aggregation class holds, or None:
    either unpacked from the state parameter (`a, b, c = acc`), or a helper's parameter bound to such a local by every caller"""
    if fn.cls is None or depth > 2:
        return None
    params = fn.params()
    if fn.name in ('on_new', 'on_old') and len(params) > 1:
        accp = params[1]
        for n in own_nodes(fn.node):
            if isinstance(n, ast.Assign) and isinstance(n.value, ast.Name) and n.value.id == accp \
                    and isinstance(n.targets[0], (ast.Tuple, ast.List)):
                for i, t in enumerate(n.targets[0].elts):
                    if isinstance(t, ast.Name) and t.id == name:
                        return i
            # re-bound from a helper's result in the same tuple position it is passed in: stays the same component
        return None
    if name in params:
        idx = params.index(name) - 1
        found = set()
        for caller in fn.cls.methods.values():
            for c in own_nodes(caller.node):
                if isinstance(c, ast.Call) and isinstance(c.func, ast.Attribute) and isinstance(c.func.value, ast.Name) \
                        and c.func.value.id == 'self' and c.func.attr == fn.name and 0 <= idx < len(c.args) \
                        and isinstance(c.args[idx], ast.Name):
                    found.add(_state_component(caller, c.args[idx].id, depth + 1))
        if len(found) == 1:
            return found.pop()
    return None


def fold_functions(model):
    out = []
    for f in model.module(AGG).all_funcs:
        out.append(f)
    core = model.module(DFC)
    for name in ('rolling_accumulator', '_cumulative_accumulator', '_accumulate_mean', '_accumulate_sum', '_accumulate_size'):
        f = core.functions.get(name)
        if f is not None:
            out.append(f)
    return out


# ----------------------------------------------------------------------------- FOLD-PURE
def _root_name(n):
    while isinstance(n, (ast.Attribute, ast.Subscript)):
        n = n.value
    return n.id if isinstance(n, ast.Name) else None


# pandas / numpy operations that return a new object (never their receiver)
NEW_OBJECT_METHODS = {'add', 'sub', 'mul', 'div', 'truediv', 'astype', 'copy', 'sum', 'count', 'size', 'mean', 'fillna', 'reindex',
                      'value_counts', 'concat', 'groupby', 'agg', 'dropna', 'reset_index', 'to_frame'}


def _fresh_arg(a):
    """is the expression a freshly created object (so that a helper may mutate it): a copying constructor, an arithmetic
    expression, or a pandas operation that returns a new object"""
    if isinstance(a, ast.BinOp):
        return True
    if isinstance(a, ast.Call):
        last = src(a.func).split('.')[-1]
        if last in FRESH_CALLS:
            return True
        if isinstance(a.func, ast.Attribute) and last in NEW_OBJECT_METHODS:
            return True
    return False


def _is_fresh_value(v):
    if isinstance(v, ast.Call):
        return True
    if isinstance(v, (ast.BinOp, ast.List, ast.Dict, ast.Tuple, ast.ListComp, ast.DictComp, ast.Constant, ast.UnaryOp, ast.Compare,
                      ast.IfExp, ast.Set, ast.SetComp, ast.JoinedStr, ast.GeneratorExp)):
        return True
    return False


def param_mutations(fn):
    """[(node, name, what)] in-place mutations of param-reachable names.
    Block-structured flow: an unconditional re-binding to a fresh value ends the aliasing for the rest of its block;
    after a nested block the outer aliasing is restored (the other path did not re-bind) and anything aliased inside stays."""
    params = [p for p in fn.params() if p != 'self'] + [a.arg for a in fn.node.args.kwonlyargs]
    out = []
    RETURNING = {'pop', 'popleft', 'popitem', 'setdefault'}

    def check_expr_calls(node, aliased, is_stmt=False):
        for c in ast.walk(node):
            if isinstance(c, (ast.FunctionDef, ast.AsyncFunctionDef, ast.Lambda)):
                continue
            if isinstance(c, ast.Call) and isinstance(c.func, ast.Attribute) and c.func.attr in MUTATORS:
                # container mutators that return None are only meant when their value is discarded
                # (pandas' x.add(y, fill_value=0) is arithmetic and returns a new object)
                if c.func.attr not in RETURNING and not (is_stmt and c is node):
                    continue
                r = _root_name(c.func.value)
                if r in aliased and not isinstance(c.func.value, ast.Call):
                    out.append((c, r, '%s.%s(...)' % (src(c.func.value), c.func.attr)))
            if isinstance(c, ast.Call):
                for k in c.keywords:
                    if k.arg == 'inplace' and isinstance(k.value, ast.Constant) and k.value.value is True:
                        r = _root_name(c.func.value) if isinstance(c.func, ast.Attribute) else None
                        if r in aliased:
                            out.append((c, r, '%s(inplace=True)' % src(c.func)))

    def walk(block, aliased):
        for s in block:
            if isinstance(s, ast.Assign):
                check_expr_calls(s.value, aliased)
                for t in s.targets:
                    if isinstance(t, (ast.Subscript, ast.Attribute)):
                        r = _root_name(t)
                        if r in aliased and r != 'self':
                            out.append((s, r, 'store into %s' % src(t)))
                for t in s.targets:
                    names = [t] if isinstance(t, ast.Name) else (
                        [e for e in t.elts if isinstance(e, ast.Name)] if isinstance(t, (ast.Tuple, ast.List)) else [])
                    v = s.value
                    derives = False
                    if isinstance(v, ast.Name) and v.id in aliased:
                        derives = True
                    elif isinstance(v, ast.Subscript) and _root_name(v) in aliased and not isinstance(v.slice, ast.Slice):
                        derives = True
                    elif isinstance(v, ast.Attribute) and _root_name(v) in aliased:
                        derives = True
                    for nm in names:
                        if derives:
                            aliased.add(nm.id)
                        elif _is_fresh_value(v):
                            aliased.discard(nm.id)
            elif isinstance(s, ast.AugAssign):
                check_expr_calls(s.value, aliased)
                r = _root_name(s.target)
                if r in aliased and r != 'self':
                    out.append((s, r, 'augmented assignment %s' % src(s)[:40]))
            elif isinstance(s, ast.Delete):
                for t in s.targets:
                    r = _root_name(t)
                    if r in aliased and isinstance(t, (ast.Subscript, ast.Attribute)):
                        out.append((s, r, 'del %s' % src(t)))
            elif isinstance(s, (ast.Expr, ast.Return)):
                if s.value is not None:
                    check_expr_calls(s.value, aliased, is_stmt=isinstance(s, ast.Expr))
            elif isinstance(s, (ast.If, ast.While)):
                check_expr_calls(s.test, aliased)
                before = set(aliased)
                inner = set()
                for arm in (s.body, s.orelse):
                    a2 = set(before)
                    walk(arm, a2)
                    inner |= a2
                aliased.clear()
                aliased.update(before | inner)
            elif isinstance(s, (ast.For, ast.AsyncFor)):
                check_expr_calls(s.iter, aliased)
                before = set(aliased)
                a2 = set(before)
                for e in ast.walk(s.target):
                    if isinstance(e, ast.Name):
                        if _root_name(s.iter) in aliased and not isinstance(s.iter, ast.Call):
                            a2.add(e.id)
                        else:
                            a2.discard(e.id)
                walk(s.body, a2)
                walk(s.orelse, a2)
                aliased.clear()
                aliased.update(before | a2)
            elif isinstance(s, ast.Try):
                before = set(aliased)
                inner = set()
                for arm in [s.body, s.orelse, s.finalbody] + [h.body for h in s.handlers]:
                    a2 = set(before)
                    walk(arm, a2)
                    inner |= a2
                aliased.clear()
                aliased.update(before | inner)
            elif isinstance(s, (ast.With, ast.AsyncWith)):
                walk(s.body, aliased)

    walk(fn.node.body, set(params))
    return out, params


def check_fold_pure(ctx, R):
    M = ctx.model
    funcs = fold_functions(M)
    R.table('AUG_SCALAR_OK', {'%s:%s' % k: v for k, v in AUG_SCALAR_OK.items()})
    mutating = {}       # (function name, param index) -> node
    for fn in funcs:
        con = ctx.construct(fn)
        probs = []
        for n in own_nodes(fn.node):
            if isinstance(n, (ast.Global, ast.Nonlocal)):
                probs.append((n, 'global/nonlocal write'))
            if isinstance(n, (ast.Assign, ast.AugAssign)) and fn.name != '__init__':
                for t in (n.targets if isinstance(n, ast.Assign) else [n.target]):
                    for e in ([t] if not isinstance(t, (ast.Tuple, ast.List)) else t.elts):
                        if self_field(e) is not None:
                            probs.append((n, 'stores into self.%s (fold steps must not keep state on the aggregation object)' % self_field(e)))
            if isinstance(n, ast.Call):
                f = src(n.func)
                if f == 'setattr' and fn.name != '__init__':
                    probs.append((n, 'setattr outside __init__'))
                if any(f == p or (p.endswith('.') and f.startswith(p)) for p in IMPURE_CALLS):
                    probs.append((n, 'reads the clock / a random source: %s' % f))
        muts, params = param_mutations(fn)
        for node, name, what in muts:
            if (fn.qual, name) in AUG_SCALAR_OK:
                continue
            if fn.cls is not None and (fn.cls.name, _state_component(fn, name)) in SCALAR_COMPONENT_OK \
                    and isinstance(node, ast.AugAssign) and isinstance(node.target, ast.Name):
                R.table('SCALAR_COMPONENT_OK', {'%s[%s]' % k: v for k, v in SCALAR_COMPONENT_OK.items()})
                continue
            if name in params and fn.owner is None and not isinstance(node, ast.AugAssign):
                # a module-level helper mutating its own parameter: acceptable iff every caller passes a fresh object
                mutating[(fn.name, params.index(name))] = (fn, node, what)
                continue
            probs.append((node, 'mutates in place an object reachable from parameter `%s`: %s' % (name, what)))
        R.ob('FOLD-PURE', con, 'effects', not probs, '; '.join(p[1] for p in probs[:3]),
             ctx.where(fn, probs[0][0].lineno) if probs else ctx.where(fn, fn.node.lineno))
    # callers of parameter-mutating helpers pass fresh objects
    for (fname, idx), (callee, node, what) in mutating.items():
        sites = []
        for fn in funcs:
            for c in own_nodes(fn.node):
                if isinstance(c, ast.Call) and src(c.func) == fname and len(c.args) > idx:
                    sites.append((fn, c))
        bad = None
        for fn, c in sites:
            a = c.args[idx]
            fresh = _fresh_arg(a)
            if isinstance(a, ast.Name):
                defs = [s for s in own_nodes(fn.node) if isinstance(s, ast.Assign) and any(
                    isinstance(t, ast.Name) and t.id == a.id for t in s.targets) and s.lineno < c.lineno]
                if defs:
                    v = sorted(defs, key=lambda s: s.lineno)[-1].value
                    fresh = _fresh_arg(v)
            if not fresh:
                bad = (fn, c)
        R.ob('FOLD-PURE', ctx.construct(callee), 'param%d-callers-pass-fresh' % idx, bad is None and bool(sites),
             '%s mutates its parameter (%s) and %s passes it an object that is not a fresh copy: the previous state is '
             'modified in place' % (fname, what, bad[0].qual if bad else '?'),
             ctx.where(bad[0], bad[1].lineno) if bad else ctx.where(callee, node.lineno))


def check_batch_pure(ctx, R):
    M = ctx.model
    n = 0
    for modname in (DFC, 'streamz.collection', 'streamz.dataframe.utils', 'streamz.batch'):
        m = M.modules.get(modname)
        if m is None:
            continue
        for fn in m.all_funcs:
            if fn.owner is not None:
                continue            # methods act on self; their batch functions are the nested/module-level callables
            if fn.name in ('random_datapoint', 'random_datablock', '_cb'):
                continue
            muts, params = param_mutations(fn)
            muts = [(node, name, what) for node, name, what in muts if name != 'self' and name != 'kwargs']
            n += 1
            R.ob('BATCH-PURE', ctx.construct(fn), 'parameters', not muts,
                 '; '.join('mutates in place an object reachable from parameter `%s`: %s' % (nm, what) for _, nm, what in muts[:2]),
                 ctx.where(fn, muts[0][0].lineno) if muts else ctx.where(fn, fn.node.lineno))
    R.count('batch_functions', n)


def check_initial_neutral(ctx, R):
    M = ctx.model
    for cls in agg_classes(M):
        fn = cls.methods.get('initial')
        if fn is None:
            continue
        bad = [n for n in own_nodes(fn.node) if isinstance(n, (ast.BinOp, ast.AugAssign))
               and not (isinstance(n, ast.BinOp) and isinstance(n.op, (ast.BitOr, ast.BitAnd)))]
        R.ob('INITIAL-NEUTRAL', ctx.construct(fn), 'arithmetic', not bad,
             'initial() computes its neutral element by arithmetic on the first batch (%s): NaN / inf in that batch poison the '
             'state for ever' % (src(bad[0])[:40] if bad else ''), ctx.where(fn, bad[0].lineno) if bad else ctx.where(fn, fn.node.lineno))


# ----------------------------------------------------------------------------- STATE-PLUMB / CTOR-COPY / ACC-CONTRACT
def _norm_records(M, cls, fn):
    """non-raising symbolic paths of fn, or None when the function is outside the supported fragment"""
    from ..symexpr import SymEval
    try:
        return [r for r in SymEval(M, cls, private_only=True).run(fn) if not r.raised]
    except AnalysisError:
        return None


def check_state_plumb(ctx, R):
    """on symbolic normal forms: option dictionaries (`options = {...}; f(**options)`, `dict(kwargs, start=start)`), named
    temporaries, positional versus keyword spelling and module-level helpers that receive the object are transparent"""
    M = ctx.model
    for modname in (DFC, 'streamz.collection'):
        for fn in M.module(modname).all_funcs:
            allp = fn.params() + [a.arg for a in fn.node.args.kwonlyargs]
            for p in ('start', 'with_state'):
                if p not in allp or fn.name in ('rolling_accumulator', 'window_accumulator'):
                    continue
                if fn.cls is not None and fn.cls.name in ('PeriodicDataFrame', 'Random'):
                    continue
                used = False
                recs = _norm_records(M, fn.cls, fn)
                if recs:
                    # on some completing path the parameter reaches a call or is stored under its own name
                    used = False
                    for r in recs:
                        hit = any(isinstance(c, ast.Call) and any(isinstance(x, ast.Name) and x.id == p
                                                                   for a in list(c.args) + [k.value for k in c.keywords]
                                                                   for x in ast.walk(a)) for c, _s, _l in r.calls) or \
                            any(f == p and isinstance(v, ast.Name) and v.id == p for f, v, _s, _l in r.stores) or \
                            (r.ret is not None and any(isinstance(x, ast.Name) and x.id == p for x in ast.walk(r.ret)))
                        used = used or hit
                else:
                    for n in own_nodes(fn.node):
                        if isinstance(n, ast.Call):
                            for a in list(n.args) + [k.value for k in n.keywords]:
                                if any(isinstance(x, ast.Name) and x.id == p for x in ast.walk(a)):
                                    used = True
                        if isinstance(n, ast.Assign) and isinstance(n.value, ast.Name) and n.value.id == p and self_field(n.targets[0]) == p:
                            used = True
                R.ob('STATE-PLUMB', ctx.construct(fn), p, used,
                     'the parameter `%s` is accepted but never passed on: the aggregation silently ignores it' % p,
                     ctx.where(fn, fn.node.lineno))
    # accumulate_partitions forwards start / returns_state (with_state travels in **kwargs)
    ap = M.method('streamz.collection', 'Streaming', 'accumulate_partitions')
    a_ = ap.node.args
    pos = a_.posonlyargs + a_.args
    dflt = dict(zip([x.arg for x in pos][len(pos) - len(a_.defaults):], a_.defaults))
    dflt.update({k.arg: d for k, d in zip(a_.kwonlyargs, a_.kw_defaults) if d is not None})
    kwname = a_.kwarg.arg if a_.kwarg else None
    recs = _norm_records(M, ap.cls, ap)
    if not recs:
        raise AnalysisError('Streaming.accumulate_partitions: no completing symbolic path (unrecognised spelling)')
    ok, detail = True, ''

    def option_source(v, name, want_default=None):
        """is v the option `name` as the caller gave it: kwargs.pop('name', default) or the named parameter `name`"""
        if isinstance(v, ast.Name) and v.id == name and name in [x.arg for x in pos + a_.kwonlyargs]:
            d = dflt.get(name)
            return want_default is None or (d is not None and src(d) in want_default)
        if isinstance(v, ast.Call) and isinstance(v.func, ast.Attribute) and v.func.attr == 'pop' and isinstance(v.func.value, ast.Name) \
                and v.func.value.id == kwname and v.args and isinstance(v.args[0], ast.Constant) and v.args[0].value == name:
            return want_default is None or (len(v.args) > 1 and src(v.args[1]) in want_default)
        return False
    for r in recs:
        accs = [c for c, _s, _l in r.calls if isinstance(c, ast.Call) and isinstance(c.func, ast.Attribute) and c.func.attr == 'accumulate']
        if len(accs) != 1:
            ok, detail = False, 'expected one call of stream.accumulate on every path (found %d)' % len(accs)
            break
        c = accs[0]
        kw = {k.arg: k.value for k in c.keywords if k.arg}
        fw = any(k.arg is None and isinstance(k.value, ast.Name) and k.value.id == kwname for k in c.keywords)
        popped_ws = any(isinstance(x, ast.Call) and isinstance(x.func, ast.Attribute) and x.func.attr == 'pop' and x.args
                        and isinstance(x.args[0], ast.Constant) and x.args[0].value == 'with_state' for x, _s, _l in r.calls)
        if 'start' not in kw or not option_source(kw['start'], 'start'):
            ok, detail = False, 'start= is not forwarded to Stream.accumulate'
        elif 'returns_state' not in kw or not option_source(kw['returns_state'], 'returns_state'):
            ok, detail = False, 'returns_state= is not forwarded to Stream.accumulate'
        elif not fw:
            ok, detail = False, '**kwargs (carrying with_state and the fold operator\'s keywords) is not forwarded'
        elif popped_ws and 'with_state' not in kw:
            ok, detail = False, 'with_state is consumed before reaching Stream.accumulate'
        elif not option_source(kw['start'], 'start', ('core.no_default', 'no_default')):
            ok, detail = False, 'the default of start is not no_default'
        if not ok:
            break
    R.ob('STATE-PLUMB', ctx.construct(ap), 'forwards', ok, detail, ctx.where(ap, ap.node.lineno), None, len(recs))
    # accumulate seeds its state from start and takes with_state from the keywords
    for mod in ('streamz.core', 'streamz.dask'):
        init = M.method(mod, 'accumulate', '__init__')
        from .dasksib import _ctor_fields
        cf = _ctor_fields(M, M.cls(mod, 'accumulate'), init)       # on the constructor's symbolic normal form
        seeds = cf.get('state') == ['start']
        ws = False
        if len(cf.get('with_state', ())) == 1:
            try:
                v = ast.parse(cf['with_state'][0], mode='eval').body
            except SyntaxError:
                v = None
            ws = isinstance(v, ast.Call) and src(v.func) == 'kwargs.pop' and bool(v.args) and isinstance(v.args[0], ast.Constant) \
                and v.args[0].value == 'with_state'
        R.ob('STATE-PLUMB', ctx.construct(init), 'seed', seeds and ws,
             'accumulate.__init__ does not seed self.state from start / take with_state from its keywords',
             ctx.where(init, init.node.lineno))
    # the helper classes keep start / with_state exactly as given (a constructor that stores `start if with_state else None`
    # silently drops the seed of a pipeline resumed without state exposure)
    from .dasksib import _ctor_fields as _cf
    for cname_, c_ in sorted(M.module(DFC).classes.items()):
        init_ = c_.methods.get('__init__')
        if init_ is None or cname_ in ('PeriodicDataFrame', 'Random'):
            continue
        ps_ = init_.params() + [a.arg for a in init_.node.args.kwonlyargs]
        for opt in ('start', 'with_state'):
            if opt not in ps_:
                continue
            try:
                got = _cf(M, c_, init_).get(opt)
            except AnalysisError:
                got = None
            if got is None:
                # not stored here: handed to the base constructor under the same name
                fwd = any(isinstance(n, ast.Call) and isinstance(n.func, ast.Attribute) and n.func.attr == '__init__'
                          and any(k.arg == opt and isinstance(k.value, ast.Name) and k.value.id == opt for k in n.keywords)
                          for n in own_nodes(init_.node))
                ok_, why_ = fwd, 'is neither stored nor handed to the base constructor'
            else:
                ok_, why_ = got == [opt], 'is stored as %s' % ' | '.join(got)
            R.ob('STATE-PLUMB', ctx.construct(init_), 'keeps-' + opt, ok_,
                 '%s.__init__: the option `%s` %s, not as given: a pipeline resumed with it behaves as if it had not been passed'
                 % (cname_, opt, why_), ctx.where(init_, init_.node.lineno))
    # helper classes hand their stored start/with_state to the accumulation they build
    for cname in ('Rolling', 'Window', 'Expanding', 'WindowedGroupBy'):
        c = M.cls(DFC, cname)
        for mname, fn in c.methods.items():
            recs = _norm_records(M, c, fn)
            if recs is None:
                if any(isinstance(n, ast.Attribute) and n.attr in ('accumulate_partitions', 'accumulate') for n in ast.walk(fn.node)):
                    raise AnalysisError('%s: outside the supported fragment (unrecognised spelling)' % ctx.construct(fn))
                continue
            verdict = None
            for r in recs:
                for call, _s, _l in r.calls:
                    if isinstance(call, ast.Call) and isinstance(call.func, ast.Attribute) and call.func.attr in ('accumulate_partitions', 'accumulate'):
                        kw = {k.arg: src(k.value) for k in call.keywords if k.arg}
                        ok = kw.get('start') == 'self.start' and kw.get('with_state') == 'self.with_state' and kw.get('returns_state') == 'True'
                        if verdict is None or (verdict[0] and not ok):
                            verdict = (ok, {k: kw.get(k) for k in ('start', 'with_state', 'returns_state')})
            if verdict is not None:
                R.ob('STATE-PLUMB', ctx.construct(fn), 'stored-state-forwarded', verdict[0],
                     '%s.%s builds its accumulation without start=self.start / with_state=self.with_state / returns_state=True (got %s)'
                     % (cname, mname, verdict[1]), ctx.where(fn, fn.node.lineno), None, len(recs))


def _ctor_param_fields(cls):
    """fields assigned in __init__ directly from a same-named parameter"""
    init = cls.find('__init__')
    out = []
    if init is None:
        return out, None
    allp = init.params() + [a.arg for a in init.node.args.kwonlyargs]
    for c in cls.mro:
        i = c.methods.get('__init__')
        if i is None:
            continue
        for n in own_nodes(i.node):
            if isinstance(n, ast.Assign) and isinstance(n.targets[0], ast.Attribute) and self_field(n.targets[0]) \
                    and isinstance(n.value, ast.Name) and n.value.id == self_field(n.targets[0]) and n.value.id in allp:
                if self_field(n.targets[0]) not in out:
                    out.append(self_field(n.targets[0]))
    return out, init


def check_ctor_copy(ctx, R):
    """on the symbolic normal form of every method of the helper classes (a module-level helper that builds the keyword
    dictionary, `**options`, temporaries and positional/keyword spelling are transparent): a call that re-creates the object -
    type(self)(...) or one of the helper classes by name - supplies every state-bearing constructor field from self"""
    from ..symexpr import SymEval
    M = ctx.model
    classes = {n: M.cls(DFC, n) for n in ('Window', 'Expanding', 'EWM', 'Rolling', 'GroupBy', 'WindowedGroupBy')}
    REPLACED = {'root', 'sdf', 'index', 'grouper'}     # the parameter the method exists to replace
    for cname, cls in classes.items():
        fields, init = _ctor_param_fields(cls)
        for mname, fn in cls.methods.items():
            if mname == '__init__':
                continue
            if not any(isinstance(n, ast.Call) and (src(n.func) == 'type(self)' or src(n.func) in classes) for n in own_nodes(fn.node)):
                continue
            try:
                recs = [r for r in SymEval(M, cls).run(fn) if not r.raised]
            except AnalysisError as e:
                raise AnalysisError('%s: %s' % (ctx.construct(fn), e))
            verdict = {}
            for r in recs:
                for c, _s, _l in r.calls:
                    if not isinstance(c, ast.Call):
                        continue
                    f = src(c.func)
                    target = cls if f == 'type(self)' else classes.get(f)
                    if target is None:
                        continue
                    if f != 'type(self)' and cls.isa(target):
                        # re-creating the object under a hard-coded class name: every subclass that inherits this method silently
                        # turns into the base kind (an Expanding window into a row window of n rows, ...)
                        heirs = sorted(s_.name for s_ in M.classes if s_ is not cls and s_.isa(cls) and s_.find(mname) is fn)
                        R.ob('CTOR-COPY', ctx.construct(fn), 'keeps-kind', not heirs,
                             '%s re-creates the object as %s(...) by name, but %s inherit(s) this method: a derived %s silently becomes a '
                             'plain %s (use type(self))' % (fn.qual, target.name, ', '.join(heirs), heirs[0] if heirs else '', target.name),
                             ctx.where(fn, fn.node.lineno))
                    tinit = target.find('__init__')
                    tparams = tinit.params()[1:]
                    supplied = {}
                    for i, a in enumerate(c.args):
                        if i < len(tparams) and not isinstance(a, ast.Starred):
                            supplied[tparams[i]] = src(a)
                    opaque = False
                    for k in c.keywords:
                        if k.arg:
                            supplied[k.arg] = src(k.value)
                        else:
                            opaque = True       # **something that did not normalise to visible keywords
                    allp = tparams + [a.arg for a in tinit.node.args.kwonlyargs]
                    missing = [p for p in allp if p in fields and p not in REPLACED and supplied.get(p) != 'self.' + p]
                    if opaque and missing:
                        raise AnalysisError('%s: %s(...) is given **%s, whose content this check cannot see (unrecognised spelling)'
                                            % (ctx.construct(fn), f, src([k.value for k in c.keywords if not k.arg][0])[:40]))
                    cur = verdict.get(f)
                    if cur is None or (not cur and missing):
                        verdict[f] = missing
                        verdict[(f, 'target')] = target
            for f, missing in [(k, v) for k, v in verdict.items() if isinstance(k, str)]:
                target = verdict[(f, 'target')]
                R.ob('CTOR-COPY', ctx.construct(fn), f, not missing,
                     '%s re-creates %s without forwarding %s: the copy loses that part of its configuration/state'
                     % (fn.qual, target.name, ', '.join('self.' + m for m in missing)), ctx.where(fn, fn.node.lineno), None, len(recs))


def acc_paths(model, cls):
    """symbolic facts of every normal path of accumulate.update (core or dask), in let-normal form:
    dict(first, ws, state (stored value text or None), state_pos, emit_pos, data (expr), fcall (index of the call that applies
    the user function or None), r (the Rec))"""
    from ..symexpr import SymEval, nf, norm_cond
    fn = cls.find('update')
    out = []
    for r in SymEval(model, cls, name_calls=True).run(fn):
        if r.raised:
            continue
        first = ws = None
        for c, o in r.conds:
            t, o2 = norm_cond(c, o)
            t = t.replace(' ', '').replace('core.', '')
            if t == 'self.stateisno_default':
                first = o2
            if t == 'self.with_state':
                ws = o2
        fcall = None
        for k, (c, s_, l) in enumerate(r.calls):
            if not isinstance(c, ast.Call):
                continue
            f = nf(c.func)
            if f == 'self.func' or (f.endswith('.submit') and c.args and nf(c.args[0]) == 'self.func'):
                fcall = k
        sts = [(i, v) for i, (f, v, s_, l) in enumerate(r.stores) if f == 'state']
        spos = max([j for j, (kind, i) in enumerate(r.order) if kind == 'store' and r.stores[i][0] == 'state'] or [-1])
        epos = [j for j, (kind, i) in enumerate(r.order) if kind == 'emit']
        out.append(dict(first=first, ws=ws, state=nf(sts[-1][1]) if sts else None, state_pos=spos, emit_pos=epos,
                        data=r.emits[0][0] if len(r.emits) == 1 else None, n_emits=len(r.emits), fcall=fcall, r=r,
                        n_state_stores=len(sts)))
    return out


def check_acc_contract(ctx, R):
    """accumulate.update on symbolic normal forms: every normal path stores the state exactly once, before its single
    emission; with with_state the emitted value is (the state just stored, result), without it the state is not exposed"""
    from ..symexpr import nf
    M = ctx.model
    for mod in ('streamz.core', 'streamz.dask'):
        cls = M.cls(mod, 'accumulate')
        fn = cls.find('update')
        con = ctx.construct(fn)
        bad, n = None, 0
        for p in acc_paths(M, cls):
            if p['n_emits'] != 1:
                bad = bad or 'a normal path emits %d times' % p['n_emits']
                continue
            n += 1
            d = p['data']
            if p['state'] is None:
                bad = bad or 'a path does not update self.state'
                continue
            if p['state_pos'] > p['emit_pos'][0]:
                bad = bad or 'the state is stored after the emission: the emitted state is the previous one'
                continue
            if p['ws'] is True:
                if not (isinstance(d, ast.Tuple) and len(d.elts) == 2 and nf(d.elts[0]) == p['state']):
                    bad = bad or 'with with_state the emitted value is %s, not (self.state, result)' % src(d)[:80]
            elif p['ws'] is False:
                if isinstance(d, ast.Tuple) and d.elts and nf(d.elts[0]) == p['state'] and not p['first']:
                    bad = bad or 'state is exposed although with_state is false'
            else:
                bad = bad or 'a path emits without testing self.with_state'
        R.ob('ACC-CONTRACT', con, 'with_state', bad is None and n >= 4, bad or 'fewer than 4 emitting paths (unrecognised spelling)',
             ctx.where(fn, fn.node.lineno), None, n)


# ----------------------------------------------------------------------------- FOLD-DERIVE
def agg_classes(model):
    m = model.module(AGG)
    base = m.classes.get('Aggregation')
    # (a private helper base such as `_GroupbyTally` is code shared by its subclasses - analysed there, where its hooks resolve)
    return [c for c in m.classes.values() if base in c.mro and c is not base and c.name != 'GroupbyAggregation'
            and c not in getattr(model, 'private_bases', ())]


def _incoming_empty(r, accp):
    """the path established that (a component of) the incoming state holds no rows: len(<state>) false, `not len(<state>)`,
    len(<state>) == 0 or <state>.empty true"""
    import re
    from .delivery import _conjuncts
    from ..symexpr import norm_cond
    for t, o in r.conds:
        if t.startswith('<'):
            continue
        for t1, o1 in _conjuncts(*norm_cond(t, o)):
            t2, o2 = norm_cond(t1, o1)
            k = t2.replace(' ', '')
            if not re.search(r'(?<![A-Za-z0-9_])' + re.escape(accp) + r'(?![A-Za-z0-9_])', k):
                continue
            if (re.fullmatch(r'len\(.*\)', k) and o2 is False) or (re.fullmatch(r'len\(.*\)==0', k) and o2 is True) \
                    or (k.endswith('.empty') and o2 is True) or (re.fullmatch(r'len\(.*\)>0', k) and o2 is False):
                return True
    return False


def check_fold_derive(ctx, R, steps=('on_new',)):
    M = ctx.model
    R.table('LATCH_OK', {'%s.%s[%d]' % k: v for k, v in LATCH_OK.items()})
    for cls in agg_classes(M):
        for step in steps:
            fn = cls.methods.get(step)
            if fn is None:
                continue
            if cls.name in MIRROR_EXCEPT and step == 'on_old' and cls.name == 'EWMean':
                continue
            params = fn.params()
            if len(params) < 3:
                continue
            accp, batchp = params[1], params[2]
            con = ctx.construct(fn)
            bad, n = None, 0
            detail = ''
            for r in _agg_paths(M, cls, fn):
                node = r.ret
                if not (isinstance(node, ast.Tuple) and len(node.elts) == 2):
                    raise AnalysisError('%s does not return (state, result)' % con)
                n += 1
                state = node.elts[0]
                comps = state.elts if isinstance(state, ast.Tuple) else [state]
                for i, c in enumerate(comps):
                    if isinstance(c, ast.Constant):
                        if (cls.name, step, i) in LATCH_OK:
                            continue
                        bad, detail = r, 'state component %d is the constant %s' % (i, src(c))
                        continue
                    if not any(isinstance(x, ast.Name) and x.id == accp for x in ast.walk(c)):
                        if _incoming_empty(r, accp):
                            continue        # re-seeding a carried state that was found empty (what initial() does)
                        conds = ' & '.join('%s=%s' % (c_, o) for c_, o in r.conds)
                        bad, detail = r, 'state component %d (%s) does not derive from the incoming state on the path [%s]: a ' \
                                         'constant or batch-only value is injected into the state' % (i, src(c)[:80], conds[:200])
            if n:
                R.ob('FOLD-DERIVE', con, 'state', bad is None, detail, ctx.where(fn, fn.node.lineno), None, n)
    # the accumulators thread the state through
    for name in ('accumulator', 'groupby_accumulator', 'window_accumulator', 'windowed_groupby_accumulator'):
        fn = M.function(AGG, name)
        con = ctx.construct(fn)
        accp = fn.params()[0]
        interp = Interp(M, fn)
        bad, n = None, 0
        for st, status in ctx.paths(fn, None):
            if status != 'return' or is_failure(st.events, status):
                continue
            n += 1
            ret = [e for e in st.events if e.kind == 'RETURN' and e.depth == 0][-1]
            node = ret.x.get('node')
            first = node.elts[0] if isinstance(node, ast.Tuple) and node.elts else node
            t = interp.tags(st, first)
            none_path = any(c.kind == 'COND' and c.a == '%s is None' % accp and c.b is True for c in st.events)
            if ('p:' + accp) not in t and not none_path:
                bad = st.events
        R.ob('FOLD-DERIVE', con, 'state', bad is None and n > 0,
             'the returned state does not derive from the incoming state', ctx.where(fn, fn.node.lineno),
             fmt_path(bad) if bad else None, n)


# ----------------------------------------------------------------------------- MIRROR
class _Invert(ast.NodeTransformer):
    def visit_BinOp(self, n):
        self.generic_visit(n)
        if isinstance(n.op, ast.Sub):
            return ast.BinOp(left=n.left, op=ast.Add(), right=n.right)
        return n

    def visit_Call(self, n):
        self.generic_visit(n)
        if isinstance(n.func, ast.Attribute) and n.func.attr == 'sub':
            return ast.Call(func=ast.Attribute(value=n.func.value, attr='add', ctx=ast.Load()), args=n.args, keywords=n.keywords)
        return n


class _Rename(ast.NodeTransformer):
    def __init__(self, m):
        self.m = m

    def visit_Name(self, n):
        if n.id in self.m:
            return ast.Name(id=self.m[n.id], ctx=n.ctx)
        return n


def _decompose(expr):
    """state component = base (+|-) term, possibly through x.add/x.sub(term, **kw) and trailing unary method wrappers
    (.astype(int)).  returns (kind, base, term, keywords, wrappers) or None"""
    wrappers = []
    e = expr
    while isinstance(e, ast.Call) and isinstance(e.func, ast.Attribute) and e.func.attr not in ('add', 'sub'):
        wrappers.append((e.func.attr, tuple(text(a) for a in e.args), tuple('%s=%s' % (k.arg, text(k.value)) for k in e.keywords)))
        e = e.func.value
    if isinstance(e, ast.BinOp) and isinstance(e.op, (ast.Add, ast.Sub)):
        return ('+' if isinstance(e.op, ast.Add) else '-', text(e.left), text(e.right), (), tuple(wrappers))
    if isinstance(e, ast.Call) and isinstance(e.func, ast.Attribute) and e.func.attr in ('add', 'sub') and len(e.args) == 1:
        return ('+' if e.func.attr == 'add' else '-', text(e.func.value), text(e.args[0]),
                tuple(sorted('%s=%s' % (k.arg, text(k.value)) for k in e.keywords)), tuple(wrappers))
    return None


def _norm_cond(c, o):
    """(test text without spaces, outcome) with a leading `not` folded into the outcome"""
    t = c.replace(' ', '')
    while t.startswith('not') and not t[3:4].isalnum() or t.startswith('not(') or (t.startswith('not') and t[3:4].isalpha() and ' ' in c[:4]):
        inner = t[3:]
        if inner.startswith('(') and inner.endswith(')'):
            inner = inner[1:-1]
        t, o = inner, not o
        if not c.lstrip().startswith('not'):
            break
        c = c.lstrip()[3:].lstrip()
    return t, o


def _agg_paths(model, cls, fn, **kw):
    from ..symexpr import SymEval
    return [r for r in SymEval(model, cls, **kw).run(fn) if not r.raised and r.ret is not None]


def _step_forms(fn, model=None, cls=None):
    """(state component texts, result text) of the main path of a fold step, with acc -> A and batch -> B.
    On symbolic normal forms: helper methods / private module functions are spliced, temporaries substituted,
    early returns and inverted tests are transparent."""
    params = fn.params()
    accp, batchp = params[1], params[2]
    paths = _agg_paths(model, cls, fn)
    main = []
    for p in paths:
        ok = True
        for c, o in p.conds:
            t, o2 = _norm_cond(c, o)
            if t in ('len(%s)' % batchp, 'len(%s)>0' % batchp, 'len(%s)!=0' % batchp) and not o2:
                ok = False          # the "batch is empty" arm is not the accumulate path
            if t in ('len(%s)==0' % batchp,) and o2:
                ok = False
            if 'isinstance(' in t and o2 and 'Number' in t:
                ok = False          # scalar divide-by-zero guards
        if ok:
            main.append(p)
    # configuration tests met on the way (self.ddof != 0 inside a spliced helper) index the variants of the step
    rn = _Rename({accp: 'A', batchp: 'B'})
    variants = {}
    for mp in main:
        key = []
        for c, o in mp.conds:
            t, o2 = _norm_cond(c, o)
            if t.startswith('len(%s)' % batchp) or c.startswith('<'):
                continue
            if any(isinstance(x, ast.Name) and x.id in (accp, batchp) for x in ast.walk(ast.parse(c, mode='eval'))):
                continue            # a test on the data (guards), not on the configuration
            key.append((text(rn.visit(ast.parse(c, mode='eval').body)) if not c.startswith('<') else c, o))
        key = tuple(sorted(set(key)))
        ret = mp.ret
        if not (isinstance(ret, ast.Tuple) and len(ret.elts) == 2):
            raise AnalysisError('%s does not return (state, result)' % fn.qual)
        state = rn.visit(copy.deepcopy(ret.elts[0]))
        result = rn.visit(copy.deepcopy(ret.elts[1]))
        comps = state.elts if isinstance(state, ast.Tuple) else [state]
        # in-place effects recorded on the path (result.index.name = ...)
        eff = sorted(text(rn.visit(copy.deepcopy(c))) for c, s_, l in mp.calls if isinstance(c, ast.Assign))
        form = (tuple(text(c) for c in comps), text(result), tuple(eff))
        if key in variants and variants[key][3] != form:
            raise AnalysisError('%s: cannot single out the accumulate path (two forms under the same tests %s): unrecognised spelling'
                                % (fn.qual, key))
        variants[key] = (comps, result, eff, form)
    if not variants:
        raise AnalysisError('%s: no accumulate path found: unrecognised spelling' % fn.qual)
    return variants


def check_mirror(ctx, R):
    M = ctx.model
    R.table('MIRROR_EXCEPT', MIRROR_EXCEPT)
    for cls in agg_classes(M):
        if cls.name in MIRROR_EXCEPT:
            continue
        new, old = cls.methods.get('on_new'), cls.methods.get('on_old')
        if new is None or old is None:
            continue
        con = ctx.construct(old)
        vn, vo = _step_forms(new, M, cls), _step_forms(old, M, cls)
        ok, detail = True, ''
        if set(vn) != set(vo):
            ok, detail = False, 'accrual and decay are decided under different tests: %s vs %s' % (sorted(vn), sorted(vo))
        for key in (sorted(vn) if ok else []):
            cn, rn, en, _ = vn[key]
            co, ro, eo, _ = vo[key]
            tn = [text(c) for c in cn]
            dn = [_decompose(c) for c in cn]
            do = [_decompose(c) for c in co]
            inv = len(dn) == len(do) and all(
                a is not None and b is not None and a[0] == '+' and b[0] == '-' and a[1:] == b[1:] for a, b in zip(dn, do))
            if not inv:
                ok, detail = False, 'decay is not the inverse of accrual: on_new state %s vs on_old state %s' % (tn, [text(c) for c in co])
                break
            # result expressions agree once the state components are abstracted

            def abstract(res, comps):
                s_ = text(res)
                for i, c in sorted(enumerate(comps), key=lambda ic: -len(text(ic[1]))):
                    s_ = s_.replace(text(c), 'S%d' % i)
                return s_
            an, ao = abstract(rn, cn), abstract(ro, co)
            if an != ao:
                ok, detail = False, 'the result expressions differ: on_new %s vs on_old %s' % (an, ao)
                break
            if len(en) != len(eo):
                ok, detail = False, 'side conditions differ (%s vs %s)' % (en, eo)
                break
        R.ob('MIRROR', con, 'inverse', ok, detail, ctx.where(old, old.node.lineno))


# ----------------------------------------------------------------------------- ACCRUE-DECAY-SIG / DECAY-UNREACHABLE
def _expand(r, text, levels=2):
    """substitute call symbols C<k> by the text of the call they name"""
    import re
    # (texts are usually already stripped of spaces, so a symbol may directly follow a keyword: `dfinC0`, `notC13`)
    pat = (r'(?:(?<![A-Za-z0-9_])|(?<=in)|(?<=not)|(?<=for)|(?<=if)|(?<=else)|(?<=and)|(?<=or)|(?<=is))'
           r'C(\d+)(?![A-Za-z0-9_])')
    for _ in range(levels):
        text = re.sub(pat, lambda m: src(r.calls[int(m.group(1))][0]).replace(' ', '') if int(m.group(1)) < len(r.calls)
                      else m.group(0), text)
    return text


def check_accrue_decay(ctx, R):
    """decided on the let-normal form of every path (names of locals, temporaries, early `continue`, the way the returned
    dict is built are transparent):
      diff-once          diff(<stored history>, <batch>, window=window) is called exactly once
      once-per-chunk     agg.on_new at most once (exactly once iff a batch is present); agg.on_old exactly once per non-empty
                         element of diff(...)[1] and only inside the loop over it; the size twin in lock-step
      state-threaded     on_new receives the stored/initial state, on_old the state on_new returned
      stores-new-history the returned accumulator carries diff(...)[0] and the last state"""
    from ..symexpr import SymEval, nf
    M = ctx.model
    for name, twin in (('window_accumulator', None), ('windowed_groupby_accumulator', 'size')):
        fn = M.function(AGG, name)
        con = ctx.construct(fn)
        paths = [r for r in SymEval(M, None, name_calls=True).run(fn) if not r.raised]
        bad = {}

        def fail(tok, msg):
            bad.setdefault(tok, msg)
        n = 0
        for r in paths:
            if r.ret is None:
                continue
            n += 1
            calls = [(k, c, l) for k, (c, s_, l) in enumerate(r.calls) if isinstance(c, ast.Call)]
            diffs = [(k, c, l) for k, c, l in calls if nf(c.func) == 'diff']
            if len(diffs) != 1:
                fail('diff-once', 'diff is applied %d times on a path' % len(diffs))
                continue
            dk, dc, dl = diffs[0]
            first = any(c == 'acc is None' and o for c, o in r.conds) or any(c == 'acc is not None' and not o for c, o in r.conds)
            H = nf(dc.args[0]) if dc.args else ''
            if H != ('[]' if first else "acc['dfs']") or dl or not any(k.arg == 'window' and nf(k.value) == 'window' for k in dc.keywords):
                fail('diff-once', 'diff is applied to %s, not to the stored history with window=window' % (H or '?'))
            batch = nf(dc.args[1]) if len(dc.args) > 1 else '?'
            D = 'C%d' % dk
            # the decay loop
            def decay_loop(l):
                if not l:
                    return None
                it = l[-1][0].replace(' ', '')
                if it == D + '[1]':
                    return 'ELEM(%s[1])' % D, None
                m_ = it[1:] if it.startswith('C') else ''
                if m_.isdigit():
                    zc = r.calls[int(m_)][0]
                    if isinstance(zc, ast.Call) and nf(zc.func) == 'zip' and zc.args and nf(zc.args[0]) == D + '[1]':
                        return 'FIRST(ELEM(%s))' % it, 'ELEM(%s)[1]' % it
                    # for o in filter(len, old): exactly the non-empty decayed chunks
                    if isinstance(zc, ast.Call) and nf(zc.func) == 'filter' and len(zc.args) == 2 and nf(zc.args[0]) == 'len' \
                            and nf(zc.args[1]) == D + '[1]':
                        return 'ELEM(%s)' % it, None
                return None
            for who, key in (('agg', 'state'),) + (((None, 'size-state'),) if twin else ()):
                def mine(c, meth):
                    f = c.func
                    if not (isinstance(f, ast.Attribute) and f.attr == meth):
                        return False
                    return (nf(f.value) == 'agg') == (who == 'agg')
                news = [(k, c, l) for k, c, l in calls if mine(c, 'on_new')]
                olds = [(k, c, l) for k, c, l in calls if mine(c, 'on_old')]
                label = 'agg' if who == 'agg' else 'the size twin'
                present = next((o for c, o in r.conds if c.replace(' ', '') == batch + 'isnotNone'), None)
                if present is None:
                    present = next((not o for c, o in r.conds if c.replace(' ', '') == batch + 'isNone'), None)
                if len(news) > 1 or any(l for k, c, l in news):
                    fail('once-per-chunk', '%s.on_new is applied %d times in one call' % (label, len(news)))
                if present is True and len(news) != 1:
                    fail('once-per-chunk', 'a batch is present but %s.on_new is not applied' % label)
                if present is False and news:
                    fail('once-per-chunk', '%s.on_new is applied although there is no batch' % label)
                # state threading
                cur = None
                if news:
                    k, c, l = news[0]
                    a0 = nf(c.args[0]) if c.args else '?'
                    want0 = ("acc['%s']" % key) if not first else None
                    if not first and a0 != want0:
                        fail('state-threaded', '%s.on_new receives %s, not the stored state' % (label, a0))
                    if first and '.initial(' not in _expand(r, a0):
                        fail('state-threaded', '%s.on_new receives %s on the first batch, not <aggregation>.initial(...)' % (label, a0))
                    if len(c.args) < 2 or nf(c.args[1]) != batch:
                        fail('state-threaded', '%s.on_new is not applied to the batch that was added to the window' % label)
                    cur = 'FIRST(C%d)' % k
                loops_seen = {}
                for k, c, l in olds:
                    dl_ = decay_loop(l)
                    if dl_ is None:
                        fail('once-per-chunk', '%s.on_old is applied outside the loop over the decayed chunks' % label)
                        continue
                    loops_seen.setdefault(l[-1], []).append((k, c, dl_))
                for lk, lst in loops_seen.items():
                    if len(lst) != 1:
                        fail('once-per-chunk', '%s.on_old is applied %d times for one decayed chunk (expected 1)' % (label, len(lst)))
                    k, c, (chunk, og) = lst[0]
                    a0 = nf(c.args[0]) if c.args else '?'
                    if cur is not None and a0 != cur:
                        fail('state-threaded', '%s.on_old receives %s, not the state %s.on_new returned' % (label, a0, label))
                    if cur is None and not first and a0 != "acc['%s']" % key:
                        fail('state-threaded', '%s.on_old receives %s, not the stored state' % (label, a0))
                    if len(c.args) < 2 or nf(c.args[1]) != chunk:
                        fail('once-per-chunk', '%s.on_old is not applied to the decayed chunk' % label)
                    if og is not None and not any(kw.arg == 'grouper' and nf(kw.value) == og for kw in c.keywords):
                        fail('once-per-chunk', '%s.on_old does not receive the grouper aligned with the decayed chunk' % label)
                    cur = 'FIRST(C%d)' % k
                # non-empty chunk <=> decayed
                for c_, o in r.conds:
                    t = _expand(r, c_, 1).replace(' ', '')
                    neg = t.startswith('not')
                    core = t[3:].strip('()') if neg else t
                    if core.startswith('len(') and ('ELEM(%s' % D in _expand(r, core, 1) or 'ELEM(C' in core):
                        nonempty = (not o) if neg else o
                        if nonempty and not olds:
                            fail('once-per-chunk', 'a non-empty decayed chunk is not passed to %s.on_old' % label)
                        if not nonempty and olds:
                            fail('once-per-chunk', '%s.on_old is applied to an empty chunk' % label)
                # the returned accumulator
                ret = r.ret
                acc_out = ret.elts[0] if isinstance(ret, ast.Tuple) and ret.elts else None
                if not isinstance(acc_out, ast.Dict):
                    fail('stores-new-history', 'the returned accumulator is not a dict built in this function')
                    continue
                kv = {k_.value: v for k_, v in zip(acc_out.keys, acc_out.values) if isinstance(k_, ast.Constant)}
                if nf(kv.get('dfs')) != 'FIRST(%s)' % D:
                    fail('stores-new-history', "the returned accumulator's history is %s, not the one diff returned" % nf(kv.get('dfs')))
                want = cur if cur is not None else ("acc['%s']" % key if not first else None)
                got = nf(kv.get(key))
                if want is not None and not any(want in g for g in (got, _expand(r, got, 1), _expand(r, got, 2))):
                    fail('stores-new-history', "the returned accumulator's %r is %s, not the last state (%s)" % (key, nf(kv.get(key))[:60], want))
                if want is None and '.initial(' not in _expand(r, got, 2):
                    fail('stores-new-history', "the returned accumulator's %r is not the initial state" % key)
        if n == 0:
            raise AnalysisError('%s: no returning path (unrecognised spelling)' % con)
        if twin:
            # whether a grouper history is kept is decided on the first batch by the *kind* of grouper, never by its content:
            # an empty first batch must not switch the history off for the rest of the run
            for r in paths:
                if r.ret is None or not isinstance(r.ret, ast.Tuple) or not isinstance(r.ret.elts[0], ast.Dict):
                    continue
                first_ = any(c == 'acc is None' and o for c, o in r.conds) or any(c == 'acc is not None' and not o for c, o in r.conds)
                keys = {k_.value for k_ in r.ret.elts[0].keys if isinstance(k_, ast.Constant)}
                if first_ and 'groupers' not in keys:
                    for c_, o in r.conds:
                        t = _expand(r, c_, 2).replace(' ', '')
                        if 'len(' in t and 'ELEM(' not in t:
                            fail('stores-new-history', 'on the first batch the grouper history is switched off after a test of a '
                                 'length (%s): an empty first batch disables it for the whole run, decayed rows are then '
                                 'grouped with the wrong grouper' % c_[:60])
        for tok in ('once-per-chunk', 'diff-once', 'state-threaded', 'stores-new-history'):
            R.ob('ACCRUE-DECAY-SIG', con, tok, tok not in bad, bad.get(tok, ''), ctx.where(fn, fn.node.lineno), None, n)


def check_decay_unreachable(ctx, R):
    M = ctx.model
    core = M.module(DFC)
    sites = []
    for f in M.all_funcs():
        for n in own_nodes(f.node):
            if isinstance(n, ast.Call) and src(n.func) in ('aggregations.EWMean', 'EWMean'):
                sites.append((f, n))
    ewm = M.cls(DFC, 'EWM')
    exp = M.cls(DFC, 'Expanding')
    ok = bool(sites) and all(f.cls is not None and exp in f.cls.mro for f, _ in sites)
    R.ob('DECAY-UNREACHABLE', 'streamz.dataframe.aggregations.EWMean', 'constructed-only-by-expanding', ok,
         'EWMean (on_old is a stub returning None) is constructed outside an Expanding window: %s'
         % ', '.join('%s:%d' % (f.qual, n.lineno) for f, n in sites if not (f.cls is not None and exp in f.cls.mro)),
         ctx.where(sites[0][0], sites[0][1].lineno) if sites else None)
    # on symbolic paths (helper extraction / overridden hooks / temporaries transparent): for Expanding and every subclass
    # (EWM), every path of the MRO-resolved aggregate() hands diff=aggregations.diff_expanding over
    from ..symexpr import SymEval, nf
    agg = exp.find('aggregate')
    okd = agg is not None
    for c in [exp] + [x for x in M.subclasses(exp) if x is not exp]:
        afn = c.find('aggregate')
        if afn is None:
            okd = False
            continue
        ps = [r for r in SymEval(M, c).run(afn) if not r.raised]
        okd = okd and bool(ps)
        for r in ps:
            acc_calls = [cl for cl, s_, l in r.calls if isinstance(cl, ast.Call) and isinstance(cl.func, ast.Attribute)
                         and cl.func.attr == 'accumulate_partitions']
            if len(acc_calls) != 1 or not any(k.arg == 'diff' and nf(k.value) in ('aggregations.diff_expanding', 'diff_expanding')
                                              for k in acc_calls[0].keywords):
                okd = False
    R.ob('DECAY-UNREACHABLE', DFC + '.Expanding.aggregate', 'diff_expanding', okd,
         'Expanding.aggregate does not use diff_expanding (or EWM overrides aggregate)', ctx.where(agg, agg.node.lineno) if agg else None)
    de = M.function(AGG, 'diff_expanding')
    rets = [r for r in own_nodes(de.node) if isinstance(r, ast.Return)]
    okr = bool(rets) and all(isinstance(r.value, ast.Tuple) and len(r.value.elts) == 2 and src(r.value.elts[1]) == '[]' for r in rets)
    R.ob('DECAY-UNREACHABLE', ctx.construct(de), 'no-old-rows', okr, 'diff_expanding can return decayed rows', ctx.where(de, de.node.lineno))
    # the stub itself: if on_old is ever implemented the exception must be revisited
    eo = M.cls(AGG, 'EWMean').methods.get('on_old')
    stub = eo is not None and all(isinstance(s, ast.Pass) or (isinstance(s, ast.Expr) and isinstance(s.value, ast.Constant)) for s in eo.node.body)
    if not stub:
        R.note('EWMean.on_old is no longer a stub: the MIRROR exception for EWMean should be revisited')


# ----------------------------------------------------------------------------- AGG-TABLE / REDUCER-NAME / WINDOW-FIFO
AGG_TABLE = {
    ('Frame', 'sum'): {'Sum'}, ('Frame', 'count'): {'Count'}, ('Frame', 'size'): {'Size'}, ('Frame', 'mean'): {'Mean'},
    ('Series', 'value_counts'): {'ValueCounts'},
    ('Window', 'full'): {'Full'}, ('Window', 'apply'): {'Full'}, ('Window', 'sum'): {'Sum'}, ('Window', 'count'): {'Count'},
    ('Window', 'mean'): {'Mean'}, ('Window', 'var'): {'Var'}, ('Window', 'size'): {'Size'}, ('Window', 'value_counts'): {'ValueCounts'},
    ('GroupBy', 'count'): {'GroupbyCount'}, ('GroupBy', 'mean'): {'GroupbyMean'}, ('GroupBy', 'size'): {'GroupbySize'},
    ('GroupBy', 'sum'): {'GroupbySum'}, ('GroupBy', 'var'): {'GroupbyVar'}, ('EWM', 'mean'): {'EWMean'},
}
REDUCERS = {
    'Sum': ({'sum'}, {'count', 'size'}), 'Count': ({'count'}, {'size', 'sum'}), 'Size': ({'size'}, {'count', 'sum'}),
    'Mean': ({'sum', 'count'}, {'size'}), 'Var': ({'sum', 'count'}, {'size'}),
    'GroupbySum': ({'sum'}, {'count', 'size'}), 'GroupbyCount': ({'count'}, {'size', 'sum'}), 'GroupbySize': ({'size'}, {'count', 'sum'}),
    'GroupbyMean': ({'sum', 'count'}, {'size'}), 'GroupbyVar': ({'sum', 'count'}, {'size'}), 'ValueCounts': ({'value_counts'}, {'count', 'size', 'sum'}),
}


def check_agg_table(ctx, R):
    M = ctx.model
    R.table('AGG_TABLE', {'%s.%s' % k: sorted(v) for k, v in AGG_TABLE.items()})
    aggnames = {c.name for c in agg_classes(M)}
    for (cname, mname), allowed in AGG_TABLE.items():
        cls = M.cls(DFC, cname)
        fn = cls.methods.get(mname)
        if fn is None:
            raise AnalysisError('anchor vanished: %s.%s' % (cname, mname))
        used = set()
        seen, todo = set(), [fn]
        while todo:
            g = todo.pop()
            if g.fq in seen:
                continue
            seen.add(g.fq)
            for n in own_nodes(g.node):
                if isinstance(n, ast.Attribute) and isinstance(n.value, ast.Name) and n.value.id == 'aggregations' and n.attr in aggnames:
                    used.add(n.attr)
                # a sibling method that hands the aggregation over (apply -> full)
                if isinstance(n, ast.Call) and isinstance(n.func, ast.Attribute) and isinstance(n.func.value, ast.Name) \
                        and n.func.value.id == 'self' and (cname, n.func.attr) in AGG_TABLE:
                    h = cls.find(n.func.attr)
                    if h is not None:
                        todo.append(h)
        R.ob('AGG-TABLE', ctx.construct(fn), mname, used == allowed,
             '%s.%s hands over %s, its name promises %s' % (cname, mname, sorted(used), sorted(allowed)), ctx.where(fn, fn.node.lineno))
    # std = var ** 0.5
    for cname in ('Window', 'GroupBy'):
        fn = M.cls(DFC, cname).methods.get('std')
        rets = [r for r in own_nodes(fn.node) if isinstance(r, ast.Return)] if fn else []
        ok = bool(rets) and src(rets[0].value).replace(' ', '') == 'self.var(ddof=ddof)**0.5'
        R.ob('AGG-TABLE', ctx.construct(fn), 'std', ok, 'std is not var(ddof=ddof) ** 0.5', ctx.where(fn, fn.node.lineno))


def _reachable_asts(model, cls, fn, depth=0, seen=None):
    """the function's own AST plus the ASTs of helper methods of the class and private module-level functions it refers to
    (called or passed as a value), transitively: the code that runs as part of the step"""
    seen = seen if seen is not None else set()
    if fn.fq in seen or depth > 4:
        return []
    seen.add(fn.fq)
    out = [fn.node]
    for n in own_nodes(fn.node):
        callee = None
        if isinstance(n, ast.Attribute) and isinstance(n.value, ast.Name) and n.value.id == 'self' and cls is not None:
            callee = cls.find(n.attr)
        elif isinstance(n, ast.Name) and isinstance(n.ctx, ast.Load) and n.id.startswith('_') and not n.id.startswith('__'):
            from ..model import Func
            t = model.resolve_name(fn.module, n)
            if isinstance(t, Func) and t.owner is None and t.parent is None:
                callee = t
        if callee is not None and callee.module.name == AGG:
            out.extend(_reachable_asts(model, cls, callee, depth + 1, seen))
    return out


def check_reducer_name(ctx, R):
    """which pandas reducers a step applies is read off the code that runs as part of the step (helpers included); the
    quotient / variance shapes are read off the symbolic normal form of what the step returns"""
    from ..symexpr import nf
    M = ctx.model
    for cls in agg_classes(M):
        if cls.name not in REDUCERS:
            continue
        must, mustnot = REDUCERS[cls.name]
        for step in ('on_new', 'on_old', 'initial'):
            fn = cls.find(step)
            if fn is None or fn.cls is None or fn.cls.name in ('Aggregation',):
                continue
            used = set()
            for tree in _reachable_asts(M, cls, fn):
                for n in ast.walk(tree):
                    if isinstance(n, ast.Attribute) and n.attr in ('sum', 'count', 'size', 'value_counts') and not (
                            isinstance(n.value, ast.Name) and n.value.id == 'self'):
                        used.add(n.attr)
            okm = must <= used if step != 'initial' or cls.name not in ('Size',) else True
            if step == 'initial' and cls.name in ('Size', 'Var'):
                okm = True
            bad = used & mustnot
            R.ob('REDUCER-NAME', ctx.construct(fn), 'reducers', okm and not bad,
                 '%s.%s uses pandas reducers %s; its name promises %s and excludes %s' % (cls.name, step, sorted(used), sorted(must), sorted(mustnot)),
                 ctx.where(fn, fn.node.lineno))
        if cls.name in ('Var', 'GroupbyVar'):
            for step in ('on_new', 'on_old'):
                fn = cls.find(step)
                sq = any(isinstance(n, ast.BinOp) and isinstance(n.op, ast.Pow) and src(n.right) == '2'
                         for tree in _reachable_asts(M, cls, fn) for n in ast.walk(tree)
                         if tree is fn.node or not getattr(tree, 'name', '').startswith('_compute'))
                R.ob('REDUCER-NAME', ctx.construct(fn), 'sum-of-squares', sq, 'the variance step does not accumulate a sum of squares',
                     ctx.where(fn, fn.node.lineno))
            cr = cls.find('_compute_result')
            if cr is None:
                raise AnalysisError('anchor vanished: %s._compute_result' % cls.name)
            t = src(cr.node).replace(' ', '')
            R.ob('REDUCER-NAME', ctx.construct(cr), 'formula-' + cls.name, 'x2/n-(x/n)**2' in t and 'n/(n-self.ddof)' in t,
                 'the variance formula is not x2/n - (x/n)**2 scaled by n/(n-ddof)', ctx.where(cr, cr.node.lineno))
        if cls.name in ('Mean', 'GroupbyMean'):
            for step in ('on_new', 'on_old'):
                fn = cls.find(step)
                ok, n = True, 0
                for r in _agg_paths(M, cls, fn):
                    ret = r.ret
                    if not (isinstance(ret, ast.Tuple) and len(ret.elts) == 2):
                        raise AnalysisError('%s does not return (state, result)' % ctx.construct(fn))
                    st_, res = ret.elts
                    comps = st_.elts if isinstance(st_, ast.Tuple) else [st_]
                    n += 1
                    # result = totals / counts  (counts possibly replaced by 1 on the scalar-zero guard path)
                    if not (isinstance(res, ast.BinOp) and isinstance(res.op, ast.Div) and len(comps) == 2
                            and nf(res.left) == nf(comps[0]) and nf(res.right) in (nf(comps[1]), '1')):
                        ok = False
                R.ob('REDUCER-NAME', ctx.construct(fn), 'quotient', ok and n > 0, 'the mean is not totals divided by the count',
                     ctx.where(fn, fn.node.lineno), None, n)


def check_window_fifo(ctx, R):
    """on the let-normal form of every path of the diff functions: the history handed back is deque(<incoming history>)
    (a copy), the batch is appended to it exactly once iff it has rows, and the history is only touched at its ends in
    first-in first-out fashion (append / popleft / element 0)"""
    import re
    from ..symexpr import SymEval, nf
    M = ctx.model
    BAD_OPS = ('appendleft', 'pop', 'insert', 'extendleft', 'rotate', 'reverse', 'sort', 'clear', 'remove')
    for name in ('diff_iloc', 'diff_loc', 'diff_expanding', 'diff_align'):
        fn = M.function(AGG, name)
        con = ctx.construct(fn)
        params = fn.params()
        paths = [r for r in SymEval(M, None, name_calls=True).run(fn) if not r.raised and r.ret is not None]
        if not paths:
            raise AnalysisError('%s: no returning path (unrecognised spelling)' % con)
        bad_h, bad_c, bad_a = None, None, None
        for r in paths:
            ret = r.ret
            if not (isinstance(ret, ast.Tuple) and len(ret.elts) == 2):
                raise AnalysisError('%s: does not return a pair (unrecognised spelling)' % con)
            if name == 'diff_align':
                H = params[1]
            else:
                H = nf(ret.elts[0])
                m_ = re.fullmatch(r'C(\d+)', H)
                hc = r.calls[int(m_.group(1))][0] if m_ else None
                if hc is None or nf(hc) != 'deque(%s)' % params[0]:
                    bad_c = bad_c or 'the history handed back is %s, not a copy deque(%s) of the incoming one' % (
                        nf(hc) if hc is not None else H, params[0])
                    continue
                apps = [c for c, s_, l in r.calls if isinstance(c, ast.Call) and nf(c.func) == H + '.append']
                from ..symexpr import norm_cond
                has_rows = None
                for c, o in r.conds:
                    t_, o_ = norm_cond(_expand(r, c, 1), o)
                    if t_.replace(' ', '') in ('len(%s)>0' % params[1], 'len(%s)' % params[1], 'len(%s)!=0' % params[1]):
                        has_rows = o_
                    if t_.replace(' ', '') in ('len(%s)==0' % params[1],):
                        has_rows = not o_
                okargs = all(len(c.args) == 1 and nf(c.args[0]) == params[1] for c in apps)
                if len(apps) > 1 or not okargs or (has_rows is True and len(apps) != 1) or (has_rows is False and apps) \
                        or (has_rows is None and len(apps) != 1):
                    bad_a = bad_a or 'the new batch is appended %d time(s) to the history (rows present: %s)' % (len(apps), has_rows)
            texts = [nf(c) for c, s_, l in r.calls] + [c.replace(' ', '') for c, o in r.conds] + [nf(ret)]
            for c, s_, l in r.calls:
                if isinstance(c, ast.Call) and isinstance(c.func, ast.Attribute) and nf(c.func.value) == H and c.func.attr in BAD_OPS:
                    bad_h = bad_h or '%s.%s()' % (params[0] if name != 'diff_align' else H, c.func.attr)
            for t in texts:
                for m2 in re.finditer(re.escape(H) + r'\[(-?\d+)\]', t):
                    if m2.group(1) != '0':
                        bad_h = bad_h or 'element [%s] of the history' % m2.group(1)
                if 'LAST(%s)' % H in t:
                    bad_h = bad_h or 'the newest element of the history is taken'
        R.ob('WINDOW-FIFO', con, 'history', bad_h is None, 'the window history is not first-in first-out: %s' % bad_h,
             ctx.where(fn, fn.node.lineno), None, len(paths))
        if name != 'diff_align':
            R.ob('WINDOW-FIFO', con, 'copies-history', bad_c is None, bad_c or '', ctx.where(fn, fn.node.lineno))
            R.ob('WINDOW-FIFO', con, 'appends-new', bad_a is None and bad_c is None, bad_a or bad_c or '', ctx.where(fn, fn.node.lineno))


def check_decay_conserves(ctx, R):
    """let-normal form of every path of diff_iloc / diff_loc / diff_align: conservation of rows between the history
    (kept) and the decayed list (returned for on_old).  A violation loses or duplicates rows of the window."""
    import re
    from ..symexpr import SymEval, nf
    M = ctx.model
    for name in ('diff_iloc', 'diff_loc', 'diff_align'):
        fn = M.function(AGG, name)
        con = ctx.construct(fn)
        params = fn.params()
        paths = [r for r in SymEval(M, None, name_calls=True).run(fn) if not r.raised and r.ret is not None]
        if not paths:
            raise AnalysisError('%s: no returning path (unrecognised spelling)' % con)
        bad_split, bad_pop = None, None
        n_split = n_pop = 0
        for r in paths:
            ret = r.ret
            if not (isinstance(ret, ast.Tuple) and len(ret.elts) == 2):
                raise AnalysisError('%s: does not return a pair (unrecognised spelling)' % con)
            if name == 'diff_align':
                H, decayed = params[1], ret.elts[0]
            else:
                H, decayed = nf(ret.elts[0]), ret.elts[1]
            if not isinstance(decayed, ast.List):
                raise AnalysisError('%s: the decayed list is not built in this function (unrecognised spelling)' % con)
            dec = [nf(e) for e in decayed.elts]
            X = 'FIRST(%s)' % H
            for k, (c, s_, l) in enumerate(r.calls):
                # the oldest frame is replaced by its tail
                if isinstance(c, ast.Assign) and nf(c.targets[0]) == H + '[0]':
                    n_split += 1
                    v = nf(c.value)
                    m1 = re.fullmatch(re.escape(X) + r'(\.iloc)?\[(.+):\]', v)
                    if not m1:
                        bad_split = bad_split or 'the oldest frame is replaced by %s, not by a tail slice X[k:] of itself' % v[:60]
                        continue
                    via, K = m1.group(1) or '', m1.group(2)
                    heads = {X + via + '[:%s]' % K}
                    mk = re.fullmatch(r'C(\d+)', K)
                    if mk:
                        kc = nf(r.calls[int(mk.group(1))][0])
                        m2 = re.fullmatch(r'len\((.+)\)', kc)
                        if m2 and m2.group(1).startswith(X):
                            heads.add(m2.group(1))          # k = len(<decayed head>): complementary by count
                    if not (heads & set(dec)):
                        bad_split = bad_split or ('the kept tail is %s but the decayed list holds %s: head and tail are not '
                                                  'complementary slices of the oldest frame' % (v[:50], dec))
                # a whole frame leaves the history
                if isinstance(c, ast.Call) and isinstance(c.func, ast.Attribute) and c.func.attr == 'popleft' and nf(c.func.value) == H:
                    n_pop += 1
                    if 'C%d' % k in dec:
                        continue
                    empty = False

                    def spent(T):
                        # the frame itself, or the tail of it that is left once a head handed to the decayed list is cut off
                        if T == X:
                            return True
                        m1_ = re.fullmatch(re.escape(X) + r'(\.iloc)?\[(.+):\]', T)
                        if not m1_:
                            return False
                        via_, K_ = m1_.group(1) or '', m1_.group(2)
                        heads_ = {X + via_ + '[:%s]' % K_}
                        mk_ = re.fullmatch(r'C(\d+)', K_)
                        if mk_:
                            m2_ = re.fullmatch(r'len\((.+)\)', nf(r.calls[int(mk_.group(1))][0]))
                            if m2_ and m2_.group(1).startswith(X):
                                heads_.add(m2_.group(1))
                        return bool(heads_ & set(dec))
                    for ct, o in r.conds:
                        t = _expand(r, ct, 1).replace(' ', '')
                        for pre, suf, want in (('notlen(', ')', True), ('len(', ')==0', True), ('len(', ')', False), ('len(', ')>0', False)):
                            if t.startswith(pre) and t.endswith(suf) and o is want and spent(t[len(pre):len(t) - len(suf)]):
                                empty = True
                    if not empty:
                        bad_pop = bad_pop or 'a frame is popped from the history without being handed to the decayed list'
        R.ob('DECAY-CONSERVES', con, 'split-complementary', bad_split is None and (n_split > 0 or name == 'diff_expanding'),
             bad_split or 'no path splits the oldest frame (unrecognised spelling)', ctx.where(fn, fn.node.lineno), None, n_split)
        R.ob('DECAY-CONSERVES', con, 'popped-frames-decay', bad_pop is None, bad_pop or '', ctx.where(fn, fn.node.lineno), None, n_pop)


def check_excess_accounting(ctx, R):
    """diff_iloc, let-normal form: E = (sum of len over the history) - window drives the decay loop `while E > 0`;
    a frame popped whole reduces E by that frame's length; a split takes exactly E rows and ends the loop.
    Lemma (trusted): with these three facts the history keeps exactly min(rows, window) newest rows."""
    import re
    from ..symexpr import SymEval, nf
    M = ctx.model
    fn = M.function(AGG, 'diff_iloc')
    con = ctx.construct(fn)
    loops = [l for l in own_nodes(fn.node) if isinstance(l, ast.While)]
    if not loops and not any(isinstance(l, (ast.For, ast.AsyncFor)) for l in own_nodes(fn.node)):
        R.ob('DECAY-CONSERVES', con, 'excess-accounting', False,
             'diff_iloc decays without a loop: when more than one whole frame has to leave (a batch larger than the frames '
             'before it) the surplus rows stay inside the window for that emission', ctx.where(fn, fn.node.lineno))
        return
    if len(loops) != 1 or not (isinstance(loops[0].test, ast.Compare) and len(loops[0].test.ops) == 1
                               and isinstance(loops[0].test.ops[0], ast.Gt) and isinstance(loops[0].test.left, ast.Name)
                               and src(loops[0].test.comparators[0]) == '0'):
        raise AnalysisError('%s: the decay loop is not `while <excess> > 0` (unrecognised spelling)' % con)
    var = loops[0].test.left.id
    paths = [r for r in SymEval(M, None, name_calls=True).run(fn) if not r.raised and r.ret is not None]
    bad = None
    n = 0
    for r in paths:
        H = nf(r.ret.elts[0])
        X = 'FIRST(%s)' % H
        inloop = [(k, c, l) for k, (c, s_, l) in enumerate(r.calls) if l and l[-1][0].startswith('while ')]
        if not inloop:
            continue
        n += 1
        E0 = inloop[0][2][-1][0][len('while '):].replace(' ', '')
        if not E0.endswith('>0'):
            raise AnalysisError('%s: unrecognised decay-loop test %s' % (con, E0))
        E0 = E0[:-2]
        full = _expand(r, E0, 3)
        Hx = _expand(r, H, 3)
        forms = ['sum(map(len,%s))-window' % Hx]
        ok_form = full in forms or re.fullmatch(r'sum\(\(?\[?len\((\w+)\)for\1in%s\]?\)?\)-window' % re.escape(Hx), full) is not None
        if not ok_form:
            if full.startswith(forms[0]) or 'window' not in full:
                bad = bad or 'the excess is %s, not <rows in the history> - window' % full[:70]
                continue
            raise AnalysisError('%s: unrecognised spelling of the excess: %s' % (con, full[:80]))
        final = nf(r.env.get(var)) if r.env.get(var) is not None else ''
        pops = [k for k, c, l in inloop if isinstance(c, ast.Call) and isinstance(c.func, ast.Attribute) and c.func.attr == 'popleft'
                and nf(c.func.value) == H]
        splits = [c for k, c, l in inloop if isinstance(c, ast.Assign) and nf(c.targets[0]) == H + '[0]']
        if pops and not splits:
            suffix = final[len(E0) + 1:] if final.startswith(E0 + '-') else None
            want = {'len(C%d)' % pops[0], 'len(%s)' % X}
            if suffix is None or (suffix not in want and _expand(r, suffix, 1) not in want):
                bad = bad or 'after a whole frame left the history the excess becomes %s, not excess - len(<that frame>)' % (
                    _expand(r, final, 1)[:70])
        elif splits and not pops:
            m1 = re.fullmatch(re.escape(X) + r'\.iloc\[(.+):\]', nf(splits[0].value))
            if m1 and m1.group(1) != E0:
                bad = bad or 'the split keeps the tail from position %s, not from the excess %s' % (m1.group(1), E0)
            ended = final == '0' or any(c_ == '<break>' for c_, o in r.conds)
            if not ended:
                bad = bad or 'after the split the decay loop goes on (excess is %s)' % final[:40]
        elif splits and pops:
            bad = bad or 'one iteration both pops and splits the oldest frame'
    R.ob('DECAY-CONSERVES', con, 'excess-accounting', bad is None and n > 0, bad or 'no path enters the decay loop',
         ctx.where(fn, loops[0].lineno), None, n)


# ----------------------------------------------------------------------------- OPERATOR-TABLE (C06: elementwise expressions)
_BINARY = {'add', 'sub', 'mul', 'truediv', 'floordiv', 'mod', 'pow', 'lshift', 'rshift', 'and', 'or', 'xor', 'matmul'}
_COMPARE = {'eq', 'ne', 'lt', 'le', 'gt', 'ge'}
_UNARY = {'abs', 'neg', 'pos', 'invert', 'inv'}


def _operator_expectation(name):
    """(operator function name, reflected?) prescribed by the Python data model for the special method name, or None"""
    core = name[2:-2]
    fn = lambda b: {'and': 'and_', 'or': 'or_'}.get(b, b)
    if core in _BINARY or core in _COMPARE:
        return fn(core), False, 2
    if core.startswith('r') and core[1:] in _BINARY:
        return fn(core[1:]), True, 2
    if core in _UNARY:
        return core, False, 1
    return None


def check_operator_table(ctx, R):
    from ..symexpr import SymEval, nf
    M = ctx.model
    cls = M.cls('streamz.collection', 'OperatorMixin')
    for mname, fn in sorted(cls.methods.items()):
        if not (mname.startswith('__') and mname.endswith('__')):
            continue
        exp = _operator_expectation(mname)
        if exp is None:
            continue
        opname, reflected, arity = exp
        con = ctx.construct(fn)
        params = fn.params()
        paths = [r for r in SymEval(M, cls).run(fn) if not r.raised]
        ok, detail = len(paths) == 1 and len(params) == arity, ''
        if not ok:
            detail = '%s has %d path(s) / parameters %s' % (mname, len(paths), params)
        else:
            got = nf(paths[0].ret)
            if arity == 1:
                want = 'self.map_partitions(operator.%s,self)' % opname
            elif reflected:
                want = 'self.map_partitions(operator.%s,%s,self)' % (opname, params[1])
            else:
                want = 'self.map_partitions(operator.%s,self,%s)' % (opname, params[1])
            ok = got == want
            detail = '%s returns %s, the data model prescribes %s' % (mname, got, want)
        R.ob('OPERATOR-TABLE', con, mname, ok, detail, ctx.where(fn, fn.node.lineno))
    # the reconstruction of the positional argument order in map_partitions
    import re
    pbo = M.function('streamz.collection', 'partial_by_order')
    paths = [r for r in SymEval(M, None, name_calls=True).run(pbo) if not r.raised and r.ret is not None]
    ok, detail = bool(paths), 'no returning path'
    for r in paths:
        fin = re.fullmatch(r'C(\d+)', nf(r.ret))
        fc = r.calls[int(fin.group(1))][0] if fin else None
        star = [a_ for a_ in fc.args if isinstance(a_, ast.Starred)] if isinstance(fc, ast.Call) else []
        if len(star) != 1 or len(fc.args) != 1:
            ok, detail = False, 'the function is not applied to the rebuilt argument list (`function(*<list>, **kwargs)`)'
            continue
        L = nf(star[0].value)
        mk = re.fullmatch(r'C(\d+)', L)
        made = nf(r.calls[int(mk.group(1))][0]) if mk else L
        if not (made in ('list(args)', 'list(args[:])', '[*args]') or re.fullmatch(r'\[(\w+)for\1inargs\]', made)):
            ok, detail = False, 'the argument list is %s, not a copy of the positional arguments' % made[:50]
            continue
        ko = next((k for k, (c, s_, l) in enumerate(r.calls) if isinstance(c, ast.Call) and nf(c.func) == 'kwargs.pop' and c.args
                   and nf(c.args[0]) == "'other'"), None)
        if ko is None:
            ok, detail = False, "the recorded (position, argument) pairs are not taken from kwargs['other']"
            continue
        O = 'C%d' % ko
        good_ins = '%s.insert(FIRST(ELEM(%s)),ELEM(%s)[1])' % (L, O, O)
        muts = [nf(c) for c, s_, l in r.calls if isinstance(c, ast.Call) and isinstance(c.func, ast.Attribute) and nf(c.func.value) == L
                and c.func.attr in ('insert', 'append', 'extend', 'pop', 'remove', 'reverse', 'sort', 'clear')]
        in_loop = any(l and l[-1][0].replace(' ', '') == O for c, s_, l in r.calls)
        if in_loop and not muts:
            ok, detail = False, 'the recorded non-stream arguments are not inserted into the argument list'
        if any(t != good_ins for t in muts):
            ok, detail = False, 'a non-stream argument is not inserted at its recorded position: %s' % [t for t in muts if t != good_ins][:1]
    R.ob('OPERATOR-TABLE', ctx.construct(pbo), 'argument-order', ok, detail, ctx.where(pbo, pbo.node.lineno), None, len(paths))


def check_full_positional(ctx, R):
    """Full is exempt from MIRROR (concat vs drop is no algebraic inverse); its own two idioms are decided here"""
    from ..symexpr import nf
    M = ctx.model
    cls = M.cls(AGG, 'Full')
    for step, accept in (('on_new', None), ('on_old', None)):
        fn = cls.find(step)
        if fn is None:
            raise AnalysisError('anchor vanished: Full.%s' % step)
        params = fn.params()
        A, B = params[1], params[2]
        bad, n = None, 0
        for r in _agg_paths(M, cls, fn):
            ret = r.ret
            if not (isinstance(ret, ast.Tuple) and len(ret.elts) == 2):
                raise AnalysisError('Full.%s does not return (state, result)' % step)
            n += 1
            st_, res = nf(ret.elts[0]), nf(ret.elts[1])
            if st_ != res:
                bad = bad or 'state and result differ (%s vs %s)' % (st_[:40], res[:40])
            if step == 'on_new':
                if not (st_.endswith('concat([%s,%s])' % (A, B)) or st_ == A and any('len(' in c for c, o in r.conds)):
                    bad = bad or 'the window becomes %s, not concat([window, batch])' % st_[:60]
            else:
                if st_ not in ('%s.iloc[len(%s):]' % (A, B), '%s[len(%s):]' % (A, B)):
                    if any(w in st_ for w in ('.index', 'isin(', '.drop(', '.loc[')):
                        bad = bad or 'decayed rows are identified by index label (%s): labels repeat across batches, so rows that ' \
                                     'are still inside the window are dropped with them' % st_[:60]
                    else:
                        raise AnalysisError('Full.on_old: unrecognised spelling of the positional drop: %s' % st_[:80])
        R.ob('FULL-POSITIONAL', ctx.construct(fn), step, bad is None and n > 0, bad or '', ctx.where(fn, fn.node.lineno), None, n)


# ----------------------------------------------------------------------------- C11: carry-over plumbing
def _only_call(r, pred):
    hits = [k for k, (c, s_, l) in enumerate(r.calls) if isinstance(c, ast.Call) and pred(c)]
    return hits


def check_carry_plumb(ctx, R):
    """identity / order facts of rolling_accumulator and _cumulative_accumulator on their let-normal forms.  Not decided:
    how many rows the rolling carry has to keep (the slice bound) and what pandas computes."""
    import re
    from ..symexpr import SymEval, nf
    M = ctx.model
    # ---- rolling
    fn = M.function(DFC, 'rolling_accumulator')
    con = ctx.construct(fn)
    P = fn.params()
    carry, batch = P[0], P[1]
    bad = {}
    n = 0
    for r in [x for x in SymEval(M, None, name_calls=True).run(fn) if not x.raised and x.ret is not None]:
        n += 1
        if not (isinstance(r.ret, ast.Tuple) and len(r.ret.elts) == 2):
            raise AnalysisError('%s does not return (carry, result)' % con)
        lens = _only_call(r, lambda c: nf(c) == 'len(%s)' % carry)
        nonempty = None
        for c_, o in r.conds:
            t = c_.replace(' ', '')
            if lens and t in ('C%d' % lens[0], 'C%d>0' % lens[0]):
                nonempty = o
            if lens and t in ('notC%d' % lens[0], 'C%d==0' % lens[0]):
                nonempty = not o
        cc = _only_call(r, lambda c: isinstance(c.func, ast.Attribute) and c.func.attr == 'concat')
        if nonempty:
            if len(cc) != 1 or nf(r.calls[cc[0]][0].args[0]) != '[%s,%s]' % (carry, batch):
                bad.setdefault('concat-order', 'with a carry the frame is %s, not concat([%s, %s]) (carried rows first)' % (
                    nf(r.calls[cc[0]][0])[:60] if cc else 'not concatenated', carry, batch))
                continue
            DF = 'C%d' % cc[0]
        else:
            if cc:
                bad.setdefault('concat-order', 'an empty carry is concatenated')
            DF = batch
        # (the pandas rolling object may have a name of its own: then the receiver is the symbol of a `<frame>.rolling(window)` call)
        def recv_text(c):
            t = nf(c.func)
            m_ = re.match(r'getattr\((C\d+),', t)
            if m_ and int(m_.group(1)[1:]) < len(r.calls):
                inner = nf(r.calls[int(m_.group(1)[1:])][0])
                if inner.endswith('.rolling(window)'):
                    t = 'getattr(' + inner + t[len(m_.group(0)) - 1:]
            return t
        ag = _only_call(r, lambda c: nf(c.func).startswith('getattr(') and '.rolling(' in recv_text(c))
        if len(ag) != 1 or not recv_text(r.calls[ag[0]][0]).startswith('getattr(%s.rolling(window),' % DF):
            bad.setdefault('aggregates-concatenation', 'the rolling aggregate is not computed on the concatenation %s' % DF)
            continue
        AGG = 'C%d' % ag[0]
        newc, res = nf(r.ret.elts[0]), nf(r.ret.elts[1])
        if not lens or res != '%s.iloc[C%d:]' % (AGG, lens[0]):
            bad.setdefault('drops-carried-rows', 'the emitted result is %s, not <aggregate>.iloc[len(%s):]: the rows of the carry are '
                           'not exactly the rows that are dropped' % (res[:60], carry))
        if re.fullmatch(re.escape(DF) + r'\.tail\(window\)', _expand(r, newc, 1)):
            continue
        if not re.fullmatch(re.escape(DF) + r'\.(iloc|loc)\[[^:\]]+:\]', newc):
            bad.setdefault('carry-is-suffix', 'the new carry is %s, not a suffix %s.iloc[-k:] / %s.loc[t:] of the concatenation'
                           % (newc[:60], DF, DF))
            continue
        # where the suffix starts: a row cut counts from the end; a time cut is measured from the newest row of the WHOLE frame
        kind, bound = re.fullmatch(re.escape(DF) + r'\.(iloc|loc)\[([^:\]]+):\]', newc).groups()
        lens_df = ['C%d' % k for k in _only_call(r, lambda c: nf(c) == 'len(%s)' % DF)]
        if kind == 'iloc':
            b1 = _expand(r, bound, 1) if re.fullmatch(r'C\d+', bound) else bound
            if b1 == '-window':
                pass
            elif any(b1 in ('max(%s-window,0)' % L, 'max(0,%s-window)' % L) for L in lens_df):
                pass
            elif any(bound == '%s-window' % L for L in lens_df):
                bad.setdefault('carry-bound', 'the row cut starts at len(%s) - window: while fewer than `window` rows have been seen that '
                               'is negative and counts from the end, so carried rows are dropped' % DF)
            else:
                raise AnalysisError('%s: the row cut %s of the carry is not a spelling this check knows' % (con, _expand(r, newc, 2)[:80]))
        else:
            m = re.fullmatch(r'(C\d+)-window', bound)
            src_ = nf(r.calls[int(m.group(1)[1:])][0]) if m else None
            if src_ in ('%s.index.max()' % DF, '%s.index.max()' % AGG):
                pass
            elif src_ is not None and src_.endswith('.index.max()') and (src_.startswith(AGG + '.') or src_.startswith(DF + '.') or src_.startswith(batch + '.')):
                bad.setdefault('carry-bound', 'the time cut is measured from %s, a part of the frame: for an empty batch that is NaT and the '
                               'whole carry is dropped' % _expand(r, src_, 1)[:80])
            else:
                raise AnalysisError('%s: the time cut %s of the carry is not a spelling this check knows' % (con, _expand(r, newc, 2)[:80]))
    for tok in ('concat-order', 'aggregates-concatenation', 'drops-carried-rows', 'carry-is-suffix', 'carry-bound'):
        R.ob('CARRY-PLUMB', con, tok, tok not in bad and n > 0, bad.get(tok, ''), ctx.where(fn, fn.node.lineno), None, n)
    # ---- cumulative
    fn = M.function(DFC, '_cumulative_accumulator')
    con = ctx.construct(fn)
    P = fn.params()
    carry, batch = P[0], P[1]
    bad = {}
    n = 0
    for r in [x for x in SymEval(M, None, name_calls=True).run(fn) if not x.raised and x.ret is not None]:
        n += 1
        if not (isinstance(r.ret, ast.Tuple) and len(r.ret.elts) == 2):
            raise AnalysisError('%s does not return (carry, result)' % con)
        newc, res = nf(r.ret.elts[0]), nf(r.ret.elts[1])

        def outcome_of(name):
            ks = _only_call(r, lambda c: nf(c) == 'len(%s)' % name)
            if not ks:
                return None
            for c_, o in r.conds:
                t = c_.replace(' ', '')
                if t in ('C%d' % ks[0], 'C%d>0' % ks[0]):
                    return o
                if t in ('notC%d' % ks[0], 'C%d==0' % ks[0]):
                    return not o
            return None
        has_batch, has_carry = outcome_of(batch), outcome_of(carry)
        if has_batch is False:
            if (newc, res) != (carry, batch):
                bad.setdefault('empty-batch', 'an empty batch does not leave the carry untouched (returns %s, %s)' % (newc[:40], res[:40]))
            continue
        cc = _only_call(r, lambda c: isinstance(c.func, ast.Attribute) and c.func.attr == 'concat')
        if has_carry:
            if len(cc) != 1 or nf(r.calls[cc[0]][0].args[0]) != '[%s,%s]' % (carry, batch):
                bad.setdefault('concat-order', 'the seed row is not put in front of the batch (concat([%s, %s]))' % (carry, batch))
                continue
            DF = 'C%d' % cc[0]
        else:
            DF = batch
        ag = _only_call(r, lambda c: nf(c.func) == 'getattr(%s,op)' % DF)
        if len(ag) != 1:
            bad.setdefault('aggregates-concatenation', 'the cumulative operation is not applied to %s' % DF)
            continue
        AGG = 'C%d' % ag[0]
        if newc != '%s.iloc[-1:]' % AGG:
            bad.setdefault('carry-is-suffix', 'the new seed is %s, not the last row of the result' % newc[:60])
        want = ('REST(%s)' % AGG, '%s.iloc[1:]' % AGG) if has_carry else (AGG,)
        if res not in want:
            bad.setdefault('drops-carried-rows', 'the emitted result is %s, expected %s (the seed row, and only it, is dropped)'
                           % (res[:60], want[0]))
    for tok in ('empty-batch', 'concat-order', 'aggregates-concatenation', 'drops-carried-rows', 'carry-is-suffix'):
        R.ob('CARRY-PLUMB', con, tok, tok not in bad and n > 0, bad.get(tok, ''), ctx.where(fn, fn.node.lineno), None, n)
    # ---- wiring: the accumulators are folded with state exposure switched on and the right initial carry
    fr = M.cls(DFC, 'Rolling').find('_known_aggregation')
    fc = None
    for c in M.module(DFC).classes.values():
        if '_cumulative_aggregation' in c.methods:
            fc = (c, c.methods['_cumulative_aggregation'])
    for label, cls_, f_, acc_name, kw in (('rolling', M.cls(DFC, 'Rolling'), fr, 'rolling_accumulator', {'returns_state': 'True', 'start': 'self.start', 'window': 'self.window'}),
                                          ('cumulative', fc[0] if fc else None, fc[1] if fc else None, '_cumulative_accumulator', {'returns_state': 'True', 'start': '()'})):
        if f_ is None:
            raise AnalysisError('anchor vanished: the %s aggregation method' % label)
        ok, detail = True, ''
        ps = [r for r in SymEval(M, cls_, no_splice=('accumulate_partitions',)).run(f_) if not r.raised]
        for r in ps:
            calls = [c for c, s_, l in r.calls if isinstance(c, ast.Call) and isinstance(c.func, ast.Attribute) and c.func.attr == 'accumulate_partitions']
            if len(calls) != 1 or not calls[0].args or nf(calls[0].args[0]) != acc_name:
                ok, detail = False, 'accumulate_partitions is not folded with %s' % acc_name
                continue
            got = {k.arg: nf(k.value) for k in calls[0].keywords if k.arg}
            for k_, v_ in kw.items():
                if got.get(k_) != v_:
                    ok, detail = False, 'accumulate_partitions(..., %s=%s), expected %s' % (k_, got.get(k_), v_)
        R.ob('CARRY-PLUMB', ctx.construct(f_), 'wiring', ok and bool(ps), detail, ctx.where(f_, f_.node.lineno))


def check_ewm_rows(ctx, R):
    """EWMean.on_new walks the batch row by row; what it emits must have a row for each of them"""
    from ..symexpr import SymEval, nf
    M = ctx.model
    cls = M.cls(AGG, 'EWMean')
    fn = cls.find('on_new')
    con = ctx.construct(fn)
    batch = fn.params()[2]
    bad, n = None, 0
    for r in [x for x in SymEval(M, cls, name_calls=True).run(fn) if not x.raised and x.ret is not None]:
        if not (isinstance(r.ret, ast.Tuple) and len(r.ret.elts) == 2):
            raise AnalysisError('%s does not return (state, result)' % con)
        n += 1
        st_, res = r.ret.elts
        comps = st_.elts if isinstance(st_, ast.Tuple) else [st_]
        per_row = any(l and 'len(%s)' % batch in _expand(r, l[-1][0].replace(' ', ''), 2) for c, s_, l in r.calls) or \
            'ELEM(' in nf(res)
        if per_row and any(nf(res) == nf(c) for c in comps):
            bad = ('the batch is processed row by row but the emitted result is the value carried to the next batch (one row): '
                   'for a batch of k rows, k-1 rows of what pandas.ewm().mean() returns are never emitted')
    R.ob('EWM-ROWS', con, 'one-row-per-row', bad is None and n > 0, bad or '', ctx.where(fn, fn.node.lineno), None, n)
    # the first-batch marker: initial() hands out (first row, weight, True) - "the first row of the next batch is already in the
    # mean". If the batch it was built from was empty there is no such row, so the marker may be cleared only on a path that
    # looked whether a row exists (a test on the size of the batch or of the carried result); clearing it blindly leaves an
    # empty seed behind for ever
    ini = cls.find('initial')
    marker = None
    if ini is not None:
        for r in [x for x in SymEval(M, cls).run(ini) if not x.raised and x.ret is not None]:
            if isinstance(r.ret, ast.Tuple):
                for i, e in enumerate(r.ret.elts):
                    if isinstance(e, ast.Constant) and e.value is True:
                        marker = i
    if marker is None:
        R.note('EWM-ROWS: EWMean.initial() hands out no first-batch marker (no constant True component); marker clause not applicable')
        return
    bad, n = None, 0
    for r in [x for x in SymEval(M, cls, name_calls=True).run(fn) if not x.raised and x.ret is not None]:
        st_ = r.ret.elts[0]
        comps = st_.elts if isinstance(st_, ast.Tuple) else [st_]
        if marker >= len(comps):
            continue
        n += 1
        m = comps[marker]
        if isinstance(m, ast.Constant) and m.value is False:
            looked = any(('len(' in _expand(r, c.replace(' ', ''), 2) and 'range(' not in _expand(r, c.replace(' ', ''), 2))
                         or '.empty' in _expand(r, c.replace(' ', ''), 2) for c, o in r.conds if not c.startswith('<'))
            if not looked:
                bad = ('on_new clears the first-batch marker without ever testing whether a row exists: when the aggregation was '
                       'initialised from an empty batch (initial() keeps new.iloc[:1], i.e. nothing) the seed stays empty for ever '
                       'and every later result is empty')
    R.ob('EWM-ROWS', con, 'first-marker-needs-a-row', bad is None and n > 0, bad or '', ctx.where(fn, fn.node.lineno), None, n)
