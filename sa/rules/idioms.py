"""Small named mechanisms decided as "idiom + one library lemma" (DESIGN 4.13).

Each rule lists structural facts that, together with the stated lemma, imply the clause.  Facts are checked on
value-flow normal forms: single-definition locals are substituted, `a += b` == `a = a + b`, `+`/max are
commutative where the lemma allows.  An unrecognised spelling is an AnalysisError (exit 2), never a violation.
"""
import ast

from ..model import AnalysisError, own_nodes, src, self_field
from ..paths import fmt_path
from .holds import is_failure

RULES = {
    'RESERVE-ALGEBRA': 'rate_limit: the new reservation, stored before the first suspension, is max(now, previous) + interval; '
                       'the node sleeps iff now < previous, for previous - now, then emits once',
    'SPLIT-CARRY': 'from_textfile: split(carry ++ new data); the carry becomes the LAST piece, every other piece is emitted once, '
                   'in order, with the delimiter re-appended; no other write to the carry (lemma: d.join(s.split(d)) == s)',
    'SEEN-SET': 'filenames: candidates = glob - seen, iterated in sorted order, each added to seen before its emission is awaited; '
                'nothing removes from seen',
}


def local_defs(fn_node):
    """name -> list of value nodes assigned to that local anywhere in the function (own statements only)"""
    d = {}
    for n in own_nodes(fn_node):
        if isinstance(n, ast.Assign):
            for t in n.targets:
                if isinstance(t, ast.Name):
                    d.setdefault(t.id, []).append(n.value)
                elif isinstance(t, (ast.Tuple, ast.List)):
                    for e in ast.walk(t):
                        if isinstance(e, ast.Name):
                            d.setdefault(e.id, []).append(None)
        elif isinstance(n, ast.AugAssign) and isinstance(n.target, ast.Name):
            d.setdefault(n.target.id, []).append(None)
        elif isinstance(n, (ast.For, ast.AsyncFor)):
            for e in ast.walk(n.target):
                if isinstance(e, ast.Name):
                    d.setdefault(e.id, []).append(None)
        elif isinstance(n, ast.NamedExpr) and isinstance(n.target, ast.Name):
            d.setdefault(n.target.id, []).append(n.value)
    return d


def norm(node, defs, depth=0):
    """canonical text of an expression with single-definition locals substituted and +/max arguments sorted"""
    if node is None:
        return 'None'
    if isinstance(node, ast.Name):
        vals = defs.get(node.id)
        if vals and len(vals) == 1 and vals[0] is not None and depth < 6:
            return norm(vals[0], defs, depth + 1)
        return node.id
    if isinstance(node, ast.BinOp) and isinstance(node.op, ast.Add):
        return '(' + ' + '.join(sorted([norm(node.left, defs, depth), norm(node.right, defs, depth)])) + ')'
    if isinstance(node, ast.BinOp) and isinstance(node.op, ast.Sub):
        return '(' + norm(node.left, defs, depth) + ' - ' + norm(node.right, defs, depth) + ')'
    if isinstance(node, ast.Call) and isinstance(node.func, ast.Name) and node.func.id in ('max', 'min') and not node.keywords:
        return node.func.id + '(' + ', '.join(sorted(norm(a, defs, depth) for a in node.args)) + ')'
    if isinstance(node, ast.Call):
        f = src(node.func)
        if f in ('time', 'time.time'):
            return 'NOW'
        return f + '(' + ', '.join([norm(a, defs, depth) for a in node.args] +
                                   ['%s=%s' % (k.arg, norm(k.value, defs, depth)) for k in node.keywords]) + ')'
    if isinstance(node, ast.Compare) and len(node.ops) == 1:
        l, r = norm(node.left, defs, depth), norm(node.comparators[0], defs, depth)
        op = node.ops[0]
        if isinstance(op, ast.Gt):
            return '%s < %s' % (r, l)
        if isinstance(op, ast.GtE):
            return '%s <= %s' % (r, l)
        return '%s %s %s' % (l, {ast.Lt: '<', ast.LtE: '<=', ast.Eq: '==', ast.NotEq: '!=', ast.In: 'in', ast.NotIn: 'not in',
                                 ast.Is: 'is', ast.IsNot: 'is not'}.get(type(op), '?'), r)
    return src(node)


# ----------------------------------------------------------------------------- RESERVE-ALGEBRA (C13)
def check_reserve_algebra(ctx, R):
    M = ctx.model
    cls = M.cls('streamz.core', 'rate_limit')
    fn = cls.methods.get('update')
    if fn is None:
        raise AnalysisError('anchor vanished: rate_limit.update')
    con = ctx.construct(fn)
    defs = local_defs(fn.node)
    # the reservation field: the field written from a value depending on itself
    stores = [n for n in own_nodes(fn.node) if isinstance(n, (ast.Assign, ast.AugAssign)) and any(
        self_field(t) is not None and isinstance(t, ast.Attribute)
        for t in (n.targets if isinstance(n, ast.Assign) else [n.target]))]
    if len(stores) != 1:
        R.ob('RESERVE-ALGEBRA', con, 'single-store', False,
             'the reservation must be written exactly once per element (found %d field stores)' % len(stores),
             ctx.where(fn, fn.node.lineno))
        return
    st = stores[0]
    tgt = st.targets[0] if isinstance(st, ast.Assign) else st.target
    f = self_field(tgt)
    # locals that snapshot the field BEFORE the store are "previous"
    prev_names = {n for n, vals in defs.items() if len(vals) == 1 and vals[0] is not None and
                  isinstance(vals[0], ast.Attribute) and self_field(vals[0]) == f}
    d2 = {k: v for k, v in defs.items() if k not in prev_names}

    def nf(node):
        s = norm(node, d2)
        for p in prev_names:
            s = _replace_name(s, p, 'PREV')
        return s.replace('self.' + f, 'PREV').replace('self.interval', 'INTERVAL')

    val = st.value if isinstance(st, ast.Assign) else ast.BinOp(left=tgt, op=st.op, right=st.value)
    got = nf(val)
    R.ob('RESERVE-ALGEBRA', con, 'new-reservation', got in ('(INTERVAL + max(NOW, PREV))', '(max(NOW, PREV) + INTERVAL)'),
         'the stored reservation is %s, expected max(now, previous) + interval' % got, ctx.where(fn, st.lineno))
    # sleeps iff now < previous, for previous - now
    sleeps = [n for n in own_nodes(fn.node) if isinstance(n, (ast.Yield, ast.Await)) and isinstance(n.value, ast.Call)
              and src(n.value.func).split('.')[-1] == 'sleep']
    ok, detail = True, ''
    if len(sleeps) != 1:
        ok, detail = False, 'expected exactly one sleep, found %d' % len(sleeps)
    else:
        sl = sleeps[0]
        arg = nf(sl.value.args[0]) if sl.value.args else None
        if arg != '(PREV - NOW)':
            ok, detail = False, 'sleeps for %s, expected previous - now' % arg
        guard = None
        for n in own_nodes(fn.node):
            if isinstance(n, ast.If) and any(x is sl for s in n.body for x in ast.walk(s)):
                guard = n
        if guard is None:
            ok, detail = False, 'the sleep is unconditional: an element arriving on an idle line is delayed'
        else:
            g = nf(guard.test)
            if g not in ('NOW < PREV',):
                ok, detail = False, 'sleeps when %s, expected now < previous' % g
            if guard.orelse:
                ok, detail = False, 'unexpected else-branch on the sleep guard'
    R.ob('RESERVE-ALGEBRA', con, 'sleep', ok, detail, ctx.where(fn, sleeps[0].lineno if sleeps else fn.node.lineno))
    # order on every path: snapshot read, store, [sleep], emit; `now` is read once, before the store
    bad, n = None, 0
    detail = ''
    for pst, status in ctx.paths(fn, cls):
        evs = pst.events
        if is_failure(evs, status):
            continue
        n += 1
        i_st = next((i for i, e in enumerate(evs) if e.kind == 'ST' and e.a == f), None)
        i_sus = next((i for i, e in enumerate(evs) if e.kind == 'SUS'), None)
        ems = [i for i, e in enumerate(evs) if e.kind == 'EM']
        nows = [i for i, e in enumerate(evs) if e.kind == 'CALL' and e.a in ('time', 'time.time')]
        if i_st is None or (i_sus is not None and i_sus < i_st):
            bad, detail = evs, 'the reservation is not stored before the first suspension'
        elif len(ems) != 1 or ems[0] < i_st:
            bad, detail = evs, 'expected exactly one emission after the reservation'
        elif len(nows) != 1 or nows[0] > i_st:
            bad, detail = evs, 'the clock must be read exactly once, before the reservation is stored'
    R.ob('RESERVE-ALGEBRA', con, 'order', bad is None and n > 0, detail, ctx.where(fn, fn.node.lineno),
         fmt_path(bad) if bad else None, n)
    # initial reservation lies in the past (an idle line passes at once)
    init = cls.methods.get('__init__')
    iv = [n.value for n in own_nodes(init.node) if isinstance(n, ast.Assign) and self_field(n.targets[0]) == f] if init else []
    R.ob('RESERVE-ALGEBRA', con, 'initial', len(iv) == 1 and isinstance(iv[0], ast.Constant) and iv[0].value == 0,
         'the initial reservation is not 0 (the first element would be delayed or the slot is undefined)',
         ctx.where(init, init.node.lineno) if init else None)


def _replace_name(s, name, repl):
    import re
    return re.sub(r'(?<![\w.])' + re.escape(name) + r'(?![\w])', repl, s)


# ----------------------------------------------------------------------------- SPLIT-CARRY (C17)
def _sym_paths(ctx, cls, fn):
    from ..symexpr import SymEval
    return [r for r in SymEval(ctx.model, cls).run(fn) if not r.raised]


def check_split_carry(ctx, R):
    """facts on symbolic normal forms (temporaries, helper extraction, early returns, star-unpack, += are all
    transparent):  S = (carry + read).split(delimiter);  emitted = ELEM(INIT(S)) + delimiter in a loop over INIT(S);
    new carry = LAST(S), written before the first suspension;  without a delimiter the carry is carry + read"""
    from ..symexpr import nf
    M = ctx.model
    cls = M.cls('streamz.sources', 'from_textfile')
    fn = cls.methods.get('_run')
    if fn is None:
        raise AnalysisError('anchor vanished: from_textfile._run')
    con = ctx.construct(fn)
    paths = _sym_paths(ctx, cls, fn)
    fields = {f for r in paths for f, v, s_, l in r.stores}
    if len(fields) != 1:
        R.ob('SPLIT-CARRY', con, 'single-carry', False, 'expected exactly one carry field written by the polling cycle, found %s'
             % sorted(fields), ctx.where(fn, fn.node.lineno))
        return
    carry = fields.pop()
    B0 = 'self.' + carry
    reads = set()
    for r in paths:
        for c, o in r.conds:
            for m_ in __import__('re').findall(r'self\.\w+\.read(?:line)?\(\)', c.replace(' ', '')):
                reads.add(m_)
        for f, v, s_, l in r.stores:
            for m_ in __import__('re').findall(r'self\.\w+\.read(?:line)?\(\)', nf(v)):
                reads.add(m_)
    if len(reads) != 1:
        raise AnalysisError('from_textfile._run: cannot identify the read() whose data is split (found %s): unrecognised spelling'
                            % sorted(reads))
    RD = reads.pop()
    CONCAT = '%s+%s' % (B0, RD)
    S = '(%s).split(self.delimiter)' % CONCAT
    emitting = [r for r in paths if r.emits]
    if not emitting:
        raise AnalysisError('from_textfile._run: no path emits (unrecognised spelling)')
    bad = {}

    def fail(tok, msg):
        bad.setdefault(tok, msg)

    for r in emitting:
        for data, md, susp, loop in r.emits:
            if not loop:
                fail('emit-each-piece-once-in-order', 'a piece is emitted outside the loop over the pieces')
                continue
            it = loop[-1][0].replace(' ', '')
            if it != 'INIT(%s)' % S:
                if S in it or 'split' in it:
                    fail('emit-each-piece-once-in-order' if it.startswith(('reversed', 'sorted', 'set', 'REST', 'INIT(INIT')) or 'REST(' in it
                         else 'split-receiver',
                         'the emitting loop iterates %s; expected all pieces but the last of (carry + read).split(delimiter), in list order' % loop[-1][0])
                else:
                    fail('split-receiver', 'the emitting loop iterates %s, which is not the split of <carried buffer> + <newly read data>' % loop[-1][0])
            elif nf(data) != 'ELEM(INIT(%s))+self.delimiter' % S:
                fail('emit-each-piece-once-in-order', 'a piece is emitted as %s, not <piece> + self.delimiter' % src(data)[:80])
            if md is not None:
                fail('emit-each-piece-once-in-order', 'pieces are emitted with metadata')
        if len(r.emits) != 1:
            fail('emit-each-piece-once-in-order', 'a piece is emitted %d times per iteration' % len(r.emits))
        if any(i not in r.awaited for i in range(len(r.emits))):
            fail('emit-each-piece-once-in-order', 'the emission of a piece is not awaited before the next one')
        st = [(v, s_) for f, v, s_, l in r.stores if f == carry]
        if not st or nf(st[-1][0]) != 'LAST(%s)' % S:
            fail('carry-is-last-piece', 'after emitting, the carried buffer is %s; expected the last element of the split'
                 % (src(st[-1][0])[:80] if st else 'unchanged'))
        if any(s_ > 0 for v, s_ in st):
            fail('carry-written-once-before-suspension', 'the carried buffer is written after a suspension of the polling cycle')
        first_emit_susp = min(e[2] for e in r.emits)
        if any(l for f, v, s_, l in r.stores if f == carry):
            fail('carry-written-once-before-suspension', 'the carried buffer is written inside the emitting loop')
    for r in paths:
        if any(c in ('<continue>', '<break>') for c, o in r.conds):
            fail('emit-each-piece-once-in-order', 'the emitting loop can skip pieces (break/continue)')
        if r.emits:
            continue
        got_data = any(c.replace(' ', '') == RD and o for c, o in r.conds) or any(
            c.replace(' ', '') == 'not' + RD and not o for c, o in r.conds)
        st = [(v, s_) for f, v, s_, l in r.stores if f == carry]
        if got_data:
            if not st:
                fail('carry-written-once-before-suspension', 'data was read but the carried buffer was not extended')
            elif nf(st[-1][0]) not in (CONCAT, 'LAST(%s)' % S):
                fail('split-receiver', 'without a complete record the carried buffer becomes %s; expected <carried buffer> + <newly read data>'
                     % src(st[-1][0])[:80])
        elif st and nf(st[-1][0]) != B0:
            fail('carry-written-once-before-suspension', 'the carried buffer is changed although nothing was read')
    for tok in ('split-receiver', 'carry-is-last-piece', 'emit-each-piece-once-in-order', 'carry-written-once-before-suspension'):
        R.ob('SPLIT-CARRY', con, tok, tok not in bad, bad.get(tok, ''), ctx.where(fn, fn.node.lineno), None, len(paths))
    R.ob('SPLIT-CARRY', con, 'single-carry', True)


# ----------------------------------------------------------------------------- SEEN-SET (C17)
def check_seen_set(ctx, R):
    from ..symexpr import nf
    M = ctx.model
    cls = M.cls('streamz.sources', 'filenames')
    fn = cls.methods.get('_run')
    if fn is None:
        raise AnalysisError('anchor vanished: filenames._run')
    con = ctx.construct(fn)
    paths = _sym_paths(ctx, cls, fn)
    emitting = [r for r in paths if r.emits]
    if not emitting:
        raise AnalysisError('filenames._run: no path emits (unrecognised spelling)')
    WANT = ('sorted(set(glob(self.path))-self.seen)',)
    bad = {}
    for r in emitting:
        for i, (data, md, susp, loop) in enumerate(r.emits):
            it = loop[-1][0].replace(' ', '') if loop else None
            if it not in WANT:
                bad.setdefault('sorted-candidates', 'the loop iterates %s; expected sorted(set(glob(self.path)) - self.seen)'
                               % (loop[-1][0] if loop else 'nothing'))
                continue
            if nf(data) != 'ELEM(%s)' % it:
                bad.setdefault('record-before-await', 'the emitted value is %s, not the loop variable' % src(data)[:60])
            adds = [(c, s_) for c, s_, l in r.calls if nf(c) == 'self.seen.add(ELEM(%s))' % it and l and l[-1][0].replace(' ', '') == it]
            if not adds:
                bad.setdefault('record-before-await', 'the path is not recorded in self.seen')
            elif min(s_ for c, s_ in adds) > susp:
                bad.setdefault('record-before-await', 'the path is recorded in self.seen only after its emission was awaited')
            if i not in r.awaited:
                bad.setdefault('record-before-await', 'the emission of a path is not awaited')
        if len(r.emits) != 1:
            bad.setdefault('record-before-await', 'a path is emitted %d times' % len(r.emits))
    for r in paths:
        if any(c in ('<continue>', '<break>') for c, o in r.conds):
            bad.setdefault('sorted-candidates', 'the loop can skip paths (break/continue)')
    for tok in ('sorted-candidates', 'record-before-await'):
        R.ob('SEEN-SET', con, tok, tok not in bad, bad.get(tok, ''), ctx.where(fn, fn.node.lineno), None, len(paths))
    removes = []
    for f in [x for x in cls.module.all_funcs if x.cls is cls]:
        if f.name == '__init__':
            continue
        for x in own_nodes(f.node):
            if isinstance(x, ast.Call) and isinstance(x.func, ast.Attribute) and x.func.attr in (
                    'remove', 'discard', 'clear', 'pop', 'difference_update', 'intersection_update') and self_field(x.func.value) == 'seen':
                removes.append((f, x))
            if isinstance(x, (ast.Assign, ast.AugAssign)) and any(
                    self_field(t) == 'seen' for t in (x.targets if isinstance(x, ast.Assign) else [x.target])):
                if not (isinstance(x, ast.AugAssign) and isinstance(x.op, ast.BitOr)):
                    removes.append((f, x))
    R.ob('SEEN-SET', con, 'monotone', not removes, 'self.seen is shrunk or re-assigned outside __init__ (%s)'
         % ', '.join(f.name for f, _ in removes), ctx.where(removes[0][0], removes[0][1].lineno) if removes else None)
