"""C11 rolling / cumulative / expanding / ewm results do not depend on batching (carry-over plumbing only)"""
from ..rules import folds
from .common import declare

RULES = ['CARRY-PLUMB', 'EWM-ROWS', 'DECAY-UNREACHABLE', 'FOLD-DERIVE', 'CTOR-COPY', 'ACC-CONTRACT']
FLOORS = {'CARRY-PLUMB': 11, 'EWM-ROWS': 1, 'DECAY-UNREACHABLE': 3, 'CTOR-COPY': 3, 'ACC-CONTRACT': 2}

META = {
    'level': "Static analysis of the carry-over plumbing only - the part of the property that is order and identity, not numbers: in "
             "rolling_accumulator and _cumulative_accumulator the carried rows are concatenated in front of the batch, the pandas "
             "operation runs on that concatenation, exactly the carried rows are dropped from its result (result.iloc[len(carry):]; "
             "the one seed row), the new carry is a suffix of the concatenation / the last row of the result, an empty batch leaves "
             "the cumulative carry untouched, and both are folded with returns_state=True and the right initial carry "
             "(CARRY-PLUMB, on let-normal forms); an Expanding window never decays (DECAY-UNREACHABLE); every carried state derives "
             "from the previous one (FOLD-DERIVE); a per-row operation emits a row per row (EWM-ROWS: today EWMean does not - known "
             "finding); a window object derived from another (column selection, arithmetic, .index, reset_index) keeps its kind and "
             "its configuration (CTOR-COPY: an Expanding must not turn into a row window). Of the slice bound of the rolling carry only "
             "the spelling is decided: a row cut counts from the end (iloc[-window:], never len(df) - window, which goes negative while "
             "fewer than `window` rows were seen), a time cut is measured from the newest row of the whole frame (never of the trimmed "
             "result or the batch, which is NaT for an empty batch); an unknown spelling is refused (exit 2). NOT decided: whether "
             "`window` rows are enough for every aggregation, the EWMean recurrence, and anything pandas computes.",
    'note': "Trusted lemma: a pandas rolling/cumulative operation on concat([carry, batch]) yields for the rows of the batch what "
            "it yields in one pass, provided the carry is long enough - the length itself is not decided here.",
    'technique': "static analysis: idiom facts on symbolic (let-)normal forms of every path (CARRY-PLUMB, EWM-ROWS) + the fold rules "
                 "shared with C07/C12 (DECAY-UNREACHABLE, FOLD-DERIVE)",
}


def run(ctx, R):
    R.explanation = 'Carry-over plumbing of rolling / cumulative / expanding / ewm operations.'
    R.not_decided = ['whether the rows the rolling carry keeps suffice for every aggregation', 'the EWMean recurrence', 'numeric equality with pandas']
    declare(R, folds.RULES, RULES, FLOORS)
    R.run(folds.check_carry_plumb, ctx, R)
    R.run(folds.check_ewm_rows, ctx, R)
    R.run(folds.check_decay_unreachable, ctx, R)
    R.run(folds.check_fold_derive, ctx, R, steps=('on_new',))
    R.run(folds.check_ctor_copy, ctx, R)
    # the carry-over lives in the state of core.accumulate: it is stored before the result is delivered
    R.run(folds.check_acc_contract, ctx, R)
