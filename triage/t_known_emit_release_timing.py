"""KNOWN FINDING (C04, EMIT-REL-TIMING, streamz.core.Stream._emit): the per-downstream hold is released
when update() *returns*, not when the awaitable it returned completes.  With a directly connected
asynchronous sink the completion callback fires before the sink has even started."""
import asyncio, logging
logging.disable(logging.CRITICAL)
from streamz import Stream
from streamz.core import RefCounter
from tornado.ioloop import IOLoop


async def main():
    src = Stream(asynchronous=True)
    fired, done = [], []

    async def slow(x):
        await asyncio.sleep(0.05)
        done.append(x)
    src.map(lambda x: x).sink(slow)
    r = RefCounter(cb=lambda: fired.append(list(done)), loop=IOLoop.current())
    fut = src.emit(1, metadata=[{'ref': r}])
    await asyncio.sleep(0.01)
    print('10 ms after emit: sink finished', done, '| callback fired with sink-finished list', fired)
    await fut
    print('GENUINE DEFECT REPRODUCED' if fired and not fired[0] else 'not reproduced')

asyncio.run(main())
