"""launcher: python3 -m sa.main Cxx [--tier quick|thorough] [--replay file]"""
import importlib
import json
import os
import sys
import traceback

from .model import AnalysisError, Model
from .ctx import Ctx
from .report import Report


def run_check(prop, tier='quick', overrides=None, quiet=False, replay=None, write=True):
    """run one property check; returns (exit code, Report)"""
    R = Report(prop, tier, quiet=quiet)
    R.write = write
    try:
        try:
            mod = importlib.import_module('sa.props.' + prop)
        except ModuleNotFoundError:
            print('ANALYSIS-ERROR property=%s no check registered for this property' % prop)
            return 2, R
        if replay:
            with open(replay) as f:
                o = json.load(f)['obligation']
            R.only = (o['rule'], o['construct'], str(o['token']))
            print('replaying obligation rule=%s construct=%s token=%s' % R.only)
        ctx = Ctx(Model(overrides=overrides), K=2 if tier == 'quick' else 3, depth=3 if tier == 'quick' else 4, tier=tier)
        R.private_prefixes = tuple(sorted('%s.%s.' % (b.module.name, b.name) for b in ctx.model.private_bases))
        R.count('modules', ctx.model.stats['modules'])
        R.count('classes', ctx.model.stats['classes'])
        R.count('functions_in_package', ctx.model.stats['functions'])
        mod.run(ctx, R)
        if ctx.sliced:
            R.note('rule-relevant slicing used for: ' + ', '.join(sorted(ctx.sliced)))
        if ctx.unspliced:
            R.note('helper splicing switched off (path explosion) for: ' + ', '.join(sorted(ctx.unspliced)))
        if tier == 'thorough' and overrides is None and not replay:
            thorough_extras(prop, mod, R)
    except AnalysisError as e:
        R.error(str(e))
    except Exception as e:      # a traceback must never look like a verdict
        tb = traceback.format_exc().strip().splitlines()
        R.error('internal error: %s: %s | %s' % (type(e).__name__, e, ' / '.join(tb[-6:])))
    return R.finish(), R


def thorough_extras(prop, mod, R):
    """(a) the quick configuration (K=2, depth 3) must give the same verdicts as the deeper one just run;
    (b) checker self-test: every seeded change naming this property must be caught, every benign variant must stay silent"""
    from .report import Report as _R
    q = _R(prop, 'quick', quiet=True)
    q.write = False
    qctx = Ctx(Model(), K=2, depth=3, tier='quick')
    mod.run(qctx, q)
    deep = {k for k, o in R.obs.items() if not o.ok}
    shallow = {k for k, o in q.obs.items() if not o.ok}
    if deep != shallow:
        R.error('quick (K=2, depth 3) and thorough (K=3, depth 4) disagree on: %s' % sorted(deep ^ shallow)[:5])
    R.count('thorough_obligations_recheck', len(q.obs))
    try:
        from selftest.run import one
        from selftest.mutants import MUTANTS, BENIGN
    except Exception as e:       # pragma: no cover
        R.error('self-test corpus cannot be loaded: %s' % e)
        return
    from concurrent.futures import ProcessPoolExecutor
    work = [(m, prop, False) for m in MUTANTS if prop in m['props']]
    work += [(m, prop, True) for m in BENIGN if m['props'] == 'ALL' or prop in m['props']]
    with ProcessPoolExecutor(max_workers=int(os.environ.get('VERIF_JOBS', '16'))) as ex:
        results = list(ex.map(one, work))
    bad = [r for r in results if r[2] not in ('ok', 'skipped')]
    skipped = [r for r in results if r[2] == 'skipped']
    for mid, p_, status, detail in results:
        R.canary(mid, status in ('ok', 'skipped'), '%s %s' % (status, detail[:120]))
    R.count('selftest_variants', len(results))
    R.count('selftest_skipped', len(skipped))
    R.note('self-test: %d seeded changes / benign variants for %s, %d as expected, %d skipped (anchor vanished), %d wrong'
           % (len(results), prop, len(results) - len(bad) - len(skipped), len(skipped), len(bad)))
    # (c) the independently written corpora (DESIGN 12.1 / 12.2), applied in memory: every seeded change recorded as caught by
    # this check must still be reported by it, every behaviour-preserving refactoring must leave it silent
    work = []
    here = os.path.dirname(os.path.dirname(os.path.abspath(__file__)))
    import json
    for d in sorted(os.listdir(os.path.join(here, 'seeded'))):
        mp = os.path.join(here, 'seeded', d, 'meta.json')
        pp = os.path.join(here, 'seeded', d, 'patch.diff')
        if os.path.exists(mp) and os.path.exists(pp):
            meta = json.load(open(mp))
            if (meta.get('caught_by') or {}).get(prop, {}).get('exit') == 1:
                work.append(('seeded/' + d, pp, prop, True))
    for d in sorted(os.listdir(os.path.join(here, 'benign'))):
        pp = os.path.join(here, 'benign', d, 'patch.diff')
        if os.path.exists(pp):
            work.append(('benign/' + d, pp, prop, False))
    with ProcessPoolExecutor(max_workers=int(os.environ.get('VERIF_JOBS', '16'))) as ex:
        res2 = list(ex.map(_corpus_one, work))
    wrong = [r for r in res2 if r[1] == 'wrong']
    for name, status, detail in res2:
        R.canary(name, status != 'wrong', detail[:160])
    R.count('independent_corpus_entries', len(res2))
    R.note('independent corpora: %d entries for %s (%d seeded changes expected to be reported, %d refactorings expected silent), '
           '%d as expected, %d skipped (patch no longer applies), %d wrong'
           % (len(res2), prop, sum(1 for w in work if w[3]), sum(1 for w in work if not w[3]),
              sum(1 for r in res2 if r[1] == 'ok'), sum(1 for r in res2 if r[1] == 'skipped'), len(wrong)))


def _corpus_one(args):
    name, patch, prop, expect_violation = args
    from selftest.patchapply import apply_patch
    from .model import REPO
    try:
        ov = apply_patch(open(patch, encoding='utf-8').read(), lambda rel: open(os.path.join(REPO, rel), encoding='utf-8').read())
    except Exception as e:      # pragma: no cover
        return name, 'skipped', 'patch cannot be read: %s' % e
    if ov is None:
        return name, 'skipped', 'patch does not apply to the current sources'
    ov = {k: v for k, v in ov.items() if k.endswith('.py')}
    devnull = open(os.devnull, 'w')
    old = sys.stdout
    sys.stdout = devnull
    try:
        code, R = run_check(prop, 'quick', overrides=ov, quiet=True, write=False)
    finally:
        sys.stdout = old
    if expect_violation:
        return name, ('ok' if code == 1 else 'wrong'), 'exit %d, expected a VIOLATION' % code
    return name, ('ok' if code == 0 else 'wrong'), 'exit %d, expected silence: %s' % (
        code, '; '.join('%s %s %s' % (o.rule, o.construct, o.token) for o in R.violations)[:120])


def main(argv):
    if not argv:
        print('usage: check <Cxx> [--tier quick|thorough] [--replay file]')
        return 2
    prop = argv[0]
    tier = os.environ.get('VERIF_TIER') or 'quick'
    replay = None
    i = 1
    while i < len(argv):
        if argv[i] == '--tier':
            tier = argv[i + 1]
            i += 2
        elif argv[i] == '--replay':
            replay = argv[i + 1]
            i += 2
        else:
            print('unknown argument', argv[i])
            return 2
    if tier not in ('quick', 'thorough'):
        tier = 'quick'
    code, _ = run_check(prop, tier, replay=replay)
    return code


if __name__ == '__main__':
    sys.exit(main(sys.argv[1:]))
