"""KNOWN FINDING (C15, PER-UPSTREAM-OVERRIDE, streamz.core.zip_latest): zip_latest keeps one slot per
upstream in last/metadata/missing but does not override _add_upstream/_remove_upstream.  After connect()
the next element of the new upstream indexes past the end of the per-upstream lists; after disconnect()
the slots no longer line up with the upstreams."""
from streamz import Stream

a, b, c = Stream(), Stream(), Stream()
zl = a.zip_latest(b)
L = zl.sink_to_list()
b.emit('b')
a.emit(1)
c.connect(zl)
try:
    c.emit('c')
    print('not reproduced')
except IndexError as e:
    print('IndexError after connect():', e)
    print('GENUINE DEFECT REPRODUCED')
