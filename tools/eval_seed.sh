#!/bin/bash
# tools/eval_seed.sh <change_dir> <scratch_worktree> [props...]
# 1. confirms in the scratch worktree: patch applies, package compiles, demo FAILS with the change and PASSES without it,
#    full test suite passes with the change;  2. runs every check against the patched worktree (STREAMZ_REPO) without
#    touching /repo or the evidence files, and prints which checks / rules report it.
CH="$1"; WT="$2"; shift 2
set -u
cd "$WT" || exit 2
git checkout -q -- . ; git clean -fdq
echo "== $CH"
if ! git apply --check "$CH/patch.diff" 2>/dev/null; then echo "PATCH-DOES-NOT-APPLY"; exit 3; fi
PYTHONPATH="$WT" timeout 120 /venv/bin/python "$CH/demo.py" >/tmp/seed_demo_clean.txt 2>&1; clean=$?
git apply "$CH/patch.diff"
/venv/bin/python -m compileall -q streamz >/dev/null 2>&1 || echo "DOES-NOT-COMPILE"
PYTHONPATH="$WT" timeout 120 /venv/bin/python "$CH/demo.py" >/tmp/seed_demo_changed.txt 2>&1; changed=$?
echo "demo: clean tree exit=$clean, changed tree exit=$changed"
if [ "${SKIP_SUITE:-0}" != "1" ]; then
  suite=$(/venv/bin/python -m pytest -q -p no:cacheprovider streamz -n 8 2>&1 | grep -E "passed|failed|error" | tail -1)
  echo "suite with change: $suite"
fi
cd /verif
caught=""
for p in $(ls sa/props | grep -E '^C[0-9]+\.py$' | sed 's/\.py//'); do
  out=$(STREAMZ_REPO="$WT" VERIF_NO_EVIDENCE=1 ./check $p 2>&1); code=$?
  if [ $code -ne 0 ]; then
     rules=$(echo "$out" | grep -E "^  violated:|ANALYSIS-ERROR" | sed -E 's/^  violated: rule=([A-Z-]+) construct=([^ ]+).*/\1@\2/' | sort -u | tr '\n' ' ')
     echo "  $p exit=$code  $rules"
     caught="$caught $p"
  fi
done
[ -z "$caught" ] && echo "  NOT CAUGHT by any check"
cd "$WT" && git checkout -q -- . && git clean -fdq
