"""C18 source lifecycle: one polling loop at a time, nothing emitted after stop"""
from ..rules import lifecycle, flow
from .common import declare

RULES = ['SINGLE-FLIGHT', 'IDEMPOTENT-GUARD', 'STOP-CHECK', 'ITERABLE-ORDER', 'PROPAGATE']
FLOORS = {'SINGLE-FLIGHT': 2, 'IDEMPOTENT-GUARD': 7, 'STOP-CHECK': 6, 'ITERABLE-ORDER': 2, 'PROPAGATE': 6}

META = {
    'level': "Static analysis of the start/stop protocol of every source class in streamz/sources.py: each site scheduling a "
             "long-lived polling coroutine is protected by a flag only the spawned activity resets (SINGLE-FLIGHT: a guard that "
             "stop() can re-arm is unsound for the history stop(); start() while the old loop is suspended), every effect of "
             "start()/stop() is control-dependent on the running state (IDEMPOTENT-GUARD), every emitting polling loop re-reads the "
             "stop flag each cycle (STOP-CHECK), every source loop awaits downstream before the next item (PROPAGATE), "
             "from_iterable iterates its iterable in order emitting each item once (ITERABLE-ORDER). Emission timestamps are not decided.",
    'note': "Trusted: callbacks scheduled on one loop do not run concurrently (cooperative scheduling). The Kafka sources are "
            "analysed although the suite cannot run them (no broker).",
    'technique': "static analysis: guard/flag protocol analysis over the class-level field write table + call-graph closure of "
                 "scheduled coroutines (SINGLE-FLIGHT, IDEMPOTENT-GUARD, STOP-CHECK, ITERABLE-ORDER, PROPAGATE)",
}


def run(ctx, R):
    R.explanation = 'Guard/flag protocol of Source and its subclasses: who schedules polling coroutines, who can re-arm the guard.'
    R.not_decided = ['emission timestamps']
    declare(R, {**lifecycle.RULES, **flow.RULES}, RULES, FLOORS)
    M = ctx.model
    so = M.cls('streamz.sources', 'Source')
    srcs = [c for c in M.subclasses(so) if c.module.name == 'streamz.sources']
    notes = [c for c in M.classes if c.module.name == 'streamz.dataframe.core' and c.name == 'PeriodicDataFrame']
    notes += [M.cls('streamz.core', 'map_async')]
    R.run(lifecycle.check_single_flight, ctx, R, srcs, note_classes=notes)
    R.run(lifecycle.check_idempotent_guard, ctx, R, srcs, note_classes=notes)
    funcs = []
    for c in srcs:
        for f in c.methods.values():
            funcs.append((c, f))
        for f in c.module.all_funcs:
            if f.parent is not None and f.cls is not None and f.cls.name in ('EmitServer', 'Handler') and f not in [x[1] for x in funcs]:
                funcs.append((f.cls, f))
    R.run(lifecycle.check_stop_check, ctx, R, funcs)
    R.run(lifecycle.check_iterable_order, ctx, R)
    R.run(flow.check_propagate, ctx, R, modules=('streamz.sources',), note_modules=())


META['level'] += " SINGLE-FLIGHT also requires the flag to be claimed synchronously with its test and the wrapper to await the activity under isawaitable(); STOP-CHECK requires the flag to be read before a cycle's first effect."
