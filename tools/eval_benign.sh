#!/bin/bash
# tools/eval_benign.sh <refactor_dir> <scratch_worktree>
# applies a behaviour-preserving patch to a scratch worktree (moved to /repo's HEAD first) and runs every check against it;
# prints every check that does not exit 0 (false alarm = exit 1, refusal = exit 2)
CH="$1"; WT="$2"
cd "$WT" || exit 2
git checkout -q -- . ; git clean -fdq; git checkout -q --detach main 2>/dev/null
echo "== $CH"
if ! git apply --check "$CH/patch.diff" 2>/dev/null; then echo "  PATCH-DOES-NOT-APPLY"; exit 3; fi
git apply "$CH/patch.diff"
/venv/bin/python -m compileall -q streamz >/dev/null 2>&1 || echo "  DOES-NOT-COMPILE"
cd /verif
bad=0
for p in $(ls sa/props | grep -E '^C[0-9]+\.py$' | sed 's/\.py//'); do
  out=$(STREAMZ_REPO="$WT" VERIF_NO_EVIDENCE=1 ./check $p 2>&1); code=$?
  if [ $code -ne 0 ]; then
     bad=1
     echo "  $p exit=$code"
     echo "$out" | grep -E "^  violated:|ANALYSIS-ERROR" | cut -c1-330 | sed 's/^/      /'
  fi
done
[ $bad -eq 0 ] && echo "  all 19 checks silent"
cd "$WT" && git checkout -q -- . && git clean -fdq
