"""C14 witness: latest().
(a) lost wake-up: an element that arrives while the forwarding coroutine is busy with a slow consumer
    notifies a condition nobody is waiting on; the newest element is never delivered.
(b) re-delivery: two notifications queued before the coroutine runs make it deliver the same slot twice."""
import asyncio, logging
logging.disable(logging.CRITICAL)
from streamz import Stream


async def lost():
    src = Stream(asynchronous=True)
    got = []

    async def slow(x):
        await asyncio.sleep(0.05)
        got.append(x)
    src.latest().sink(slow)
    await src.emit(1)
    await asyncio.sleep(0.01)       # consumer busy with 1
    await src.emit(2)
    await src.emit(3)
    await asyncio.sleep(0.5)
    print('busy consumer delivered', got)
    assert got and got[-1] == 3, 'newest element never delivered'
    assert got == sorted(set(got)), 'not an in-order subsequence without repeats'


async def dup():
    src = Stream(asynchronous=True)
    got = []
    src.latest().sink(got.append)
    await src.emit(1)
    await src.emit(2)               # two notifications pending before cb runs
    await asyncio.sleep(0.1)
    print('two pending notifications delivered', got)
    assert len(got) == len(set(got)), 'an element was delivered twice'
    assert got[-1] == 2


async def main():
    await lost()
    await dup()
    print('OK')

asyncio.run(main())
