"""Verdict bookkeeping: obligations, violations, known findings, evidence, exit codes.

exit 0  property held on everything analysed (KNOWN-FINDING lines allowed)
exit 1  at least one `VIOLATION property=<id> replay=<path>` line
exit 2  ANALYSIS-ERROR: the analysis itself cannot stand (never a verdict about /repo)
"""
import json
import os
import sys
import time

HERE = os.path.dirname(os.path.dirname(os.path.abspath(__file__)))
EVIDENCE_DIR = os.path.join(HERE, 'evidence')
KNOWN_FILE = os.path.join(HERE, 'known_findings.json')


def load_known():
    try:
        with open(KNOWN_FILE) as f:
            return json.load(f).get('findings', [])
    except FileNotFoundError:
        return []


class Obligation:
    __slots__ = ('rule', 'construct', 'token', 'ok', 'detail', 'where', 'path', 'npaths', 'evals')

    def __init__(self, rule, construct, token, ok, detail, where, path, npaths):
        self.rule, self.construct, self.token, self.ok = rule, construct, token, ok
        self.detail, self.where, self.path, self.npaths = detail, where, path, npaths
        self.evals = 1

    @property
    def key(self):
        return (self.rule, self.construct, self.token)

    def as_dict(self):
        d = {'rule': self.rule, 'construct': self.construct, 'token': self.token, 'ok': self.ok}
        if self.where:
            d['where'] = self.where
        if self.detail:
            d['detail'] = self.detail
        if self.path:
            d['path'] = self.path
        if self.npaths is not None:
            d['paths_examined'] = self.npaths
        return d


class Report:
    def __init__(self, prop, tier='quick', quiet=False):
        self.prop = prop
        self.tier = tier
        self.t0 = time.time()
        self.obs = {}            # key -> Obligation (a failing evaluation wins)
        self.evaluations = 0
        self.notes = []
        self.analysed = {}
        self.floors = {}
        self.private_prefixes = ()
        self.rules = {}          # rule id -> one-line statement
        self.assumptions = []
        self.tables = {}
        self.errors = []
        self.canaries = []       # (name, fired_as_expected)
        self.quiet = quiet
        self.only = None         # replay filter (rule, construct, token)
        self.explanation = ''
        self.not_decided = []
        self.write = not os.environ.get('VERIF_NO_EVIDENCE')
        self.violations = []
        self.matched = []

    # ------------------------------------------------------------------ recording
    def rule(self, rid, text, floor=None):
        self.rules[rid] = text
        if floor is not None:
            self.floors[rid] = floor

    def ob(self, rule, construct, token, ok, detail='', where=None, path=None, npaths=None):
        """record the evaluation of one obligation (rule instance)"""
        self.evaluations += 1
        token = str(token)
        o = Obligation(rule, construct, token, bool(ok), detail, where, path, npaths)
        old = self.obs.get(o.key)
        o.evals = (getattr(old, 'evals', 0) if old is not None else 0) + 1
        if old is None or (old.ok and not o.ok):
            self.obs[o.key] = o
        else:
            old.evals = o.evals
            if old.ok and o.ok and npaths:
                old.npaths = (old.npaths or 0) + npaths
        return ok

    def note(self, msg):
        if msg not in self.notes:
            self.notes.append(msg)

    def count(self, key, n=1):
        self.analysed[key] = self.analysed.get(key, 0) + n

    def table(self, name, rows):
        self.tables[name] = rows

    def assume(self, text):
        if text not in self.assumptions:
            self.assumptions.append(text)

    def error(self, msg):
        self.errors.append(msg)

    def run(self, rule_fn, *args, **kw):
        """run one rule; if that rule's analysis cannot stand (AnalysisError) record it and go on with the other rules -
        a violation found by another rule stands on its own"""
        from .model import AnalysisError
        try:
            return rule_fn(*args, **kw)
        except AnalysisError as e:
            self.error('%s: %s' % (getattr(rule_fn, '__name__', 'rule'), e))

    def canary(self, name, ok, detail=''):
        self.canaries.append((name, ok, detail))
        if not ok:
            self.error('canary %s did not behave as expected: %s' % (name, detail))

    # ------------------------------------------------------------------ finishing
    def finish(self):
        known = [k for k in load_known() if k.get('property') == self.prop]
        known_keys = {(k['rule'], k['construct'], str(k['token'])): k for k in known if k.get('status') == 'known'}
        floor_errors = []
        for rid, floor in self.floors.items():
            # an obligation anchored in a private helper base class / mix-in of the package was evaluated once per concrete
            # subclass (the base is code shared by them, not a node): each of those evaluations is one confirmed instance
            n = sum((getattr(o, 'evals', 1) if any(o.construct.startswith(p) for p in self.private_prefixes) else 1)
                    for o in self.obs.values() if o.rule == rid)
            if n < floor:
                floor_errors.append('rule %s matched %d instance(s), below the floor of %d confirmed by hand '
                                    '(anchors moved or extraction broke)' % (rid, n, floor))
        violations, matched = [], []
        for o in self.obs.values():
            if o.ok:
                continue
            if self.only and o.key != self.only:
                continue
            role = getattr(self, 'roles', {}).get(o.key)
            by_role = next((k for k in known if k.get('status') == 'known' and k.get('token_role') and k['token_role'] == role
                            and k['rule'] == o.key[0] and k['construct'] == o.key[1]), None)
            if o.key in known_keys:
                matched.append((o, known_keys[o.key]))
            elif by_role is not None:
                # the same construct and the same role (e.g. the class's only metadata slot) under a renamed field
                matched.append((o, by_role))
            else:
                violations.append(o)
        # a floor miss alone means "the analysis cannot stand" (exit 2); next to a concrete violation it is
        # reported as a note, because the violation stands on its own
        if floor_errors and not violations:
            self.errors.extend(floor_errors)
        else:
            for fe in floor_errors:
                self.note('floor not met: ' + fe)
        rule_errors = [e for e in self.errors if not e.startswith('internal error') and not e.startswith('canary')
                       and not e.startswith('self-test') and not e.startswith('quick (K=2')]
        if violations and rule_errors and len(rule_errors) == len(self.errors):
            # some rule could not be evaluated, but another one found a concrete violation: report the violation
            for e in rule_errors:
                self.note('analysis error next to a violation: ' + e)
            self.errors = []
        out = []
        by_rule = {}
        for o in self.obs.values():
            r = by_rule.setdefault(o.rule, [0, 0])
            r[0] += 1
            r[1] += 1 if o.ok else 0
        for rid in sorted(by_rule):
            out.append('  rule %-22s %3d obligation(s), %3d discharged  -- %s'
                       % (rid, by_rule[rid][0], by_rule[rid][1], self.rules.get(rid, '')[:110]))
        for n in self.notes:
            out.append('  NOTE ' + n)
        for o, k in matched:
            out.append('KNOWN-FINDING: property=%s rule=%s construct=%s token=%s %s'
                       % (self.prop, o.rule, o.construct, o.token, k.get('what', o.detail)))
        replay_dir = os.path.join(EVIDENCE_DIR, self.prop + '.replay')
        vio_lines = []
        self.violations, self.matched = violations, matched
        if violations and not self.errors and self.write:
            os.makedirs(replay_dir, exist_ok=True)
            for i, o in enumerate(sorted(violations, key=lambda o: o.key)):
                rp = os.path.join(replay_dir, '%d.json' % i)
                with open(rp, 'w') as f:
                    json.dump({'property': self.prop, 'obligation': o.as_dict()}, f, indent=1)
                out.append('  violated: rule=%s construct=%s token=%s at %s: %s'
                           % (o.rule, o.construct, o.token, o.where or '?', o.detail))
                if o.path:
                    for step in o.path:
                        out.append('      | ' + step)
                vio_lines.append('VIOLATION property=%s replay=%s' % (self.prop, rp))
        code = 0
        if self.errors:
            for e in self.errors:
                out.append('ANALYSIS-ERROR property=%s %s' % (self.prop, e))
            code = 2
        elif violations:
            code = 1
        out.extend(vio_lines)
        if self.write:
            self.write_evidence(violations, matched, code)
        if not self.quiet:
            print('\n'.join(out))
            print('%s tier=%s: %d obligations (%d discharged), %d known finding(s), %d violation(s), exit %d, %.2fs'
                  % (self.prop, self.tier, len(self.obs), sum(1 for o in self.obs.values() if o.ok),
                     len(matched), len(violations), code, time.time() - self.t0))
        return code

    def write_evidence(self, violations, matched, code):
        os.makedirs(EVIDENCE_DIR, exist_ok=True)
        obs = list(self.obs.values())
        samples = []
        seen_rules = set()
        for o in sorted(obs, key=lambda o: (o.ok, o.rule)):
            if o.rule in seen_rules and o.ok:
                continue
            seen_rules.add(o.rule)
            samples.append(o.as_dict())
        per_rule = {}
        for o in obs:
            per_rule.setdefault(o.rule, {'statement': self.rules.get(o.rule, ''), 'instances': 0, 'discharged': 0})
            per_rule[o.rule]['instances'] += 1
            per_rule[o.rule]['discharged'] += 1 if o.ok else 0
        ev = {
            'property_id': self.prop,
            'tier': self.tier,
            'seed': int(os.environ.get('VERIF_SEED', '0') or 0),
            'level': 'other',
            'coverage': {
                'explanation': self.explanation or 'static analysis of structural necessary conditions',
                'evaluations': self.evaluations,
                'distinct_nontrivial': len(obs),
                'rule': 'one obligation = one (rule, construct, token) instance found in /repo\'s current source; '
                        'non-trivial = the rule\'s trigger matched that construct and at least one path / site was examined',
                'obligations': len(obs),
                'discharged': sum(1 for o in obs if o.ok),
                'samples': samples[:40],
                'rules': per_rule,
                'analysed': self.analysed,
                'tables_used': self.tables,
                'known_findings_matched': [list(o.key) for o, _ in matched],
                'violations': [o.as_dict() for o in violations],
                'notes': self.notes,
                'not_decided': self.not_decided,
                'canaries': [{'name': n, 'ok': ok, 'detail': d} for n, ok, d in self.canaries],
                'analysis_errors': self.errors,
                'exhaustive': False,
            },
            'assumptions': self.assumptions,
            'wall_s': round(time.time() - self.t0, 3),
            'violations': len(violations),
        }
        with open(os.path.join(EVIDENCE_DIR, self.prop + '.json'), 'w') as f:
            json.dump(ev, f, indent=1, default=str)
