"""C18 witness (SINGLE-FLIGHT, streamz.sources.from_kafka.start and FromKafkaBatched.start).
Both start() methods scheduled poll_kafka guarded only by `self.stopped`, which stop() sets and start()
clears again: stop() immediately followed by start() while the old poll loop is suspended left several
poll loops running.  confluent_kafka is not installed here and no broker is reachable, so the real client
is replaced by a minimal in-memory stand-in; the code under test (start/stop/poll_kafka) is the real one."""
import asyncio, logging, sys, types
logging.disable(logging.CRITICAL)

ck = types.ModuleType('confluent_kafka')


class Msg:
    def __init__(self, v): self._v = v
    def value(self): return self._v
    def error(self): return None


class Consumer:
    live = []
    polls = 0
    watermark_calls = 0

    def __init__(self, params):
        Consumer.live.append(self)

    def subscribe(self, topics): pass
    def unsubscribe(self): pass
    def close(self): pass
    def get_watermark_offsets(self, tp, timeout=None):
        Consumer.watermark_calls += 1
        return (0, 0)

    def list_topics(self, topic):
        part = types.SimpleNamespace(partitions={0: None})
        return types.SimpleNamespace(topics={topic: part})

    def committed(self, tps, timeout=None):
        return [types.SimpleNamespace(partition=0, offset=0)]

    def poll(self, timeout=None):
        Consumer.polls += 1
        return None


class TopicPartition:
    def __init__(self, *a): pass


class KafkaException(Exception):
    pass


ck.Consumer, ck.TopicPartition, ck.KafkaException = Consumer, TopicPartition, KafkaException
sys.modules['confluent_kafka'] = ck

from streamz import Stream          # noqa: E402


async def main():
    s = Stream.from_kafka(['t'], {'group.id': 'g'}, poll_interval=0.02, asynchronous=True)
    s.start()
    await asyncio.sleep(0.01)
    base = Consumer.polls
    await asyncio.sleep(0.205)
    one_loop = Consumer.polls - base
    for _ in range(3):
        s.stop()
        s.start()           # the suspended loop has not observed stopped == True
    base = Consumer.polls
    await asyncio.sleep(0.205)
    after = Consumer.polls - base
    s.stop()
    print('from_kafka: polls in 0.2 s with one loop: %d, after 3x stop();start(): %d' % (one_loop, after))
    assert after < 1.6 * one_loop, 'several poll loops are running after stop(); start()'

    from streamz.sources import FromKafkaBatched
    b = FromKafkaBatched('t', {'group.id': 'g'}, poll_interval=0.02, npartitions=1, asynchronous=True)
    b.start()
    await asyncio.sleep(0.01)
    base = Consumer.watermark_calls
    await asyncio.sleep(0.205)
    one_loop = Consumer.watermark_calls - base
    for _ in range(3):
        b.stop()
        b.start()
    base = Consumer.watermark_calls
    await asyncio.sleep(0.205)
    after = Consumer.watermark_calls - base
    b.stop()
    print('FromKafkaBatched: watermark polls in 0.2 s with one loop: %d, after 3x stop();start(): %d' % (one_loop, after))
    assert after < 1.6 * one_loop + 4, 'several poll loops are running after stop(); start()'
    print('OK')

asyncio.run(main())
