#!/usr/bin/env python3
"""tools/keep_seed.py <prop> <n> <scratch_worktree> [--missed-first "<what was strengthened>"] [--suite "<result>"]
                        [--src /tmp/seed/out2_<prop>/change_<k>]
copies /tmp/seed/out_<prop>/change_<n> (or --src) to /verif/seeded/<prop>-<n>/ and writes meta.json from a fresh evaluation"""
import json
import os
import re
import shutil
import subprocess
import sys

prop, n, wt = sys.argv[1:4]
missed = None
suite = None
srcdir_override = None
args = sys.argv[4:]
while args:
    if args[0] == '--missed-first':
        missed = args[1]
        args = args[2:]
    elif args[0] == '--suite':
        suite = args[1]
        args = args[2:]
    elif args[0] == '--src':
        srcdir_override = args[1]
        args = args[2:]
    else:
        args = args[1:]
srcdir = srcdir_override or '/tmp/seed/out_%s/change_%s' % (prop, n)
dst = '/verif/seeded/%s-%s' % (prop, n)
os.makedirs(dst, exist_ok=True)
for f in ('patch.diff', 'demo.py', 'notes.md'):
    shutil.copy(os.path.join(srcdir, f), os.path.join(dst, f))
env = dict(os.environ, SKIP_SUITE='1' if suite else '0')
out = subprocess.run(['/verif/tools/eval_seed.sh', srcdir, wt], capture_output=True, text=True, env=env).stdout
out = '\n'.join(l for l in out.splitlines() if 'conda' not in l)
m = re.search(r'demo: clean tree exit=(\d+), changed tree exit=(\d+)', out)
sm = re.search(r'suite with change: (.*)', out)
caught = {}
for l in out.splitlines():
    mm = re.match(r'\s+(C\d+) exit=(\d)\s+(.*)', l)
    if mm:
        caught[mm.group(1)] = {'exit': int(mm.group(2)), 'rules': mm.group(3).split()}
notes = open(os.path.join(srcdir, 'notes.md')).read()
meta = {
    'id': '%s-%s' % (prop, n),
    'breaks_property': prop,
    'origin': 'written by an independent sub-agent given only the property text and a scratch worktree of /repo (nothing from /verif)',
    'needs_to_manifest': notes.strip().splitlines()[:12],
    'what_i_ran': [
        'git apply patch.diff in a scratch worktree of /repo (HEAD) outside /repo and /verif',
        'PYTHONPATH=<worktree> /venv/bin/python demo.py   (unchanged tree and changed tree)',
        '/venv/bin/python -m pytest -q -p no:cacheprovider streamz -n 8   (changed tree)',
        'STREAMZ_REPO=<worktree> VERIF_NO_EVIDENCE=1 ./check Cxx   for all 19 checks (changed tree)',
    ],
    'demo_exit_unchanged_tree': int(m.group(1)) if m else None,
    'demo_exit_changed_tree': int(m.group(2)) if m else None,
    'suite_with_change': suite or (sm.group(1) if sm else None),
    'caught_by': caught,
    'caught_by_claimed_property_check': prop in caught,
    'missed_at_first': bool(missed),
    'strengthened': missed,
}
json.dump(meta, open(os.path.join(dst, 'meta.json'), 'w'), indent=1)
print(dst, 'caught by', {k: v['rules'] for k, v in caught.items()} or 'NOTHING')
