"""E2/E3 - bounded path enumeration with per-path abstract interpretation.

Every path of a function is enumerated (loops unrolled 0..K times, `self.helper()`
calls spliced in at statement level).  Along each path we carry, without joins:

  env    local name -> frozenset of *tags* the value may be derived from
           'md'  the incoming metadata token      'x'  the incoming element
           'p:<name>' another parameter            'field:<f>' read from self.<f>
           'take:<f>@<line>' removed from container field <f>
           'emit@<line>' result of an emission     'ucall:<f>' result of user callable self.<f>
  shape  local name -> abstract shape (NONE / SCALAR / AW / FLAT / NESTED / ('TUP', ...) / OTHER)
  conds  tests already decided on this path (so correlated conditions are exact)
  events the ordered list of events the rules look at

Nothing is executed; expressions are only linearised in Python evaluation order.
"""
import ast
import re

from .model import AnalysisError, src, self_field, Func, Class

NONE, SCALAR, AW, FLAT, NESTED, OTHER = 'NONE', 'SCALAR', 'AW', 'FLAT', 'NESTED', 'OTHER'

MUT_ADD = {'append', 'extend', 'put', 'put_nowait', 'add', 'appendleft', 'insert', 'update', 'setdefault'}
MUT_TAKE = {'pop', 'popleft', 'get', 'get_nowait', 'clear', 'remove', 'discard', 'popitem'}
DEFER = {'add_callback', 'call_later', 'call_at', 'create_task', 'spawn_callback', 'ensure_future',
         'add_timeout', 'run_in_executor', 'add_future'}
AWAITABLE_CALLS = {'put', 'wait', 'sleep', 'gather', 'convert_yielded', '_create_task', 'create_task',
                   'get', 'scatter', 'ensure_future', 'Future', 'wait_closed', 'recv', 'send'}
SANITIZERS = {'len', 'isinstance', 'callable', 'hasattr', 'id', 'bool', 'time', 'type', 'range', 'int', 'float', 'str'}
HOLD_CALLS = {'_retain_refs': 'RET', '_release_refs': 'REL'}
NO_INLINE = {'_emit', 'emit', '_retain_refs', '_release_refs', 'update'}
EMPTY_CTORS = {'list', 'dict', 'deque', 'set', 'tuple', 'OrderedDict', 'defaultdict'}


class Ev:
    __slots__ = ('kind', 'line', 'a', 'b', 'c', 'x', 'depth')

    def __init__(self, kind, line, a=None, b=None, c=None, x=None):
        self.kind, self.line, self.a, self.b, self.c, self.x = kind, line, a, b, c, x
        self.depth = 0

    def __repr__(self):
        parts = [self.kind, str(self.line)]
        for v in (self.a, self.b, self.c):
            if v is not None:
                parts.append(','.join(sorted(v)) if isinstance(v, frozenset) else str(v))
        return '<' + ' '.join(parts) + '>'

    def brief(self):
        s = '%s@%d' % (self.kind, self.line)
        if self.a is not None:
            s += ' ' + (str(self.a)[:60])
        if self.kind == 'COND':
            s += ' = %s' % self.b
        elif self.c is not None and not isinstance(self.c, (dict, ast.AST)):
            s += ' (%s)' % (self.c,)
        return s


class PathState:
    __slots__ = ('env', 'shape', 'conds', 'events', 'weak', 'alias', 'expr', 'kw', 'ret_kw')

    def __init__(self):
        self.env = {}
        self.shape = {}
        self.conds = []
        self.events = []
        self.weak = 0
        self.alias = {}     # local name -> field whose container (or element container) it IS
        self.expr = {}      # local name -> AST of its (pure, call-free) defining expression: temporaries in tests
        self.kw = {}        # local dict name -> {constant key: constant value or '?'} written on this path (**kwargs plumbing)
        self.ret_kw = None  # content of the dict a helper that was just spliced returned (consumed by the assignment)

    def copy(self):
        p = PathState()
        p.env = dict(self.env)
        p.shape = dict(self.shape)
        p.conds = list(self.conds)
        p.events = list(self.events)
        p.weak = self.weak
        p.alias = dict(self.alias)
        p.expr = dict(self.expr)
        p.kw = {k: dict(v) for k, v in self.kw.items()}
        return p


def _const(v):
    return v.value if isinstance(v, ast.Constant) else '?'


def kw_of_expr(st, e):
    """constant-keyed content known for a dict-valued expression: a local name, dict(X, k=v), {**X, 'k': v}"""
    if isinstance(e, ast.Name):
        return dict(st.kw.get(e.id, {}))
    if isinstance(e, ast.Call) and isinstance(e.func, ast.Name) and e.func.id == 'dict':
        out = {}
        for a in e.args[:1]:
            out.update(kw_of_expr(st, a))
        for k in e.keywords:
            if k.arg:
                out[k.arg] = _const(k.value)
            else:
                out.update(kw_of_expr(st, k.value))
        return out
    if isinstance(e, ast.Dict):
        out = {}
        for k, v in zip(e.keys, e.values):
            if k is None:
                out.update(kw_of_expr(st, v))
            elif isinstance(k, ast.Constant):
                out[k.value] = _const(v)
        return out
    return {}


def kw_effects(st, n):
    """record what statement n writes into local dicts: d[k] = v / d.update(k=v) / d.update({k: v}) / d.setdefault(k, v) / d.pop(k)"""
    if isinstance(n, ast.Assign):
        for t in n.targets:
            if isinstance(t, ast.Subscript) and isinstance(t.value, ast.Name) and isinstance(t.slice, ast.Constant):
                st.kw.setdefault(t.value.id, {})[t.slice.value] = _const(n.value)
            if isinstance(t, ast.Name):
                known = kw_of_expr(st, n.value)
                if known or isinstance(n.value, (ast.Dict, ast.Call)) and t.id in st.kw:
                    st.kw[t.id] = known
    call = n.value if isinstance(n, ast.Expr) else None
    if isinstance(call, ast.Call) and isinstance(call.func, ast.Attribute) and isinstance(call.func.value, ast.Name):
        d = call.func.value.id
        if call.func.attr == 'update':
            for k in call.keywords:
                if k.arg:
                    st.kw.setdefault(d, {})[k.arg] = _const(k.value)
            for a in call.args:
                for k_, v_ in kw_of_expr(st, a).items():
                    st.kw.setdefault(d, {})[k_] = v_
        elif call.func.attr == 'setdefault' and len(call.args) == 2 and isinstance(call.args[0], ast.Constant):
            st.kw.setdefault(d, {}).setdefault(call.args[0].value, _const(call.args[1]))
        elif call.func.attr == 'pop' and call.args and isinstance(call.args[0], ast.Constant):
            st.kw.get(d, {}).pop(call.args[0].value, None)


def is_empty_literal(n):
    if isinstance(n, (ast.List, ast.Tuple, ast.Set)) and not n.elts:
        return True
    if isinstance(n, ast.Dict) and not n.keys:
        return True
    if isinstance(n, ast.Call) and not n.args and not n.keywords:
        f = n.func
        nm = f.id if isinstance(f, ast.Name) else (f.attr if isinstance(f, ast.Attribute) else None)
        if nm in EMPTY_CTORS:
            return True
    if isinstance(n, ast.Constant) and n.value is None:
        return True
    return False


def direct_field_alias(n):
    """expression that denotes the container stored in self.<f> itself or one of its element
    containers: self.f, self.f[k], self.f.get(k), self.f.setdefault(k, ..)"""
    if isinstance(n, ast.Attribute) and isinstance(n.value, ast.Name) and n.value.id == 'self':
        return n.attr
    if isinstance(n, ast.Subscript) and not isinstance(n.slice, ast.Slice):
        v = n.value
        if isinstance(v, ast.Attribute) and isinstance(v.value, ast.Name) and v.value.id == 'self':
            return v.attr
    if isinstance(n, ast.Call) and isinstance(n.func, ast.Attribute) and n.func.attr in ('setdefault',):
        return direct_field_alias(n.func.value)
    return None


def iter_field_alias(n):
    """for v in self.f.values() / self.f : v is an element container of f"""
    if isinstance(n, ast.Call) and isinstance(n.func, ast.Attribute) and n.func.attr == 'values' and not n.args:
        return direct_field_alias(n.func.value)
    return None


def listof(sh):
    if sh == SCALAR:
        return FLAT
    if sh in (FLAT, NESTED):
        return NESTED
    if isinstance(sh, tuple) and sh and sh[0] == 'TUP':
        return ('LTUP',) + sh[1:]
    return OTHER


def elemof(sh):
    if sh == FLAT:
        return SCALAR
    if sh == NESTED:
        return FLAT          # (could be deeper; one level is all the code base uses)
    if isinstance(sh, tuple) and sh and sh[0] == 'LTUP':
        return ('TUP',) + sh[1:]
    return OTHER


def join_shape(a, b):
    if a is None:
        return b
    if b is None or a == b:
        return a
    if {a, b} <= {FLAT, NESTED}:
        return NESTED
    if NONE in (a, b):
        return a if b == NONE else b
    return OTHER


class Interp:
    """path enumerator for one function in the context of one concrete class"""

    def __init__(self, model, fn, cls=None, param_tags=None, param_shapes=None, K=2, depth=3,
                 field_elem=None, maxpaths=20000, inline=True, stack=(), relevant_only=False,
                 no_inline=()):
        self.model = model
        self.fn = fn                      # model.Func
        self.cls = cls if cls is not None else fn.cls
        self.param_tags = param_tags or {}
        self.param_shapes = param_shapes or {}
        self.K = K
        self.depth = depth
        self.field_elem = field_elem if field_elem is not None else {}
        self.maxpaths = maxpaths
        self.inline = inline
        self.stack = stack + (fn.fq,)
        self.relevant_only = relevant_only
        self.no_inline = set(no_inline)
        self.count = 0
        self.module = fn.module
        # locals that a nested function rebinds (nonlocal): their value at a use is not the last value assigned here
        self.shared_locals = {nm for n in ast.walk(fn.node) if isinstance(n, ast.Nonlocal) for nm in n.names}

    # ------------------------------------------------------------------ helpers
    def resolve_self_method(self, name):
        if self.cls is None:
            return None
        return self.cls.find(name)

    _reads_cache = {}

    def callee_field_reads(self, name, depth=0):
        """'field:f' for every field read by self.<name> (transitively through self-calls): what a helper's result may
        be derived from"""
        callee = self.resolve_self_method(name)
        if callee is None or depth > 3:
            return frozenset()
        key = (callee.fq, self.cls.fq if self.cls else None)
        if key in Interp._reads_cache:
            return Interp._reads_cache[key]
        Interp._reads_cache[key] = frozenset()
        out = set()
        for x in ast.walk(callee.node):
            if isinstance(x, ast.Attribute) and isinstance(x.value, ast.Name) and x.value.id == 'self' and isinstance(x.ctx, ast.Load):
                if self.cls is not None and self.cls.find(x.attr) is None:
                    out.add('field:' + x.attr)
                elif depth < 3 and x.attr != name:
                    out |= set(self.callee_field_reads(x.attr, depth + 1))
        Interp._reads_cache[key] = frozenset(out)
        return Interp._reads_cache[key]

    def is_user_callable_field(self, name):
        """self.<name> is not a method of the class => a stored callable / attribute"""
        return self.cls is not None and self.cls.find(name) is None

    # ------------------------------------------------------------------ shapes
    def shape(self, st, n):
        if n is None:
            return NONE
        if isinstance(n, ast.Constant):
            return NONE if n.value is None else SCALAR
        if isinstance(n, ast.Name):
            return st.shape.get(n.id, OTHER)
        if isinstance(n, ast.Dict):
            return SCALAR
        if isinstance(n, (ast.List,)):
            if not n.elts:
                return FLAT
            sh = None
            for e in n.elts:
                s1 = self.shape(st, e.value) if isinstance(e, ast.Starred) else listof(self.shape(st, e))
                sh = join_shape(sh, s1)
            return sh
        if isinstance(n, ast.Tuple):
            return ('TUP',) + tuple(self.shape(st, e) for e in n.elts)
        if isinstance(n, (ast.Await, ast.Yield, ast.YieldFrom)):
            s1 = self.shape(st, n.value)
            if isinstance(s1, tuple) and s1 and s1[0] == 'AWOF':
                return s1[1]
            return OTHER
        if isinstance(n, ast.ListComp) or isinstance(n, ast.GeneratorExp):
            gens = n.generators
            if len(gens) == 2 and isinstance(n.elt, ast.Name) and isinstance(gens[1].target, ast.Name) \
                    and gens[1].target.id == n.elt.id and isinstance(gens[0].target, ast.Name) \
                    and isinstance(gens[1].iter, ast.Name) and gens[1].iter.id == gens[0].target.id \
                    and not gens[0].ifs and not gens[1].ifs:
                # [m for ml in X for m in ml]  : flatten one level
                s0 = self.shape(st, gens[0].iter)
                if s0 == NESTED:
                    return FLAT
                if s0 == FLAT:
                    return 'OVERFLAT'
                return OTHER
            if len(gens) == 1 and isinstance(gens[0].target, ast.Name):
                sub = st.copy()
                sub.shape[gens[0].target.id] = elemof(self.shape(st, gens[0].iter))
                return listof(self.shape(sub, n.elt))
            return OTHER
        if isinstance(n, ast.Subscript):
            f = self_field(n)
            if f is not None and isinstance(n.value, ast.Attribute):
                return self.field_elem.get(f, OTHER)
            base = self.shape(st, n.value)
            if isinstance(n.slice, ast.Slice):
                return base
            if isinstance(base, tuple) and base and base[0] == 'TUP' and isinstance(n.slice, ast.Constant) \
                    and isinstance(n.slice.value, int) and 0 <= n.slice.value < len(base) - 1:
                return base[1 + n.slice.value]
            return elemof(base)
        if isinstance(n, ast.Attribute):
            f = self_field(n)
            if f is not None:
                if ('self.' + f) in st.shape:
                    return st.shape['self.' + f]
                if f in self.field_elem:
                    return listof(self.field_elem[f])
            return OTHER
        if isinstance(n, ast.IfExp):
            t = n.test
            neg = False
            while isinstance(t, ast.UnaryOp) and isinstance(t.op, ast.Not):
                t, neg = t.operand, not neg
            nm = None
            if isinstance(t, ast.Call) and src(t.func) == 'isinstance' and len(t.args) == 2 and src(t.args[1]) == 'list' \
                    and isinstance(t.args[0], ast.Name):
                nm = t.args[0].id
            elif isinstance(t, ast.Compare) and len(t.ops) == 1 and isinstance(t.ops[0], (ast.Is, ast.Eq, ast.IsNot, ast.NotEq)) \
                    and isinstance(t.left, ast.Call) and src(t.left.func) == 'type' and len(t.left.args) == 1 \
                    and isinstance(t.left.args[0], ast.Name) and src(t.comparators[0]) == 'list':
                nm = t.left.args[0].id          # type(x) is list
                if isinstance(t.ops[0], (ast.IsNot, ast.NotEq)):
                    neg = not neg
            if nm is not None:
                yes, no = st.copy(), st.copy()
                if yes.shape.get(nm, OTHER) not in (FLAT, NESTED):
                    yes.shape[nm] = FLAT
                no.shape[nm] = SCALAR
                a, b = (no, yes) if neg else (yes, no)
                return join_shape(self.shape(a, n.body), self.shape(b, n.orelse))
            return join_shape(self.shape(st, n.body), self.shape(st, n.orelse))
        if isinstance(n, ast.BinOp) and isinstance(n.op, ast.Add):
            a, b = self.shape(st, n.left), self.shape(st, n.right)
            if a in (FLAT, NESTED) and b in (FLAT, NESTED):
                return join_shape(a, b)
            return OTHER
        if isinstance(n, ast.Call):
            f = n.func
            name = f.attr if isinstance(f, ast.Attribute) else (f.id if isinstance(f, ast.Name) else '')
            if name == '_emit' and isinstance(f, ast.Attribute):
                return FLAT
            if name == 'emit' and isinstance(f, ast.Attribute):
                return AW
            if isinstance(f, ast.Attribute):
                fld = self_field(f.value)
                if fld is not None and isinstance(f.value, ast.Attribute):
                    el = self.field_elem.get(fld, OTHER)
                    if name in ('get', 'get_nowait') and not n.args:
                        return ('AWOF', el) if name == 'get' else el
                    if name in ('pop', 'popleft'):
                        return el
                    if name == 'values':
                        return listof(el)
                    if name == 'copy':
                        return listof(el)
                elif name in ('pop', 'popleft'):
                    return elemof(self.shape(st, f.value))
                elif name == 'values':
                    return self.shape(st, f.value)
                elif name == 'copy':
                    return self.shape(st, f.value)
            if name in ('list', 'tuple', 'deque', 'reversed', 'sorted') and len(n.args) == 1:
                return self.shape(st, n.args[0])
            if name == 'from_iterable' and len(n.args) == 1 and src(f).endswith('chain.from_iterable'):
                s0 = self.shape(st, n.args[0])           # flatten one level
                return FLAT if s0 == NESTED else ('OVERFLAT' if s0 == FLAT else OTHER)
            if name == 'chain' and n.args and all(isinstance(a, ast.Starred) for a in n.args) and len(n.args) == 1:
                s0 = self.shape(st, n.args[0].value)
                return FLAT if s0 == NESTED else ('OVERFLAT' if s0 == FLAT else OTHER)
            if name == 'chain' and n.args:
                return OTHER
            if name in AWAITABLE_CALLS:
                return AW
            return OTHER
        return OTHER

    # ------------------------------------------------------------------ tags
    def tags(self, st, n):
        if n is None:
            return frozenset()
        if isinstance(n, ast.Name):
            return st.env.get(n.id, frozenset())
        if isinstance(n, ast.Constant):
            return frozenset()
        f = self_field(n)
        if f is not None and isinstance(n, (ast.Attribute, ast.Subscript)):
            # reading a field: derived from the field, and from what this path last assigned to it
            return frozenset({'field:' + f}) | st.env.get('self.' + f, frozenset())
        if isinstance(n, (ast.Tuple, ast.List, ast.Set)):
            out = frozenset()
            for e in n.elts:
                out |= self.tags(st, e)
            return out
        if isinstance(n, ast.Starred):
            return self.tags(st, n.value)
        if isinstance(n, (ast.ListComp, ast.GeneratorExp, ast.SetComp, ast.DictComp)):
            out = frozenset()
            sub = st.copy()
            for g in n.generators:
                t = self.tags(sub, g.iter)
                out |= t
                for nm in ast.walk(g.target):
                    if isinstance(nm, ast.Name):
                        sub.env[nm.id] = t
            if isinstance(n, ast.DictComp):
                return out | self.tags(sub, n.key) | self.tags(sub, n.value)
            return out | self.tags(sub, n.elt)
        if isinstance(n, ast.Call):
            fn = n.func
            name = fn.attr if isinstance(fn, ast.Attribute) else (fn.id if isinstance(fn, ast.Name) else None)
            if isinstance(fn, ast.Name) and name in SANITIZERS:
                return frozenset()
            out = frozenset()
            if isinstance(fn, ast.Attribute):
                out |= self.tags(st, fn.value)
            for a in n.args:
                out |= self.tags(st, a)
            for k in n.keywords:
                out |= self.tags(st, k.value)
            if isinstance(fn, ast.Attribute) and name in ('_emit', 'emit'):
                out |= frozenset({'emit@%d' % n.lineno})
            if isinstance(fn, ast.Attribute) and name in DEFER:
                out |= frozenset({'defer@%d' % n.lineno})
            if isinstance(fn, ast.Attribute) and name in ('put', 'put_nowait') and self_field(fn.value) is not None:
                out |= frozenset({'put:%s@%d' % (self_field(fn.value), n.lineno)})
            if isinstance(fn, ast.Attribute) and isinstance(fn.value, ast.Name) and fn.value.id == 'self' \
                    and self.resolve_self_method(name) is not None:
                out |= self.callee_field_reads(name)
            if isinstance(fn, ast.Attribute) and name in MUT_TAKE and name != 'clear' \
                    and not (name in ('get', 'get_nowait') and n.args):
                fld = self_field(fn.value)
                if fld is not None:
                    out |= frozenset({'take:%s@%d' % (fld, n.lineno)})
                elif isinstance(fn.value, ast.Name) and fn.value.id in st.alias:
                    out |= frozenset({'take:%s@%d' % (st.alias[fn.value.id], n.lineno)})
            if isinstance(fn, ast.Attribute) and isinstance(fn.value, ast.Name) and fn.value.id == 'self' \
                    and self.is_user_callable_field(name):
                out |= frozenset({'ucall:' + name})
            if isinstance(fn, ast.Name):
                for t in st.env.get(fn.id, ()):
                    if t.startswith('ufield:'):
                        out |= frozenset({'ucall:' + t[7:]})
            return out
        if isinstance(n, ast.Subscript):
            return self.tags(st, n.value)
        if isinstance(n, ast.Attribute):
            return self.tags(st, n.value)
        if isinstance(n, ast.BinOp):
            return self.tags(st, n.left) | self.tags(st, n.right)
        if isinstance(n, ast.UnaryOp):
            return self.tags(st, n.operand)
        if isinstance(n, ast.BoolOp):
            out = frozenset()
            for v in n.values:
                out |= self.tags(st, v)
            return out
        if isinstance(n, ast.Compare):
            return frozenset()
        if isinstance(n, ast.IfExp):
            return self.tags(st, n.body) | self.tags(st, n.orelse)
        if isinstance(n, (ast.Await, ast.Yield, ast.YieldFrom)):
            return self.tags(st, n.value)
        if isinstance(n, ast.Dict):
            out = frozenset()
            for v in n.values:
                out |= self.tags(st, v)
            return out
        if isinstance(n, ast.JoinedStr):
            return frozenset()
        if isinstance(n, ast.NamedExpr):
            return self.tags(st, n.value)
        return frozenset()

    # ------------------------------------------------------------------ expression events
    def add(self, st, ev):
        ev.depth = len(self.stack) - 1
        st.events.append(ev)

    def ev_expr(self, st, n):
        if n is None:
            return
        if isinstance(n, (ast.Await, ast.Yield, ast.YieldFrom)):
            self.ev_expr(st, n.value)
            what = src(n.value) if n.value is not None else None
            self.add(st, Ev('SUS', n.lineno, what, self.tags(st, n.value), None, {'node': n.value}))
            return
        if isinstance(n, ast.Lambda):
            # a closure: free variables escape into it
            esc = frozenset()
            for x in ast.walk(n.body):
                if isinstance(x, ast.Name):
                    esc |= st.env.get(x.id, frozenset())
            self.add(st, Ev('CLOSURE', n.lineno, 'lambda', esc))
            return
        if isinstance(n, (ast.ListComp, ast.GeneratorExp, ast.SetComp, ast.DictComp)):
            sub = st.copy()
            for g in n.generators:
                self.ev_expr(st, g.iter)
                t = self.tags(sub, g.iter)
                for nm in ast.walk(g.target):
                    if isinstance(nm, ast.Name):
                        sub.env[nm.id] = t
            sub.events = st.events
            if isinstance(n, ast.DictComp):
                self.ev_expr(sub, n.key)
                self.ev_expr(sub, n.value)
            else:
                self.ev_expr(sub, n.elt)
            return
        if isinstance(n, ast.Call):
            self.ev_call(st, n)
            return
        if isinstance(n, ast.BoolOp) or isinstance(n, ast.IfExp):
            for c in ast.iter_child_nodes(n):
                if isinstance(c, ast.expr):
                    self.ev_expr(st, c)
            return
        f0 = self_field(n)
        if f0 is not None and isinstance(n, (ast.Attribute, ast.Subscript)) \
                and isinstance(getattr(n, 'ctx', None), ast.Load):
            if isinstance(n, ast.Subscript):
                self.ev_expr(st, n.slice)
            self.add(st, Ev('RD', n.lineno, f0, None, 'subscript' if isinstance(n, ast.Subscript) else 'attr',
                            {'node': n}))
            return
        for c in ast.iter_child_nodes(n):
            if isinstance(c, ast.expr):
                self.ev_expr(st, c)

    def ev_call(self, st, n):
        f = n.func
        if isinstance(f, ast.Attribute):
            # receiver first (but a bare self.<field> receiver of a mutator is not a 'read of value')
            if not (self_field(f.value) is not None and isinstance(f.value, ast.Attribute)
                    and f.attr in (MUT_ADD | MUT_TAKE)):
                self.ev_expr(st, f.value)
            elif isinstance(f.value, ast.Subscript):
                self.ev_expr(st, f.value.slice)
        elif not isinstance(f, ast.Name):
            self.ev_expr(st, f)
        for a in n.args:
            self.ev_expr(st, a.value if isinstance(a, ast.Starred) else a)
        for k in n.keywords:
            self.ev_expr(st, k.value)
        name = f.attr if isinstance(f, ast.Attribute) else (f.id if isinstance(f, ast.Name) else src(f))
        recv = f.value if isinstance(f, ast.Attribute) else None
        recv_field = self_field(recv) if recv is not None else None
        recv_is_self = isinstance(recv, ast.Name) and recv.id == 'self'
        recv_is_super = isinstance(recv, ast.Call) and isinstance(recv.func, ast.Name) and recv.func.id == 'super'
        argtags = frozenset()
        for a in n.args:
            argtags |= self.tags(st, a)
        for k in n.keywords:
            argtags |= self.tags(st, k.value)
        line = n.lineno
        if name in HOLD_CALLS and isinstance(f, ast.Attribute):
            a0 = n.args[0] if n.args else None
            narg = n.args[1] if len(n.args) > 1 else None
            for k in n.keywords:
                if k.arg == 'n':
                    narg = k.value
                if k.arg == 'metadata':
                    a0 = k.value
            self.add(st, Ev(HOLD_CALLS[name], line, src(a0), self.tags(st, a0), src(narg),
                            {'node': n, 'arg': a0, 'shape': self.shape(st, a0), 'recv_self': recv_is_self}))
        elif name in ('_emit', 'emit') and isinstance(f, ast.Attribute):
            md = n.args[1] if len(n.args) > 1 else None
            data = n.args[0] if n.args else None
            for k in n.keywords:
                if k.arg == 'metadata':
                    md = k.value
                if k.arg == 'x':
                    data = k.value
            self.add(st, Ev('EM', line, src(md) if md is not None else None,
                            self.tags(st, md) if md is not None else frozenset(), name,
                            {'node': n, 'md': md, 'data': data, 'data_tags': self.tags(st, data),
                             'md_shape': self.shape(st, md) if md is not None else NONE,
                             'recv': src(recv), 'recv_self': recv_is_self}))
        elif name in DEFER:
            target = None
            if n.args:
                a0 = n.args[0]
                if name in ('call_later', 'call_at', 'add_timeout', 'run_in_executor') and len(n.args) > 1:
                    a0 = n.args[1]
                target = a0
            # a named temporary for the callback (wake = self.condition.notify; loop.add_callback(wake)) is seen through
            tsub = self.subst_pure(st, target) if target is not None else None
            self.add(st, Ev('DEFER', line, name, argtags, src(tsub) if tsub is not None else None,
                            {'node': n, 'target': tsub, 'recv': src(recv)}))
        elif recv_field is not None and name in MUT_ADD:
            self.forget(st, 'self.' + recv_field)
            self.add(st, Ev('ST', line, recv_field, argtags, name,
                            {'node': n, 'sub': isinstance(recv, ast.Subscript),
                             'vshape': self.shape(st, n.args[-1]) if n.args else OTHER,
                             'value': n.args[-1] if n.args else None}))
        elif recv_field is not None and name in ('get', 'get_nowait') and n.args:
            # dict.get(key[, default]) is a read, not a removal (queue.get() takes no positional argument)
            self.add(st, Ev('RD', line, recv_field, None, 'get', {'node': n}))
        elif recv_field is not None and name in MUT_TAKE:
            self.forget(st, 'self.' + recv_field)
            self.add(st, Ev('TK', line, recv_field, None, name,
                            {'node': n, 'sub': isinstance(recv, ast.Subscript), 'args': [src(a) for a in n.args]}))
        elif isinstance(recv, ast.Name) and name in (MUT_ADD | MUT_TAKE) and recv.id in st.alias:
            fields = [st.alias[recv.id]]
            self.forget(st, recv.id)
            for fld in fields:
                if name in MUT_ADD:
                    self.add(st, Ev('ST', line, fld, argtags, name,
                                    {'node': n, 'alias': recv.id, 'sub': True,
                                     'vshape': self.shape(st, n.args[-1]) if n.args else OTHER,
                                     'value': n.args[-1] if n.args else None}))
                else:
                    self.add(st, Ev('TK', line, fld, None, name,
                                    {'node': n, 'alias': recv.id, 'sub': True, 'args': [src(a) for a in n.args]}))
        elif isinstance(recv, ast.Name) and name in ('append', 'extend') and not recv_is_self:
            # accumulation into a plain local list
            L = recv.id
            self.forget(st, L)
            st.env[L] = st.env.get(L, frozenset()) | argtags
            cur = st.shape.get(L, OTHER)
            ash = self.shape(st, n.args[0]) if n.args else OTHER
            if cur in (FLAT, NESTED):
                if name == 'append' and ash in (FLAT, NESTED):
                    st.shape[L] = NESTED
                elif name == 'extend' and ash == NESTED:
                    st.shape[L] = NESTED
            self.add(st, Ev('LADD', line, L, argtags, name, {'node': n, 'vshape': ash}))
        elif recv_is_self and self.resolve_self_method(name) is not None:
            callee = self.resolve_self_method(name)
            self.add(st, Ev('SELFCALL', line, name, argtags, callee.kind,
                            {'node': n, 'callee': callee, 'args': [self.tags(st, a) for a in n.args]}))
        elif recv_is_self:
            # calling something stored on the instance: a user callable (self.func, self.predicate, ...)
            self.add(st, Ev('UCALL', line, name, argtags, None, {'node': n}))
        elif recv_is_super:
            self.add(st, Ev('SUPERCALL', line, name, argtags, None, {'node': n}))
        elif isinstance(f, ast.Name) and any(t.startswith('ufield:') for t in st.env.get(f.id, ())):
            # a user callable called through a local alias:  fn = self.func ; fn(x)
            fld = sorted(t[7:] for t in st.env.get(f.id, ()) if t.startswith('ufield:'))[0]
            self.add(st, Ev('UCALL', line, fld, argtags, None, {'node': n}))
        else:
            a0 = n.args[0] if n.args else next((k.value for k in n.keywords if k.arg == 'x'), None)
            self.add(st, Ev('CALL', line, src(f), argtags, name,
                            {'node': n, 'recv_tags': self.tags(st, recv) if recv is not None else frozenset(),
                             'arg0_tags': self.tags(st, a0) if a0 is not None else frozenset()}))

    # ------------------------------------------------------------------ assignment
    def forget(self, st, ident):
        """drop remembered conditions that mention a written name/field"""
        pat = re.compile(r'(?<![\w.])' + re.escape(ident) + r'(?![\w])')
        if st.expr:
            for k in [k for k, v in st.expr.items() if pat.search(src(v))]:
                del st.expr[k]
        if not st.conds:
            return
        st.conds = [c for c in st.conds if not pat.search(c[0])]

    def assign(self, st, target, vtags, line, vnode=None, vshape=None):
        if isinstance(target, ast.Name):
            if isinstance(vnode, ast.Attribute) and isinstance(vnode.value, ast.Name) and vnode.value.id == 'self' \
                    and self.is_user_callable_field(vnode.attr) and not isinstance(vtags, type(None)):
                vtags = frozenset(vtags) | frozenset({'ufield:' + vnode.attr})
            al = direct_field_alias(vnode) if vnode is not None else None
            if al is None and isinstance(vnode, ast.Name) and vnode.id in st.alias:
                al = st.alias[vnode.id]          # alias of an alias
            if al is not None:
                st.alias[target.id] = al
            else:
                st.alias.pop(target.id, None)
            if vnode is not None and not any(
                    (isinstance(x, ast.Call) and not (isinstance(x.func, ast.Name) and x.func.id in ('len', 'isinstance', 'callable', 'bool')
                                                      and not x.keywords))
                    or isinstance(x, (ast.Await, ast.Yield, ast.YieldFrom, ast.Lambda, ast.ListComp, ast.GeneratorExp, ast.DictComp, ast.SetComp))
                    for x in ast.walk(vnode)) and not isinstance(vnode, (ast.List, ast.Dict, ast.Tuple, ast.Set)) \
                    and not any(isinstance(x, ast.Name) and x.id == target.id for x in ast.walk(vnode)) \
                    and target.id not in self.shared_locals and not st.weak:
                st.expr[target.id] = vnode
            else:
                st.expr.pop(target.id, None)
            if st.weak:
                st.env[target.id] = st.env.get(target.id, frozenset()) | vtags
                st.shape[target.id] = join_shape(st.shape.get(target.id), vshape if vshape is not None else OTHER)
            else:
                st.env[target.id] = vtags
                st.shape[target.id] = vshape if vshape is not None else OTHER
            self.forget(st, target.id)
        elif isinstance(target, (ast.Tuple, ast.List)):
            if isinstance(vnode, (ast.Tuple, ast.List)) and len(vnode.elts) == len(target.elts):
                for t, v in zip(target.elts, vnode.elts):
                    self.assign(st, t, getattr(v, '_pre_tags', None) or self.tags(st, v), line, v,
                                getattr(v, '_pre_shape', None) or self.shape(st, v))
            else:
                for i, t in enumerate(target.elts):
                    sh = OTHER
                    if isinstance(vshape, tuple) and vshape and vshape[0] == 'TUP' and i < len(vshape) - 1:
                        sh = vshape[1 + i]
                    elif isinstance(vshape, tuple) and vshape and vshape[0] == 'ZIPOF' and i < len(vshape) - 1:
                        sh = vshape[1 + i]
                    self.assign(st, t, vtags, line, None, sh)
        elif isinstance(target, ast.Starred):
            self.assign(st, target.value, vtags, line, None, OTHER)
        else:
            f = self_field(target)
            if f is not None:
                if isinstance(target, ast.Subscript):
                    self.ev_expr(st, target.slice)
                    kind = 'setitem'
                    key = src(target.slice)
                else:
                    kind = 'assign'
                    key = None
                empty = vnode is not None and is_empty_literal(vnode)
                if empty and not any(x.kind == 'TK' and x.a == f and x.c == 'swap' and x.line == line for x in st.events[-6:]):
                    # sequential swap:  L = self.f ; self.f = []   (the local keeps the old content = it was taken out)
                    holders = [nm for nm, tg in st.env.items() if not nm.startswith('self.') and ('field:' + f) in tg
                               and not any(t.startswith('take:' + f + '@') for t in tg)]
                    if holders:
                        self.add(st, Ev('TK', line, f, None, 'swap', {'node': target, 'sub': isinstance(target, ast.Subscript),
                                                                      'sequential': True}))
                        for nm in holders:
                            st.env[nm] = st.env[nm] | frozenset({'take:%s@%d' % (f, line)})
                            st.alias.pop(nm, None)
                if kind == 'assign':
                    st.env['self.' + f] = frozenset(t for t in vtags if t.startswith(('emit@', 'take:')))
                    if empty or vshape is None:
                        st.shape.pop('self.' + f, None)
                    else:
                        st.shape['self.' + f] = vshape
                self.add(st, Ev('ST', line, f, vtags, 'reset' if empty and kind == 'assign' else kind,
                                {'node': target, 'key': key, 'value': vnode, 'empty': empty,
                                 'vshape': vshape if vshape is not None else OTHER,
                                 'sub': isinstance(target, ast.Subscript)}))
                self.forget(st, 'self.' + f)
            elif isinstance(target, ast.Subscript) and isinstance(target.value, ast.Name):
                # store through a local alias of a field container
                nm = target.value.id
                self.ev_expr(st, target.slice)
                if nm in st.alias:
                    f = st.alias[nm]
                    empty = vnode is not None and is_empty_literal(vnode)
                    if empty:
                        # sequential swap through the alias:  L = c[k] ; c[k] = []   (c is the container of self.f)
                        holders = [h for h, tg in st.env.items() if h != nm and not h.startswith('self.') and ('field:' + f) in tg
                                   and not any(t.startswith('take:' + f + '@') for t in tg)]
                        if holders:
                            self.add(st, Ev('TK', line, f, None, 'swap', {'node': target, 'sub': True, 'sequential': True,
                                                                          'alias': nm}))
                            for h in holders:
                                st.env[h] = st.env[h] | frozenset({'take:%s@%d' % (f, line)})
                                st.alias.pop(h, None)
                    self.add(st, Ev('ST', line, f, vtags, 'setitem',
                                    {'node': target, 'alias': nm, 'key': src(target.slice), 'value': vnode,
                                     'empty': empty, 'vshape': vshape, 'sub': True}))
                self.forget(st, nm)
                st.env[nm] = st.env.get(nm, frozenset()) | vtags
            elif isinstance(target, ast.Attribute):
                self.ev_expr(st, target.value)
                self.add(st, Ev('ATTRSET', line, src(target), vtags, None, {'node': target}))
            elif isinstance(target, ast.Subscript):
                self.ev_expr(st, target.value)
                self.ev_expr(st, target.slice)

    def do_assign(self, st, n, value, targets):
        """Assign / AnnAssign with already-evaluated events of value"""
        v = value
        if isinstance(v, (ast.Tuple, ast.List)):
            for e in v.elts:
                e._pre_tags = self.tags(st, e)
                e._pre_shape = self.shape(st, e)
        vt = self.tags(st, v)
        vs = self.shape(st, v)
        # zip(*listof TUP) unpacking
        if isinstance(v, ast.Call) and src(v.func) in ("__builtins__['zip']", 'zip', 'builtins.zip') and len(v.args) == 1 \
                and isinstance(v.args[0], ast.Starred):
            inner = self.shape(st, v.args[0].value)
            if isinstance(inner, tuple) and inner and inner[0] == 'LTUP':
                vs = ('ZIPOF',) + tuple(listof(s) for s in inner[1:])
        # swap-reset idiom:  L, self.f = self.f, []   => a single TAKE of f
        if isinstance(v, (ast.Tuple, ast.List)) and len(targets) == 1 and isinstance(targets[0], (ast.Tuple, ast.List)) \
                and len(targets[0].elts) == len(v.elts):
            tg = targets[0]
            for ti, vi in zip(tg.elts, v.elts):
                fld = self_field(ti)
                if fld is not None and is_empty_literal(vi):
                    for tj, vj in zip(tg.elts, v.elts):
                        if tj is not ti and ('field:' + fld) in vj._pre_tags:
                            self.add(st, Ev('TK', n.lineno, fld, None, 'swap',
                                            {'node': n, 'sub': isinstance(ti, ast.Subscript)}))
                            vj._pre_tags = vj._pre_tags | frozenset({'take:%s@%d' % (fld, n.lineno)})
                            break
        for t in targets:
            self.assign(st, t, vt, n.lineno, v, vs)

    # ------------------------------------------------------------------ statements
    def run(self, state=None):
        st = state or PathState()
        if state is None:
            a = self.fn.node.args
            for arg in a.posonlyargs + a.args + a.kwonlyargs:
                st.env[arg.arg] = frozenset(self.param_tags.get(arg.arg, ()))
                if arg.arg in self.param_shapes:
                    st.shape[arg.arg] = self.param_shapes[arg.arg]
            if a.vararg:
                st.env[a.vararg.arg] = frozenset(self.param_tags.get(a.vararg.arg, ()))
            if a.kwarg:
                st.env[a.kwarg.arg] = frozenset(self.param_tags.get(a.kwarg.arg, ()))
        out = []
        for s, status in self.block(self.fn.node.body, st):
            out.append((s, status))
            if len(out) > self.maxpaths:
                raise AnalysisError('path explosion in %s (> %d paths)' % (self.fn.fq, self.maxpaths))
        return out

    def block(self, stmts, st):
        if not stmts:
            yield st, 'next'
            return
        head, rest = stmts[0], stmts[1:]
        for s1, status in self.stmt(head, st):
            if status == 'next':
                yield from self.block(rest, s1)
            else:
                yield s1, status

    def subst_pure(self, st, test, depth=0):
        """replace locals bound to a pure, call-free expression by that expression (temporaries in tests)"""
        if st is None or not st.expr or depth > 3:
            return test
        names = {n.id for n in ast.walk(test) if isinstance(n, ast.Name) and n.id in st.expr}
        if not names:
            return test
        import copy as _copy

        class T(ast.NodeTransformer):
            def visit_Name(self_, n):
                if isinstance(n.ctx, ast.Load) and n.id in st.expr:
                    return _copy.deepcopy(st.expr[n.id])
                return n
        out = T().visit(_copy.deepcopy(test))
        return self.subst_pure(st, out, depth + 1)

    def cond_key(self, test, st=None):
        test = self.subst_pure(st, test)
        neg = False
        while isinstance(test, ast.UnaryOp) and isinstance(test.op, ast.Not):
            test = test.operand
            neg = not neg
        if isinstance(test, ast.Compare) and len(test.ops) == 1:
            op = test.ops[0]
            inv = {ast.IsNot: ast.Is, ast.NotIn: ast.In, ast.NotEq: ast.Eq}
            for k, v in inv.items():
                if isinstance(op, k):
                    t2 = ast.Compare(left=test.left, ops=[v()], comparators=test.comparators)
                    return src(t2), not neg
        return src(test), neg

    def known(self, st, test):
        key, neg = self.cond_key(test, st)
        for (c, o) in reversed(st.conds):
            if c == key:
                return (not o) if neg else o
        if isinstance(test, ast.Constant):
            return bool(test.value)
        # a local flag bound to a constant on this path (failed = False ... except: failed = True ... if not failed:)
        folded = self.subst_pure(st, test)
        fneg = False
        while isinstance(folded, ast.UnaryOp) and isinstance(folded.op, ast.Not):
            folded, fneg = folded.operand, not fneg
        if isinstance(folded, ast.Constant) and (isinstance(folded.value, bool) or folded.value is None) and not st.weak:
            return (not bool(folded.value)) if fneg else bool(folded.value)
        core = test
        while isinstance(core, ast.UnaryOp) and isinstance(core.op, ast.Not):
            core = core.operand
        val = None
        # shape-based guard evaluation
        if isinstance(core, ast.Compare) and len(core.ops) == 1 and isinstance(core.ops[0], ast.Is) \
                and isinstance(core.left, ast.Call) and src(core.left.func) == 'type' \
                and src(core.comparators[0]) == 'list' and core.left.args:
            sh = self.shape(st, core.left.args[0])
            if sh in (FLAT, NESTED):
                val = True
            elif sh in (AW, NONE, SCALAR):
                val = False
        elif isinstance(core, ast.Call) and src(core.func).split('.')[-1] in (
                'isawaitable', 'is_future', 'isfuture', 'iscoroutine', 'is_coroutine') and core.args:
            sh = self.shape(st, core.args[0])
            if sh in (FLAT, NESTED, NONE, SCALAR):
                val = False
            elif sh == AW:
                val = True
        elif isinstance(core, ast.Call) and src(core.func) == 'isinstance' and len(core.args) == 2 \
                and src(core.args[1]) == 'list':
            sh = self.shape(st, core.args[0])
            if sh in (NESTED,):
                val = True
            elif sh in (SCALAR, AW, NONE):
                val = False
        if val is None:
            return None
        return (not val) if neg else val

    def tested_value_tags(self, st, test):
        """tags of the value whose truthiness is tested (bare name / attribute / subscript / len(..))"""
        node = test
        while isinstance(node, ast.UnaryOp) and isinstance(node.op, ast.Not):
            node = node.operand
        if isinstance(node, ast.Call) and isinstance(node.func, ast.Name) and node.func.id == 'len' and node.args:
            node = node.args[0]
        if isinstance(node, (ast.Name, ast.Attribute, ast.Subscript)):
            return self.tags(st, node)
        return frozenset()

    def record(self, st, test, outcome):
        key, neg = self.cond_key(test, st)
        st.conds.append((key, (not outcome) if neg else outcome))
        subst = self.subst_pure(st, test)
        core_ = test
        while isinstance(core_, ast.UnaryOp) and isinstance(core_.op, ast.Not):
            core_ = core_.operand
        arg_tags = self.tags(st, core_.args[0]) if isinstance(core_, ast.Call) and core_.args else frozenset()
        self.add(st, Ev('COND', test.lineno, key, (not outcome) if neg else outcome, None,
                        {'node': subst, 'orig': test, 'tags': self.tested_value_tags(st, test), 'arg_tags': arg_tags}))
        test_s = subst
        if isinstance(test_s, ast.BoolOp) and ((isinstance(test_s.op, ast.And) and outcome)
                                               or (isinstance(test_s.op, ast.Or) and not outcome)):
            for v in test_s.values:
                k2, n2 = self.cond_key(v, None)
                st.conds.append((k2, (not outcome) if n2 else outcome))
                self.add(st, Ev('COND', test.lineno, k2, (not outcome) if n2 else outcome, 'conjunct',
                                {'node': v, 'tags': self.tested_value_tags(st, v)}))
        # refine shapes from isinstance(v, list)
        core = test
        o = outcome
        while isinstance(core, ast.UnaryOp) and isinstance(core.op, ast.Not):
            core = core.operand
            o = not o
        if isinstance(core, ast.Call) and src(core.func) == 'isinstance' and len(core.args) == 2 \
                and src(core.args[1]) == 'list' and isinstance(core.args[0], ast.Name):
            nm = core.args[0].id
            cur = st.shape.get(nm, OTHER)
            if o:
                if cur not in (FLAT, NESTED):
                    st.shape[nm] = FLAT
            else:
                st.shape[nm] = SCALAR

    def stmt_relevant(self, n):
        for x in ast.walk(n):
            if isinstance(x, (ast.Call, ast.Yield, ast.YieldFrom, ast.Await, ast.Return, ast.Raise,
                              ast.Break, ast.Continue)):
                return True
            if isinstance(x, (ast.Attribute, ast.Subscript)) and isinstance(getattr(x, 'ctx', None), (ast.Store, ast.Del)) \
                    and self_field(x) is not None:
                return True
        return False

    def top_self_call(self, value):
        """value (possibly wrapped in await/yield) is a call of a package method on self/super
        that we can splice in.  returns (call, callee Func, awaited) or None"""
        awaited = False
        v = value
        if isinstance(v, (ast.Await, ast.Yield, ast.YieldFrom)) and v.value is not None:
            awaited = 'yieldfrom' if isinstance(v, ast.YieldFrom) else True
            v = v.value
        if not isinstance(v, ast.Call):
            return None
        if not self.inline or len(self.stack) > self.depth:
            return None
        if isinstance(v.func, ast.Name):
            # a private module-level helper of the package (extracted code):  _flatten_metadata(x), _keep_alive(self)
            if not v.func.id.startswith('_') or v.func.id.startswith('__'):
                return None
            target = self.model.resolve_name(self.module, v.func)
            if not isinstance(target, Func) or target.owner is not None or target.parent is not None:
                return None
            if target.fq in self.stack or (target.is_coro and not awaited):
                return None
            v2 = ast.copy_location(ast.Call(func=v.func, args=v.args, keywords=v.keywords), v)
            v2._param_offset = 0
            # a helper that takes the node itself as a parameter (`_enqueue_retained(self, x, md)`): analyse a clone in which
            # that parameter is called `self`, so that field accesses through it are the node's fields
            idx = next((i for i, a in enumerate(v.args) if isinstance(a, ast.Name) and a.id == 'self'), None)
            tparams = target.params()
            if idx is not None and idx < len(tparams) and tparams[idx] != 'self':
                clones = target.__dict__.setdefault('_self_clones', {})
                if idx not in clones:
                    import copy as _copy
                    pname = tparams[idx]

                    class Ren(ast.NodeTransformer):
                        def visit_Name(self_, n):
                            return ast.copy_location(ast.Name(id='self', ctx=n.ctx), n) if n.id == pname else n

                        def visit_arg(self_, n):
                            return ast.copy_location(ast.arg(arg='self', annotation=n.annotation), n) if n.arg == pname else n
                    node2 = Ren().visit(_copy.deepcopy(target.node))
                    f2 = Func(target.module, target.qual, node2, cls=self.cls, parent=None)
                    f2.owner = None
                    clones[idx] = f2
                target = clones[idx]
            return v2, target, awaited
        if not isinstance(v.func, ast.Attribute):
            return None
        f = v.func
        name = f.attr
        explicit_base = bool(v.args) and isinstance(v.args[0], ast.Name) and v.args[0].id == 'self' \
            and not (isinstance(f.value, ast.Name) and f.value.id == 'self')
        if (name in NO_INLINE and not (explicit_base and name == 'update')) or name in self.no_inline:
            return None
        callee = None
        explicit_self = False
        if v.args and isinstance(v.args[0], ast.Name) and v.args[0].id == 'self' \
                and not (isinstance(f.value, ast.Name) and f.value.id == 'self') \
                and isinstance(self.model.resolve_name(self.module, f.value), Class):
            # Base.__init__(self, ...)  /  Base.update(self, x, ...): an explicit call of a base-class method on this node
            base = self.model.resolve_name(self.module, f.value)
            if isinstance(base, Class):
                callee = base.find(name)
                explicit_self = True
        elif isinstance(f.value, ast.Name) and f.value.id == 'self':
            callee = self.resolve_self_method(name)
        elif isinstance(f.value, ast.Call) and isinstance(f.value.func, ast.Name) and f.value.func.id == 'super' \
                and self.cls is not None:
            owner = getattr(self.fn, 'owner', None) or self.fn.cls
            if owner is not None and owner in self.cls.mro:
                callee = self.cls.find_after(owner, name)
        if callee is None or callee.fq in self.stack:
            return None
        if any(src(d) in ('property', 'classmethod') for d in callee.node.decorator_list):
            return None
        is_static = any(src(d) == 'staticmethod' for d in callee.node.decorator_list)
        if callee.is_coro and not awaited:
            return None        # a coroutine called but not awaited here: stays a SELFCALL (escape)
        if explicit_self:
            v = ast.copy_location(ast.Call(func=v.func, args=v.args[1:], keywords=v.keywords), v)
        if is_static:
            v = ast.copy_location(ast.Call(func=v.func, args=v.args, keywords=v.keywords), v)
            v._param_offset = 0
        return v, callee, awaited

    def splice(self, st, call, callee, awaited, cont):
        """enumerate callee paths from st; cont(state, ret_tags, ret_shape) continues the caller"""
        s = st.copy()
        # evaluate arguments in the caller
        for a in call.args:
            self.ev_expr(s, a.value if isinstance(a, ast.Starred) else a)
        for k in call.keywords:
            self.ev_expr(s, k.value)
        params = callee.params()[getattr(call, '_param_offset', 1):]
        ptags, pshapes = {}, {}
        for p, a in zip(params, call.args):
            ptags[p] = self.tags(s, a)
            pshapes[p] = self.shape(s, a)
        for k in call.keywords:
            if k.arg:
                ptags[k.arg] = self.tags(s, k.value)
                pshapes[k.arg] = self.shape(s, k.value)
        sub = Interp(self.model, callee, cls=self.cls, param_tags=ptags, param_shapes=pshapes, K=self.K,
                     depth=self.depth, field_elem=self.field_elem, maxpaths=self.maxpaths, inline=self.inline,
                     stack=self.stack, relevant_only=self.relevant_only, no_inline=self.no_inline)
        cs = PathState()
        a = callee.node.args
        for arg in a.posonlyargs + a.args + a.kwonlyargs:
            cs.env[arg.arg] = frozenset(ptags.get(arg.arg, ()))
            if arg.arg in pshapes:
                cs.shape[arg.arg] = pshapes[arg.arg]
        # a container of the node handed to the helper (a field, or a local alias of one) is that container inside it
        for p_, a_ in list(zip(params, call.args)) + [(k.arg, k.value) for k in call.keywords if k.arg]:
            al = s.alias.get(a_.id) if isinstance(a_, ast.Name) else direct_field_alias(a_)
            if al is not None:
                cs.alias[p_] = al
        # **kwargs plumbing: what is known about dict-valued arguments travels into the callee; the ENTER event records the
        # constant keywords effective at this call (explicit ones and those inside **<dict>) and keys supplied twice
        named = set(callee.params()) | {a_.arg for a_ in callee.node.args.kwonlyargs}
        eff, twice = {}, set()
        for k in call.keywords:
            if k.arg:
                eff[k.arg] = _const(k.value)
        spread = {}
        for k in call.keywords:
            if k.arg is None:
                spread.update(kw_of_expr(s, k.value))
        twice = set(spread) & set(eff)
        for k_, v_ in spread.items():
            eff.setdefault(k_, v_)
        for p_, a_ in zip(params, call.args):
            known = kw_of_expr(s, a_)
            if known or (isinstance(a_, ast.Name) and a_.id in s.kw):
                cs.kw[p_] = known
        kwparam = callee.node.args.kwarg.arg if callee.node.args.kwarg else None
        if kwparam:
            cs.kw[kwparam] = {k_: v_ for k_, v_ in eff.items() if k_ not in named}
        cs.events = s.events + [self._mk(Ev('ENTER', call.lineno, callee.name, None, callee.kind,
                                            {'callee': callee, 'awaited': awaited, 'call': call,
                                             'offset': getattr(call, '_param_offset', 1), 'kw': eff, 'kw_twice': twice}))]
        cs.conds = [c for c in s.conds if c[0].startswith('self.')]
        for cstate, cstatus in sub.block(callee.node.body, cs):
            self.count += 1
            back = s.copy()
            back.events = cstate.events + [self._mk(Ev('LEAVE', call.lineno, callee.name, None, cstatus))]
            # field-level knowledge learnt in the callee survives
            for c in cstate.conds:
                if c[0].startswith('self.') and c not in back.conds:
                    back.conds.append(c)
            for k, v in cstate.shape.items():
                if k.startswith('self.'):
                    back.shape[k] = v
            # a list handed to the helper and filled there (acc.extend(ret)) is the caller's list
            for p_, a_ in list(zip(params, call.args)) + [(k.arg, k.value) for k in call.keywords if k.arg]:
                if isinstance(a_, ast.Name) and p_ in cstate.env:
                    extra = cstate.env[p_] - back.env.get(a_.id, frozenset())
                    if extra and any(e.kind == 'LADD' and e.a == p_ for e in cstate.events[len(s.events):]):
                        back.env[a_.id] = back.env.get(a_.id, frozenset()) | cstate.env[p_]
                        if cstate.shape.get(p_) == NESTED:
                            back.shape[a_.id] = NESTED
                        back.events.append(self._mk(Ev('LADD', call.lineno, a_.id, cstate.env[p_], 'via-helper',
                                                       {'node': call, 'vshape': cstate.shape.get(p_, OTHER)})))
            if cstatus in ('raise',):
                yield back, 'raise'
                continue
            if cstatus == 'loopcut':
                yield back, 'loopcut'
                continue
            rt, rs = frozenset(), NONE
            ret_node = None
            for e in reversed(cstate.events):
                if e.kind == 'RETURN' and e.depth == len(self.stack):
                    rt, rs = e.b or frozenset(), (e.x or {}).get('shape', OTHER)
                    ret_node = (e.x or {}).get('node')
                    break
            # keyword dictionaries are objects: what the helper wrote into a dict it was handed is visible in the caller's
            # dict, and a dict it returns carries its content to whatever the caller binds it to
            for p_, a_ in list(zip(params, call.args)) + [(k.arg, k.value) for k in call.keywords if k.arg]:
                if isinstance(a_, ast.Name) and p_ in cstate.kw and (a_.id in back.kw or cstate.kw[p_]):
                    back.kw[a_.id] = dict(cstate.kw[p_])
            back.ret_kw = kw_of_expr(cstate, ret_node) if ret_node is not None else {}
            if awaited and (callee.is_coro or awaited != 'yieldfrom'):
                # (a plain generator driven by `yield from` suspends only where its own body yields)
                back.events.append(self._mk(Ev('SUS', call.lineno, src(call), rt, 'spliced',
                                               {'node': call})))
            yield from cont(back, rt, rs)

    def _mk(self, ev):
        ev.depth = len(self.stack) - 1
        return ev

    def lift_nested_call(self, n):
        """a spliceable helper call nested inside the statement's expression (an argument of another call, an operand, an
        element of a tuple ...) is given a name first:  f(*self._heads())  ==  t = self._heads(); f(*t).  Only when everything
        evaluated before it is call-free (the order of effects is unchanged) and no conditional evaluation (and/or, x if c
        else y, lambda, comprehension) or emission call lies in between.  Returns [assignment, rewritten statement] or None."""
        if not isinstance(n, (ast.Expr, ast.Assign, ast.AnnAssign, ast.Return, ast.AugAssign)) or getattr(n, 'value', None) is None:
            return None
        top = n.value
        core = top.value if isinstance(top, (ast.Await, ast.Yield, ast.YieldFrom)) and top.value is not None else top
        if not any(isinstance(x, ast.Call) and x is not core for x in ast.walk(core)):
            return None

        def effect_free(e):
            return not any(isinstance(x, (ast.Call, ast.Await, ast.Yield, ast.YieldFrom)) for x in ast.walk(e))

        def children(e):
            if isinstance(e, ast.Call):
                return [e.func] + list(e.args) + [k.value for k in e.keywords]
            if isinstance(e, (ast.Lambda, ast.ListComp, ast.SetComp, ast.DictComp, ast.GeneratorExp, ast.IfExp, ast.BoolOp)):
                return None
            return [c for c in ast.iter_child_nodes(e) if isinstance(c, ast.expr)]

        def find(e, path):
            # returns the chain of nodes from the statement's expression down to the call to lift, or None / 'stop'
            if isinstance(e, ast.Call) and e is not core and self.top_self_call(e):
                return path + [e]
            ch = children(e)
            if ch is None:
                return 'stop' if not effect_free(e) else None
            for c in ch:
                r = find(c, path + [e])
                if r is not None:
                    return r
            if isinstance(e, (ast.Call, ast.Await, ast.Yield, ast.YieldFrom)) and e is not core:
                return 'stop'           # an effect that runs before anything further to the right
            return None
        chain = find(core, [])
        if not chain or chain == 'stop':
            return None
        call = chain[-1]
        if any(isinstance(a, ast.Call) and isinstance(a.func, ast.Attribute) and a.func.attr in ('_emit', 'emit') for a in chain[:-1]):
            return None                 # (emission calls are identified by node identity elsewhere: never rebuilt)
        tmp = '__lift_%d_%d' % (call.lineno, call.col_offset)
        new = ast.copy_location(ast.Name(id=tmp, ctx=ast.Load()), call)
        return self._rebuild_with(n, top, core, chain, new, tmp)

    def _rebuild_with(self, n, top, core, chain, new, tmp):
        import copy as _copy
        call = chain[-1]
        repl = {id(call): new}

        def rebuild(e):
            if id(e) in repl:
                return repl[id(e)]
            if not any(x is call for x in ast.walk(e)):
                return e
            clone = _copy.copy(e)
            for f, v in ast.iter_fields(e):
                if isinstance(v, list):
                    setattr(clone, f, [rebuild(x) if isinstance(x, ast.AST) else x for x in v])
                elif isinstance(v, ast.AST):
                    setattr(clone, f, rebuild(v))
            return clone
        stmt2 = _copy.copy(n)
        stmt2.value = rebuild(n.value)
        asg = ast.copy_location(ast.Assign(targets=[ast.copy_location(ast.Name(id=tmp, ctx=ast.Store()), call)], value=call), n)
        return [asg, stmt2]

    def stmt(self, n, st):
        lifted = self.lift_nested_call(n) if self.inline else None
        if lifted:
            yield from self.block(lifted, st)
            return
        if isinstance(n, ast.Expr):
            tsc = self.top_self_call(n.value)
            if tsc:
                def cont(s, rt, rs):
                    yield s, 'next'
                yield from self.splice(st, tsc[0], tsc[1], tsc[2], cont)
                return
            s = st.copy()
            self.ev_expr(s, n.value)
            kw_effects(s, n)
            yield s, 'next'
        elif isinstance(n, (ast.Assign, ast.AnnAssign)):
            value = n.value
            targets = n.targets if isinstance(n, ast.Assign) else [n.target]
            if value is None:
                yield st, 'next'
                return
            if isinstance(n, ast.Assign):
                st = st.copy()
                kw_effects(st, n)
            tsc = self.top_self_call(value)
            if tsc:
                def cont(s, rt, rs):
                    for t in targets:
                        self.assign(s, t, rt, n.lineno, None, rs)
                        if isinstance(t, ast.Name) and s.ret_kw:
                            s.kw[t.id] = dict(s.ret_kw)
                    s.ret_kw = None
                    yield s, 'next'
                yield from self.splice(st, tsc[0], tsc[1], tsc[2], cont)
                return
            s = st.copy()
            self.ev_expr(s, value)
            self.do_assign(s, n, value, targets)
            yield s, 'next'
        elif isinstance(n, ast.AugAssign) and isinstance(n.target, ast.Name) and isinstance(n.op, ast.Add) \
                and (n.target.id in st.alias or st.shape.get(n.target.id) in (FLAT, NESTED)):
            # in-place extension of a list:  alias += v  (store into the aliased field)  /  local_list += v
            s = st.copy()
            self.ev_expr(s, n.value)
            vt = self.tags(s, n.value)
            vs = self.shape(s, n.value)
            nm = n.target.id
            if nm in s.alias:
                self.forget(s, nm)
                self.add(s, Ev('ST', n.lineno, s.alias[nm], vt, 'extend',
                               {'node': n, 'alias': nm, 'sub': True, 'vshape': vs, 'value': n.value}))
            else:
                self.forget(s, nm)
                if vs == NESTED:
                    s.shape[nm] = NESTED
                self.add(s, Ev('LADD', n.lineno, nm, vt, 'extend', {'node': n, 'vshape': vs}))
            s.env[nm] = s.env.get(nm, frozenset()) | vt
            yield s, 'next'
        elif isinstance(n, ast.AugAssign):
            s = st.copy()
            self.ev_expr(s, n.value)
            f = self_field(n.target)
            if f is not None:
                self.add(s, Ev('RD', n.lineno, f, None, 'aug', {'node': n.target}))
            self.assign(s, n.target, self.tags(s, n.target) | self.tags(s, n.value), n.lineno, None,
                        join_shape(self.shape(s, n.target), self.shape(s, n.value))
                        if isinstance(n.op, ast.Add) else OTHER)
            yield s, 'next'
        elif isinstance(n, ast.Return):
            tsc = self.top_self_call(n.value) if n.value is not None else None
            if tsc:
                def cont(s, rt, rs):
                    self.add(s, Ev('RETURN', n.lineno, src(n.value), rt, None, {'shape': rs, 'node': n.value}))
                    yield s, 'return'
                yield from self.splice(st, tsc[0], tsc[1], tsc[2], cont)
                return
            s = st.copy()
            self.ev_expr(s, n.value)
            self.add(s, Ev('RETURN', n.lineno, src(n.value) if n.value else None, self.tags(s, n.value), None,
                           {'shape': self.shape(s, n.value), 'node': n.value}))
            yield s, 'return'
        elif isinstance(n, ast.Raise):
            s = st.copy()
            self.ev_expr(s, n.exc)
            # tornado idiom: raise gen.Return(v) is a return
            if isinstance(n.exc, ast.Call) and src(n.exc.func) in ('gen.Return', 'Return') :
                v = n.exc.args[0] if n.exc.args else None
                self.add(s, Ev('RETURN', n.lineno, src(v), self.tags(s, v), 'gen.Return',
                               {'shape': self.shape(s, v), 'node': v}))
                yield s, 'return'
                return
            self.add(s, Ev('RAISE', n.lineno, src(n.exc), None, 'bare' if n.exc is None else None))
            yield s, 'raise'
        elif isinstance(n, ast.If):
            if self.relevant_only and not self.stmt_relevant(n):
                s = st.copy()
                self.ev_expr(s, n.test)
                s.weak += 1
                for arm in (n.body, n.orelse):
                    for sub in arm:
                        for s2, status in self.stmt(sub, s):
                            s = s2
                s.weak -= 1
                yield s, 'next'
                return
            s = st.copy()
            self.ev_expr(s, n.test)
            k = self.known(s, n.test)
            for outcome in (True, False):
                if k is not None and k != outcome:
                    continue
                b = s.copy()
                self.record(b, n.test, outcome)
                yield from self.block(n.body if outcome else n.orelse, b)
        elif isinstance(n, (ast.While, ast.For, ast.AsyncFor)):
            yield from self.loop(n, st, 0)
        elif isinstance(n, ast.Try):
            yield from self.try_(n, st)
        elif isinstance(n, (ast.With, ast.AsyncWith)):
            s = st.copy()
            for it in n.items:
                self.ev_expr(s, it.context_expr)
                if it.optional_vars is not None:
                    self.assign(s, it.optional_vars, self.tags(s, it.context_expr), n.lineno)
            yield from self.block(n.body, s)
        elif isinstance(n, ast.Break):
            yield st, 'break'
        elif isinstance(n, ast.Continue):
            yield st, 'continue'
        elif isinstance(n, ast.Delete):
            s = st.copy()
            for t in n.targets:
                f = self_field(t)
                if f is not None:
                    self.add(s, Ev('TK', n.lineno, f, None, 'del', {'node': t, 'sub': isinstance(t, ast.Subscript)}))
                    self.forget(s, 'self.' + f)
            yield s, 'next'
        elif isinstance(n, ast.Assert):
            s = st.copy()
            self.ev_expr(s, n.test)
            yield s, 'next'
        elif isinstance(n, (ast.FunctionDef, ast.AsyncFunctionDef)):
            # a closure definition: free variables it reads escape into it when it is used;
            # record the captured tags under the closure's name
            s = st.copy()
            cap = frozenset()
            bound = {a.arg for a in n.args.args + n.args.kwonlyargs}
            for x in ast.walk(n):
                if isinstance(x, ast.Name) and x.id not in bound:
                    cap |= st.env.get(x.id, frozenset())
            s.env[n.name] = cap | frozenset({'closure:' + n.name})
            yield s, 'next'
        elif isinstance(n, (ast.Pass, ast.Import, ast.ImportFrom, ast.Global, ast.Nonlocal, ast.ClassDef)):
            yield st, 'next'
        else:
            raise AnalysisError('unknown statement kind %s at %s:%d' % (type(n).__name__, self.fn.file, n.lineno))

    def loop(self, n, st, i):
        is_while = isinstance(n, ast.While)
        if not is_while and i == 0 and not getattr(n, '_desugared', False):
            # for x in self._helper(...):   ==   _it = self._helper(...);  for x in _it:
            tsc = self.top_self_call(n.iter)
            if tsc and not tsc[2]:
                from .geninline import inline_generator_loop, is_plain_generator
                if is_plain_generator(tsc[1]):
                    stmts = getattr(n, '_geninline', None)
                    if stmts is None:
                        stmts = inline_generator_loop(n, tsc[1], tsc[0], getattr(tsc[0], '_param_offset', 1))
                        n._geninline = stmts if stmts is not None else False
                    if stmts:
                        yield from self.block(stmts, st)
                        return
                nm = '_iter_%d' % n.lineno
                n2 = getattr(n, '_desugar', None)
                if n2 is None:
                    n2 = ast.copy_location(type(n)(target=n.target, iter=ast.copy_location(ast.Name(id=nm, ctx=ast.Load()), n.iter),
                                                   body=n.body, orelse=n.orelse), n)
                    ast.fix_missing_locations(n2)
                    n2._desugared = True
                    n._desugar = n2

                def cont(s_, rt, rs):
                    self.assign(s_, ast.copy_location(ast.Name(id=nm, ctx=ast.Store()), n.iter), rt, n.lineno, None, rs)
                    yield from self.loop(n2, s_, 0)
                yield from self.splice(st, tsc[0], tsc[1], tsc[2], cont)
                return
        s = st.copy()
        const_true = False
        if is_while:
            self.ev_expr(s, n.test)
            const_true = isinstance(n.test, ast.Constant) and bool(n.test.value)
        elif i == 0:
            self.ev_expr(s, n.iter)
        if not const_true:
            e = s.copy()
            self.add(e, Ev('LOOPEXIT', n.lineno, i, None, 'cond',
                           {'node': n, 'iter_tags': self.tags(s, n.iter) if not is_while else frozenset()}))
            if is_while:
                key, neg = self.cond_key(n.test, e)
                e.conds.append((key, neg))
            yield from self.block(n.orelse, e)
        if i >= self.K:
            c = s.copy()
            self.add(c, Ev('LOOPCUT', n.lineno, i, None, None, {'node': n}))
            if const_true:
                yield c, 'loopcut'
            return
        b = s.copy()
        self.add(b, Ev('ITER', n.lineno, i, None, None,
                       {'node': n, 'iter_tags': self.tags(b, n.iter) if not is_while else frozenset(),
                        'iter_field': None if is_while else (self_field(n.iter) if isinstance(n.iter, ast.Attribute) else
                                                             b.alias.get(n.iter.id) if isinstance(n.iter, ast.Name) else None)}))
        if not is_while:
            self.assign(b, n.target, self.tags(b, n.iter), n.lineno, None, elemof(self.shape(b, n.iter)))
            al = iter_field_alias(n.iter)
            if al is not None and isinstance(n.target, ast.Name):
                b.alias[n.target.id] = al
        entry_conds = list(b.conds)
        for s1, status in self.block(n.body, b):
            if status in ('next', 'continue'):
                # tests decided inside one iteration are not remembered in the next
                s1.conds = [c for c in entry_conds if c in s1.conds]
                yield from self.loop(n, s1, i + 1)
            elif status == 'break':
                self.add(s1, Ev('LOOPEXIT', n.lineno, i, None, 'break', {'node': n}))
                yield s1, 'next'
            else:
                yield s1, status

    EXC_SOURCES = ('CALL', 'SUS', 'EM', 'SELFCALL', 'UCALL', 'SUPERCALL', 'RET', 'REL', 'DEFER', 'TK', 'ST')

    def try_(self, n, st):
        base = len(st.events)
        depth = len(self.stack) - 1
        seen_exc = set()
        for s1, status in self.block(n.body, st):
            new_events = s1.events[base:]
            # exceptional variants: one per call-out / suspension inside the body
            if n.handlers or n.finalbody:
                for idx, ev in enumerate(new_events):
                    if ev.kind in self.EXC_SOURCES and (id(ev) not in seen_exc):
                        seen_exc.add(id(ev))
                        x = st.copy()
                        x.env = dict(s1.env)
                        x.shape = dict(s1.shape)
                        # the raising operation did not complete: its own event stays (it was attempted)
                        # but is marked as the source of the exception
                        x.events = s1.events[:base + idx + 1] + [self._mk(Ev('EXC', ev.line, ev.kind, None, None,
                                                                           {'source': ev}))]
                        yield from self.handle(n, x)
            if status == 'raise' and (n.handlers):
                last = s1.events[-1] if s1.events else None
                if last is not None and last.kind == 'LEAVE':
                    x = s1.copy()
                    x.events.append(self._mk(Ev('EXC', last.line, 'LEAVE', None, None, {'source': last})))
                    yield from self.handle(n, x)
                    continue
                # explicit raise inside try body
                x = s1.copy()
                x.events.append(self._mk(Ev('EXC', n.lineno, 'RAISE')))
                yield from self.handle(n, x)
            elif status == 'next':
                for s2, st2 in self.block(n.orelse, s1):
                    yield from self.fin(n, s2, st2)
            else:
                yield from self.fin(n, s1, status)

    def handle(self, n, x):
        if not n.handlers:
            yield from self.fin(n, x, 'raise')
            return
        for h in n.handlers:
            hs = x.copy()
            self.add(hs, Ev('HANDLER', h.lineno, src(h.type) if h.type else None, None, None, {'node': h}))
            if h.name:
                hs.env[h.name] = frozenset({'exc'})
            for s2, st2 in self.block(h.body, hs):
                if st2 == 'next':
                    self.add(s2, Ev('HANDLED', h.lineno, src(h.type) if h.type else None))
                yield from self.fin(n, s2, st2)
        # a handler with a specific type may not match: the exception may also propagate
        if all(h.type is not None and src(h.type) not in ('Exception', 'BaseException') for h in n.handlers):
            p = x.copy()
            self.add(p, Ev('UNHANDLED', n.lineno))
            yield from self.fin(n, p, 'raise')

    def fin(self, n, s, status):
        if not n.finalbody:
            yield s, status
            return
        s = s.copy()
        self.add(s, Ev('FINALLY', n.finalbody[0].lineno, status))
        for s2, st2 in self.block(n.finalbody, s):
            yield s2, (status if st2 == 'next' else st2)


# ---------------------------------------------------------------------- conveniences
def update_param_tags(fn):
    """tags for the canonical node entry point signature update(self, x, who=None, metadata=None)"""
    tags = {}
    shapes = {}
    for p in fn.params()[1:]:
        if p == 'metadata':
            tags[p] = {'md'}
            shapes[p] = FLAT
        elif p == 'x':
            tags[p] = {'x'}
        else:
            tags[p] = {'p:' + p}
    a = fn.node.args
    for p in a.kwonlyargs:
        tags[p.arg] = {'p:' + p.arg}
    return tags, shapes


def generic_param_tags(fn):
    tags = {}
    for p in fn.params():
        if p != 'self':
            tags[p] = {'p:' + p}
    for p in fn.node.args.kwonlyargs:
        tags[p.arg] = {'p:' + p.arg}
    return tags


def compute_field_elem(model, cls, K=1):
    """class-level summary: abstract shape of the *elements* of each container field, from every store
    on every path of every method (metadata parameter = FLAT).  Iterated to a fixpoint (2 rounds suffice:
    shapes of values taken from one field and stored into another)."""
    elem = {}
    for _ in range(3):
        before = dict(elem)
        for name in sorted({m for c in cls.mro for m in c.methods}):
            fn = cls.find(name)
            if fn is None or fn.module.name.split('.')[0] != 'streamz':
                continue
            if fn.name in ('update', '_insert_job'):
                tags, shapes = update_param_tags(fn)
            else:
                tags, shapes = generic_param_tags(fn), {}
                if 'metadata' in tags:
                    shapes['metadata'] = FLAT
            try:
                it = Interp(model, fn, cls=cls, param_tags=tags, param_shapes=shapes, K=K, field_elem=elem,
                            inline=False, maxpaths=4000, relevant_only=True)
                paths = it.run()
            except AnalysisError:
                continue
            for s, status in paths:
                for e in s.events:
                    if e.kind != 'ST' or not e.x:
                        continue
                    vs = e.x.get('vshape')
                    if vs is None:
                        continue
                    f = e.a
                    sub = e.x.get('sub')
                    alias = e.x.get('alias')
                    if e.c == 'append' or e.c == 'put' or e.c == 'put_nowait' or e.c == 'appendleft' or e.c == 'add':
                        new = listof(vs) if (sub) else vs
                    elif e.c == 'extend':
                        new = vs if sub else elemof(vs)
                    elif e.c == 'setitem':
                        if e.x.get('empty'):
                            continue
                        new = vs
                    elif e.c in ('assign',):
                        if vs in (FLAT, NESTED) or (isinstance(vs, tuple) and vs[0] == 'LTUP'):
                            new = elemof(vs)
                        else:
                            continue
                    else:
                        continue
                    if new in (OTHER, NONE) or new is None:
                        continue
                    elem[f] = join_shape(elem.get(f), new)
        if elem == before:
            break
    return elem


def enumerate_paths(model, fn, cls=None, kind=None, K=2, depth=3, field_elem=None, maxpaths=20000,
                    relevant_only=False, no_inline=(), inline=True, param_tags=None, param_shapes=None):
    cls = cls if cls is not None else fn.cls
    if param_tags is None:
        if fn.name in ('update', '_insert_job') or kind == 'update':
            param_tags, param_shapes = update_param_tags(fn)
        else:
            param_tags, param_shapes = generic_param_tags(fn), {}
            if 'metadata' in param_tags:
                param_tags['metadata'] = {'md'}
                param_shapes['metadata'] = FLAT
    it = Interp(model, fn, cls=cls, param_tags=param_tags, param_shapes=param_shapes or {}, K=K, depth=depth,
                field_elem=field_elem or {}, maxpaths=maxpaths, relevant_only=relevant_only,
                no_inline=no_inline, inline=inline)
    return it.run()


def fmt_path(events, limit=40, kinds=None):
    out = []
    for e in events:
        if kinds and e.kind not in kinds:
            continue
        if e.kind in ('RD', 'LADD', 'ITER') and not kinds:
            continue
        out.append(e.brief())
    if len(out) > limit:
        out = out[:limit // 2] + ['...'] + out[-limit // 2:]
    return out


def caller_expr(evs, i, node, max_depth=4):
    """the expression, in the scope of the outermost function of the path, that the Name `node` used by event evs[i] stands
    for: a helper's parameter is mapped back through the ENTER events (which carry the call) to the caller's argument, and a
    local bound exactly once in its function to a literal / name is replaced by that value.  Returns an ast expression."""
    stack = []
    for e in evs[:i + 1]:
        if e.kind == 'ENTER':
            stack.append(e)
        elif e.kind == 'LEAVE' and stack:
            stack.pop()
    k = len(stack)
    for _ in range(max_depth * 2):
        if not isinstance(node, ast.Name):
            break
        scope = stack[k - 1].x['callee'].node if k > 0 else None
        # a local bound once in its own function
        if scope is not None or k == 0:
            fnode = scope
            if fnode is not None:
                defs = [s_.value for s_ in ast.walk(fnode) if isinstance(s_, ast.Assign)
                        and any(isinstance(t, ast.Name) and t.id == node.id for t in s_.targets)]
                if len(defs) == 1 and isinstance(defs[0], (ast.Name, ast.List, ast.Tuple)):
                    node = defs[0]
                    continue
        if k == 0:
            break
        en = stack[k - 1]
        prm = en.x['callee'].params()[en.x.get('offset', 1):]
        call = en.x.get('call')
        if call is None or node.id not in prm:
            break
        idx = prm.index(node.id)
        kw = next((kk.value for kk in call.keywords if kk.arg == node.id), None)
        arg = call.args[idx] if idx < len(call.args) else kw
        if arg is None:
            break
        node = arg
        k -= 1
    return node
