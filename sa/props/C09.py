"""C09 Kafka batches: gap-free offsets, commit after processing (structural clauses of code the suite never runs)"""
from ..rules import kafka, lifecycle, holds, flow, failure
from .common import declare

RULES = ['AUTOCOMMIT-OFF', 'COMMIT-ONLY-VIA-REF', 'TUPLE-LAYOUT', 'OFFSET-ALGEBRA', 'SEED-FROM-COMMITTED', 'READ-RANGE',
         'STOP-CHECK', 'SINGLE-FLIGHT', 'PROPAGATE', 'NO-REL-ON-FAIL', 'EMIT-BALANCE', 'FINALLY-NO-JUMP']
FLOORS = {'AUTOCOMMIT-OFF': 3, 'COMMIT-ONLY-VIA-REF': 3, 'TUPLE-LAYOUT': 4, 'OFFSET-ALGEBRA': 5, 'SEED-FROM-COMMITTED': 2,
          'READ-RANGE': 5, 'STOP-CHECK': 1, 'PROPAGATE': 1, 'FINALLY-NO-JUMP': 1}

META = {
    'level': "Static analysis of FromKafkaBatched and get_message_batch, which have zero executed coverage in the suite: auto-commit "
             "forced off and written nowhere else (AUTOCOMMIT-OFF); consumer.commit reachable only through the RefCounter callback "
             "that travels as metadata of the same batch's emission (COMMIT-ONLY-VIA-REF); writer/reader agreement of the batch tuple "
             "with get_message_batch's parameters and commit's unpack (TUPLE-LAYOUT); linear normal forms of the offset arithmetic - "
             "first = max(cursor, low), high only watermark or clamp, strict guard, last = high-1, cursor <- high, commit = last+1 "
             "(OFFSET-ALGEBRA: contiguous, non-overlapping, bounded ranges); positions seeded from committed() on every path into "
             "the poll loop (SEED-FROM-COMMITTED); the reader keeps offset <= high and stops at high (READ-RANGE); one poll loop "
             "(SINGLE-FLIGHT, STOP-CHECK); no finally block of the sources returns / breaks (FINALLY-NO-JUMP: a failed read must not look like a completed batch). Crash/restart re-delivery needs C04 downstream plus broker semantics and is not decided.",
    'note': "Trusted: confluent-kafka call names as used by the code itself; committed offsets are 'next to read'. An unrecognised "
            "spelling of the offset algebra is reported against the normal form, never guessed.",
    'technique': "static analysis: table agreement (writer/reader tuple layout), linear normal forms, who-may-call (commit), "
                 "must-pass-through (seeding) (AUTOCOMMIT-OFF, COMMIT-ONLY-VIA-REF, TUPLE-LAYOUT, OFFSET-ALGEBRA, SEED-FROM-COMMITTED)",
}


def run(ctx, R):
    R.explanation = 'Wiring of the batched Kafka source: who may commit, tuple layout agreement, offset normal forms, seeding.'
    R.not_decided = ['crash/restart re-delivery (needs broker semantics)', "get_message_batch's read loop on sparse offsets / timeouts"]
    declare(R, {**kafka.RULES, **lifecycle.RULES, **flow.RULES, **holds.RULES, **failure.RULES}, RULES, FLOORS)
    M = ctx.model
    R.run(kafka.check_autocommit, ctx, R)
    R.run(kafka.check_commit_via_ref, ctx, R)
    R.run(kafka.check_tuple_layout, ctx, R)
    R.run(kafka.check_offset_algebra, ctx, R)
    R.run(kafka.check_seed, ctx, R)
    R.run(kafka.check_read_range, ctx, R)
    R.run(failure.check_finally_no_jump, ctx, R, ('streamz.sources',))
    # the commit fires when the batch's counter reaches zero: that is only 'after processing' if _emit never releases on a
    # failure edge and retains all its holds before the first delivery
    R.run(holds.check_emit, ctx, R)
    for k in [k for k in R.obs if k[0] == 'EMIT-REL-TIMING']:
        del R.obs[k]
    cls = M.cls('streamz.sources', 'FromKafkaBatched')
    R.run(lifecycle.check_stop_check, ctx, R, [(cls, f) for f in cls.methods.values()])
    R.run(lifecycle.check_single_flight, ctx, R, [cls])
    R.run(flow.check_propagate, ctx, R, modules=('streamz.sources',), note_modules=())
    for k in [k for k in R.obs if k[0] == 'PROPAGATE' and 'FromKafkaBatched' not in k[1]]:
        del R.obs[k]
META['level'] += ' SEED-FROM-COMMITTED cursor-moved-only-by-planning: once polling has begun only the planning loop stores into self.positions[...].'
