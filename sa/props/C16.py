"""C16 failures reach the emitter, keep node state intact, are never checkpointed (structural clauses)"""
from ..rules import failure, holds, flow, folds
from .common import declare

RULES = ['HOLD-BEFORE-FALLIBLE', 'PROPAGATE', 'EMIT-AFTER-REL', 'NO-SWALLOWING-GATHER', 'ACC-CONTRACT', 'RERAISE', 'STATE-AFTER-CALL', 'STATE-FROM-RESULT', 'NO-REL-ON-FAIL', 'SYNC-TRANSPORT', 'EMIT-CONVERT', 'FINALLY-NO-JUMP', 'AWAITABLE-RESULT', 'WINDOW-FIFO']
FLOORS = {'RERAISE': 2, 'STATE-AFTER-CALL': 5, 'STATE-FROM-RESULT': 1, 'NO-REL-ON-FAIL': 1, 'SYNC-TRANSPORT': 3, 'EMIT-CONVERT': 3, 'FINALLY-NO-JUMP': 2, 'AWAITABLE-RESULT': 1, 'WINDOW-FIFO': 6}     # (HOLD-BEFORE-FALLIBLE: no floor - the hazard need not exist: a user callable reached only through a module-level helper is not seen as one; its positive example is the seeded mutant c16-partition-retain-after-key, run by the thorough tier)

META = {
    'level': "Static analysis of the synchronous delivery chain (_emit, emit, every plain update of core/sinks): no handler path "
             "swallows an exception raised by a user callable, an emission or a downstream update (RERAISE, on exceptional edges of "
             "every enumerated path), no write to node state precedes a user-callable invocation (STATE-AFTER-CALL) and "
             "accumulate.state is assigned only from the function's result (STATE-FROM-RESULT), _emit releases nothing on a failure "
             "edge (NO-REL-ON-FAIL), sync() transports the exception to the calling thread (SYNC-TRANSPORT) and emit() has no except "
             "clause (EMIT-CONVERT); no finally block on the chain returns / breaks, which would discard the exception in flight (FINALLY-NO-JUMP). Necessary conditions of C16 for directly connected pipelines; buffered/asynchronous nodes are "
             "outside the property's premise.",
    'note': "Trusted: exceptional edges = every call-out inside a try body; logging calls do not raise.",
    'technique': "static analysis: exceptional-edge path enumeration + effect ordering + symbolic normal forms (RERAISE, STATE-AFTER-CALL, "
                 "STATE-FROM-RESULT, NO-REL-ON-FAIL, SYNC-TRANSPORT, FINALLY-NO-JUMP, AWAITABLE-RESULT, WINDOW-FIFO)",
}


def run(ctx, R):
    R.explanation = 'Exceptional edges of every function on the synchronous delivery chain.'
    declare(R, {**failure.RULES, **holds.RULES, **flow.RULES, 'WINDOW-FIFO': folds.RULES['WINDOW-FIFO'] + ' (a step that edits the stored history in place leaves a failed batch in the window: the node does not keep its previous state)', 'ACC-CONTRACT': folds.RULES['ACC-CONTRACT'] + ' (the state is committed before delivery, so a failure downstream does not roll the node back)'}, RULES, FLOORS)
    R.run(failure.check_reraise, ctx, R)
    R.run(failure.check_state_after_call, ctx, R)
    R.run(failure.check_no_swallowing_gather, ctx, R)
    R.run(folds.check_acc_contract, ctx, R)
    R.run(holds.check_emit, ctx, R)
    # "the failed element's completion callback is never triggered": nothing is released before it is emitted
    from .common import hold_classes
    for c in hold_classes(ctx):
        R.run(holds.check_class, ctx, R, c, rules={'EMIT-AFTER-REL'})
    for k in [k for k in R.obs if k[0] not in RULES]:
        del R.obs[k]
    R.run(flow.check_sync_transport, ctx, R)
    # "carried by the awaitable of an asynchronous emit": a node that drops what _emit returned also drops the failure of an
    # asynchronous consumer behind it
    R.run(flow.check_propagate, ctx, R, modules=('streamz.core', 'streamz.sinks'), note_modules=())
    R.run(flow.check_emit_convert, ctx, R)
    R.run(failure.check_finally_no_jump, ctx, R, ('streamz.core', 'streamz.sinks', 'streamz.sources', 'streamz.dask'))
    # 'carried by the awaitable of an asynchronous emit': a sink must hand back whatever awaitable its function returned
    R.run(flow.check_awaitable_result, ctx, R, [c for c in ctx.model.nodes if c.module.name in ('streamz.core', 'streamz.sinks')])
    # 'the failed element's completion callback is never triggered', coroutine nodes: a failed future looks like a normal return
    R.run(failure.check_hold_before_fallible, ctx, R, [c for c in ctx.model.nodes if c.module.name == 'streamz.core'])
    # 'the node keeps its previous state': the window history stored in accumulate.state is copied, never edited in place
    R.run(folds.check_window_fifo, ctx, R)


META['level'] += ' No gather(..., return_exceptions=True) on the delivery chain (NO-SWALLOWING-GATHER); accumulate commits its state before delivering (ACC-CONTRACT).'
META['level'] += ' Also: a handler for a general exception type may not swallow a container operation on an element-derived value (key comparison is user code); a sink hands back whatever awaitable its function returned (AWAITABLE-RESULT); the window history kept in accumulate.state is copied, never edited in place (WINDOW-FIFO).'
META['level'] += ' HOLD-BEFORE-FALLIBLE: a coroutine update() that keeps elements takes its hold before it invokes a user callable (a failed future looks like a normal return to the emitter, which then releases).'
