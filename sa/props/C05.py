"""C05 checkpoint balance (structural clauses)"""
from ..rules import holds, delivery, topology
from .common import hold_classes, declare

RULES = ['EMIT-AFTER-REL', 'SCRATCH-SLOT', 'LINEAR-HOLD', 'NO-DOUBLE-REL', 'RETAIN-ONCE', 'EMIT-BALANCE', 'REMOVE-RELEASES', 'REL-SHAPE',
         'EMITTED-STILL-HELD', 'SWAP-ATOMIC', 'HOLD-BEFORE-ESCAPE', 'HOOKS-ONLY', 'REL-WHILE-BUFFERED']
FLOORS = {'LINEAR-HOLD': 13, 'RETAIN-ONCE': 13, 'REMOVE-RELEASES': 18, 'REL-SHAPE': 50, 'EMIT-BALANCE': 1,
          'NO-DOUBLE-REL': 15, 'EMITTED-STILL-HELD': 1, 'HOLD-BEFORE-ESCAPE': 8, 'HOOKS-ONLY': 5}

META = {'level': "Static ownership accounting on every enumerated path of every node method: each retain is stored/released/handed on (LINEAR-HOLD), every removal from a taint-discovered metadata container releases what it removed (REMOVE-RELEASES), no double release, _emit's retain/release balance, flat-list shape of everything handed to _emit/_retain_refs/_release_refs; an element a node keeps across a suspension is retained before the suspension, not after it (HOLD-BEFORE-ESCAPE: otherwise its count touches zero while it waits and the callback fires a second time later). Necessary conditions of balance; the run-time equality 'count == live holders' is not decided.", 'note': 'Trusted: CPython ast, evaluation order as encoded, shape lattice transfer functions, exception tables (combining nodes, zip_latest scratch slot) printed in the evidence. One genuine defect is a known finding (latest keeps its hold after emitting; pinned by test_latest_ref_counts).', 'technique': 'static analysis: bounded path enumeration + linear-ownership rules and a shape lattice (LINEAR-HOLD, REMOVE-RELEASES, NO-DOUBLE-REL, EMIT-BALANCE, REL-SHAPE, EMITTED-STILL-HELD)'}


def run(ctx, R):
    R.explanation = (
        'Ownership accounting on every path of every node method: each retain is stored, released or handed on; every '
        'removal from a metadata container (discovered by taint from the metadata parameter) releases what it removed; '
        'no double release; _emit retains len(downstreams) and releases once per downstream; metadata handed to '
        '_emit/_retain_refs/_release_refs is a flat list (shape lattice). Necessary conditions of C05; the run-time '
        'equality count == live holders is not decided.')
    R.not_decided = ['the numeric equality "count = number of live holders" at run time']
    declare(R, {**holds.RULES, **delivery.RULES, **topology.RULES}, RULES, FLOORS)
    for c in hold_classes(ctx):
        R.run(holds.check_class, ctx, R, c, rules=set(RULES))
        R.run(holds.check_in_flight, ctx, R, c)
    R.run(holds.check_emit, ctx, R)
    R.run(delivery.check_swap_atomic, ctx, R, [c for c in hold_classes(ctx) if c.module.name == 'streamz.core'])
    # the releases that disconnect()/destroy() owe are made by the hook overrides: the edits must reach them
    R.run(topology.check_hooks_only, ctx, R)
    for k in [k for k in R.obs if k[0] not in RULES]:
        del R.obs[k]
