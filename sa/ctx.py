"""shared analysis context: model + cached path enumerations"""
from .model import Model, AnalysisError
from .paths import enumerate_paths, compute_field_elem

SKIP_METHODS = {'__str__', '__repr__', '_ipython_display_', '_repr_html_', 'visualize', '__del__'}


class Ctx:
    def __init__(self, model=None, K=2, depth=3, tier='quick'):
        self.model = model or Model()
        self.K = K
        self.depth = depth
        self.tier = tier
        self._fe = {}
        self._paths = {}
        self.sliced = set()

    def field_elem(self, cls):
        if cls is None:
            return {}
        if cls.fq not in self._fe:
            self._fe[cls.fq] = compute_field_elem(self.model, cls)
        return self._fe[cls.fq]

    def paths(self, fn, cls=None, **kw):
        cls = cls if cls is not None else fn.cls
        key = (fn.fq, cls.fq if cls else None, tuple(sorted(kw.items())))
        if key not in self._paths:
            kw.setdefault('K', self.K)
            kw.setdefault('depth', self.depth)
            try:
                self._paths[key] = enumerate_paths(self.model, fn, cls=cls, field_elem=self.field_elem(cls), **kw)
            except AnalysisError as e:
                if 'path explosion' not in str(e):
                    raise
                # rule-relevant slicing: conditions that govern no event are walked once, loops unrolled once
                kw2 = dict(kw, relevant_only=True, K=1)
                self.sliced.add(fn.fq)
                self._paths[key] = enumerate_paths(self.model, fn, cls=cls, field_elem=self.field_elem(cls), **kw2)
        return self._paths[key]

    def where(self, fn, line):
        return '%s:%d' % (fn.file, line)

    def construct(self, fn, cls=None):
        return fn.module.name + '.' + fn.qual

    def node_methods(self, include_init=False):
        """(cls, fn) for every method defined in a node class (owner context)"""
        out = []
        for c in self.model.nodes:
            for name, fn in c.methods.items():
                if name in SKIP_METHODS:
                    continue
                if name == '__init__' and not include_init:
                    continue
                out.append((c, fn))
        return out

    def nested_funcs_of(self, fn):
        return [f for f in fn.module.all_funcs if f.parent is fn]
