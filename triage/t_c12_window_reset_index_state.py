"""C12 witness: Window.reset_index() rebuilt the window without with_state/start, so an aggregation asked
to expose its state stopped doing so (and a resumed one silently restarted from scratch)."""
import warnings
warnings.filterwarnings('ignore')
import pandas as pd
from streamz import Stream
from streamz.dataframe import DataFrame

df = pd.DataFrame({'x': [1., 2., 3., 4.]})
src = Stream()
sdf = DataFrame(src, example=df.iloc[:0])
w = sdf.window(n=2, with_state=True).reset_index()
print('with_state after reset_index():', w.with_state)
out = w.x.sum().stream.sink_to_list()
src.emit(df.iloc[:2])
print('emitted', type(out[0]))
assert w.with_state is True
assert isinstance(out[0], tuple), 'state not exposed although with_state=True was requested'
state = out[0][0]
src2 = Stream()
sdf2 = DataFrame(src2, example=df.iloc[:0])
out2 = sdf2.window(n=2, with_state=True, start=state).reset_index().x.sum().stream.sink_to_list()
src2.emit(df.iloc[2:3])
print('resumed result', out2[0][1], 'uninterrupted would give', df.iloc[1:3].x.sum())
assert out2[0][1] == df.iloc[1:3].x.sum()
print('OK')
