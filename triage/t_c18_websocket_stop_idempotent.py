"""C18 witness: from_websocket.stop() on a source that is not running (never started, or already
stopped) dereferenced `self.server` (None) and raised; it also never marked the source stopped, so the
connection handlers' `while not self.stopped` loops ran on and a later start() was a no-op."""
from streamz import Stream

s = Stream.from_websocket('localhost', 8765)
s.stop()            # AttributeError before the fix
s.stop()
assert s.stopped
print('OK')
