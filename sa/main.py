"""launcher: python3 -m sa.main Cxx [--tier quick|thorough] [--replay file]"""
import importlib
import json
import os
import sys
import traceback

from .model import AnalysisError, Model
from .ctx import Ctx
from .report import Report


def run_check(prop, tier='quick', overrides=None, quiet=False, replay=None, write=True):
    """run one property check; returns (exit code, Report)"""
    R = Report(prop, tier, quiet=quiet)
    R.write = write
    try:
        try:
            mod = importlib.import_module('sa.props.' + prop)
        except ModuleNotFoundError:
            print('ANALYSIS-ERROR property=%s no check registered for this property' % prop)
            return 2, R
        if replay:
            with open(replay) as f:
                o = json.load(f)['obligation']
            R.only = (o['rule'], o['construct'], str(o['token']))
            print('replaying obligation rule=%s construct=%s token=%s' % R.only)
        ctx = Ctx(Model(overrides=overrides), K=2 if tier == 'quick' else 3, depth=3 if tier == 'quick' else 4, tier=tier)
        R.count('modules', ctx.model.stats['modules'])
        R.count('classes', ctx.model.stats['classes'])
        R.count('functions_in_package', ctx.model.stats['functions'])
        mod.run(ctx, R)
        if ctx.sliced:
            R.note('rule-relevant slicing used for: ' + ', '.join(sorted(ctx.sliced)))
        if ctx.unspliced:
            R.note('helper splicing switched off (path explosion) for: ' + ', '.join(sorted(ctx.unspliced)))
        if tier == 'thorough' and overrides is None and not replay:
            thorough_extras(prop, mod, R)
    except AnalysisError as e:
        R.error(str(e))
    except Exception as e:      # a traceback must never look like a verdict
        tb = traceback.format_exc().strip().splitlines()
        R.error('internal error: %s: %s | %s' % (type(e).__name__, e, ' / '.join(tb[-6:])))
    return R.finish(), R


def thorough_extras(prop, mod, R):
    """(a) the quick configuration (K=2, depth 3) must give the same verdicts as the deeper one just run;
    (b) checker self-test: every seeded change naming this property must be caught, every benign variant must stay silent"""
    from .report import Report as _R
    q = _R(prop, 'quick', quiet=True)
    q.write = False
    qctx = Ctx(Model(), K=2, depth=3, tier='quick')
    mod.run(qctx, q)
    deep = {k for k, o in R.obs.items() if not o.ok}
    shallow = {k for k, o in q.obs.items() if not o.ok}
    if deep != shallow:
        R.error('quick (K=2, depth 3) and thorough (K=3, depth 4) disagree on: %s' % sorted(deep ^ shallow)[:5])
    R.count('thorough_obligations_recheck', len(q.obs))
    try:
        from selftest.run import one
        from selftest.mutants import MUTANTS, BENIGN
    except Exception as e:       # pragma: no cover
        R.error('self-test corpus cannot be loaded: %s' % e)
        return
    from concurrent.futures import ProcessPoolExecutor
    work = [(m, prop, False) for m in MUTANTS if prop in m['props']]
    work += [(m, prop, True) for m in BENIGN if m['props'] == 'ALL' or prop in m['props']]
    with ProcessPoolExecutor(max_workers=int(os.environ.get('VERIF_JOBS', '16'))) as ex:
        results = list(ex.map(one, work))
    bad = [r for r in results if r[2] not in ('ok', 'skipped')]
    skipped = [r for r in results if r[2] == 'skipped']
    for mid, p_, status, detail in results:
        R.canary(mid, status in ('ok', 'skipped'), '%s %s' % (status, detail[:120]))
    R.count('selftest_variants', len(results))
    R.count('selftest_skipped', len(skipped))
    R.note('self-test: %d seeded changes / benign variants for %s, %d as expected, %d skipped (anchor vanished), %d wrong'
           % (len(results), prop, len(results) - len(bad) - len(skipped), len(skipped), len(bad)))


def main(argv):
    if not argv:
        print('usage: check <Cxx> [--tier quick|thorough] [--replay file]')
        return 2
    prop = argv[0]
    tier = os.environ.get('VERIF_TIER') or 'quick'
    replay = None
    i = 1
    while i < len(argv):
        if argv[i] == '--tier':
            tier = argv[i + 1]
            i += 2
        elif argv[i] == '--replay':
            replay = argv[i + 1]
            i += 2
        else:
            print('unknown argument', argv[i])
            return 2
    if tier not in ('quick', 'thorough'):
        tier = 'quick'
    code, _ = run_check(prop, tier, replay=replay)
    return code


if __name__ == '__main__':
    sys.exit(main(sys.argv[1:]))
