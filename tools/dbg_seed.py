"""debug helper: run checks on one seeded/ (or any directory with patch.diff) change in memory
usage: python3 tools/dbg_seed.py <seed-id | dir> <prop>[,<prop>...]"""
import os, sys
sys.path.insert(0, os.path.dirname(os.path.dirname(os.path.abspath(__file__))))
from selftest.patchapply import apply_patch
from sa.main import run_check
from sa.model import REPO
d = sys.argv[1]
if not os.path.isdir(d):
    d = os.path.join(os.path.dirname(os.path.dirname(os.path.abspath(__file__))), 'seeded', d)
ov = apply_patch(open(os.path.join(d, 'patch.diff')).read(), lambda rel: open(os.path.join(REPO, rel)).read())
ov = {k: v for k, v in ov.items() if k.endswith('.py')}
for p in sys.argv[2].split(','):
    old = sys.stdout
    sys.stdout = open(os.devnull, 'w')
    try:
        code, R = run_check(p, 'quick', overrides=ov, quiet=True, write=False)
    finally:
        sys.stdout = old
    print(p, 'exit', code)
    for o in R.violations:
        print('   VIOL', o.rule, o.construct, o.token, '|', o.detail[:300])
    for e in R.errors:
        print('   ERR', e[:300])
