"""C15 witness: when a slice reaches its end it removed itself from its upstream's downstreams but kept
the upstream in its own `upstreams`: the two ends of the edge disagree, and a later destroy() of the
finished slice raises KeyError."""
from streamz import Stream

src = Stream()
sl = src.slice(0, 2)
L = sl.sink_to_list()
for i in range(4):
    src.emit(i)
print('delivered', L, '| upstream lists slice:', sl in src.downstreams, '| slice lists upstream:', src in sl.upstreams)
assert L == [0, 1]
assert (sl in src.downstreams) == (src in sl.upstreams), 'links are not mutually consistent'
sl.destroy()        # KeyError before the fix
print('OK')
