import asyncio, threading
from streamz import Stream
from streamz.core import RefCounter
from tornado.ioloop import IOLoop

# C19: source declared asynchronous=True
async def main():
    s = Stream.from_iterable([1,2,3], asynchronous=True)
    print("from_iterable asynchronous:", s.asynchronous, "loop is current:", s.loop is IOLoop.current(), "threads:", [t.name for t in threading.enumerate()])
    s2 = Stream(asynchronous=True)
    b = s2.buffer(3)
    print("buffer asynchronous:", b.asynchronous, b.loop is IOLoop.current())
    s3 = Stream()
    b3 = s3.buffer(3, asynchronous=True)
    print("buffer(asynchronous=True) on fresh stream:", b3.asynchronous, b3.loop is IOLoop.current(), s3.asynchronous)
asyncio.run(main())
