"""Sensitivity / specificity self-test of the checkers on in-memory variants of /repo's source.

python3 -m selftest.run [--props C03,C04] [--ids id1,id2] [--jobs 16] [--benign]

Each mutant is a source-to-source edit of one file of /repo (applied in memory, never written to disk),
which must still compile, and names the properties whose check must report a VIOLATION (exit 1) and,
optionally, the rule that must fire.  Benign variants must keep every named check at exit 0.
A mutant whose anchor text no longer exists in /repo is skipped and counted.
"""
import ast
import os
import sys
import time
from concurrent.futures import ProcessPoolExecutor

HERE = os.path.dirname(os.path.dirname(os.path.abspath(__file__)))
sys.path.insert(0, HERE)

from sa.main import run_check          # noqa: E402
from sa.model import REPO              # noqa: E402


def apply(m):
    path = os.path.join(REPO, m['file'])
    text = open(path, encoding='utf-8').read()
    edits = m.get('edits') or [(m['old'], m['new'])]
    for old, new in edits:
        if text.count(old) != m.get('count', 1):
            return None
        text = text.replace(old, new)
    try:
        ast.parse(text)
    except SyntaxError as e:
        return 'SYNTAX: %s' % e
    return text


def one(args):
    m, prop, benign = args
    text = apply(m)
    if text is None:
        return (m['id'], prop, 'skipped', 'anchor text not found in %s' % m['file'])
    if isinstance(text, str) and text.startswith('SYNTAX:'):
        return (m['id'], prop, 'broken', text)
    devnull = open(os.devnull, 'w')
    old = sys.stdout
    sys.stdout = devnull
    try:
        code, R = run_check(prop, 'quick', overrides={m['file']: text}, quiet=True, write=False)
    finally:
        sys.stdout = old
    rules = sorted({o.rule for o in R.violations})
    if benign:
        if code == 0:
            return (m['id'], prop, 'ok', 'silent')
        return (m['id'], prop, 'FALSE-ALARM' if code == 1 else 'ANALYSIS-ERROR',
                '; '.join('%s %s %s' % (o.rule, o.construct, o.token) for o in R.violations) + ' | ' + ' | '.join(R.errors))
    if code == 1:
        want = m.get('rule') if prop == m['props'][0] else None
        if want and want not in rules:
            return (m['id'], prop, 'wrong-rule', 'fired %s, expected %s' % (rules, want))
        return (m['id'], prop, 'ok', ','.join(rules))
    if code == 2:
        return (m['id'], prop, 'ANALYSIS-ERROR', ' | '.join(R.errors))
    return (m['id'], prop, 'MISSED', '')


def main(argv):
    from selftest.mutants import MUTANTS, BENIGN
    props = ids = None
    jobs = 16
    benign = False
    i = 0
    while i < len(argv):
        if argv[i] == '--props':
            props = set(argv[i + 1].split(','))
            i += 2
        elif argv[i] == '--ids':
            ids = set(argv[i + 1].split(','))
            i += 2
        elif argv[i] == '--jobs':
            jobs = int(argv[i + 1])
            i += 2
        elif argv[i] == '--benign':
            benign = True
            i += 1
        else:
            i += 1
    corpus = BENIGN if benign else MUTANTS
    work = []
    for m in corpus:
        if ids and m['id'] not in ids:
            continue
        plist = m['props']
        if plist == 'ALL' or plist == ['ALL']:
            plist = sorted(f[:-3] for f in os.listdir(os.path.join(HERE, 'sa', 'props')) if f.startswith('C') and f.endswith('.py'))
        for p in plist:
            if props and p not in props:
                continue
            if not os.path.exists(os.path.join(HERE, 'sa', 'props', p + '.py')):
                continue
            work.append((m, p, benign))
    t0 = time.time()
    with ProcessPoolExecutor(max_workers=jobs) as ex:
        results = list(ex.map(one, work))
    bad = 0
    counts = {}
    for mid, prop, status, detail in results:
        counts[status] = counts.get(status, 0) + 1
        if status != 'ok':
            bad += status not in ('skipped',)
            print('%-14s %-4s %-44s %s' % (status, prop, mid, detail[:200]))
    print('selftest (%s): %d variant checks in %.1fs: %s' % ('benign' if benign else 'mutants', len(results),
                                                             time.time() - t0, counts))
    return 1 if bad else 0


if __name__ == '__main__':
    sys.exit(main(sys.argv[1:]))
