#!/usr/bin/env python3
"""regenerate /verif/MANIFEST.json from the META dict of every sa/props/Cxx.py (run from /verif)"""
import importlib
import json
import os
import sys

HERE = os.path.dirname(os.path.dirname(os.path.abspath(__file__)))
sys.path.insert(0, HERE)

NOT_APPLICABLE = {}
PENDING = 'check under construction in this session (see DESIGN.md); not claimed yet'


def main():
    props = [json.loads(l)['id'] for l in open(os.path.join(HERE, 'properties.jsonl'))]
    checks, na, served = [], [], []
    for p in props:
        path = os.path.join(HERE, 'sa', 'props', p + '.py')
        meta = None
        if os.path.exists(path):
            mod = importlib.import_module('sa.props.' + p)
            meta = getattr(mod, 'META', None)
        if meta is None:
            na.append({'property_id': p, 'reason': NOT_APPLICABLE.get(p, PENDING)})
            continue
        served.append(p)
        checks.append({
            'property_id': p,
            'quick_cmd': './check %s --tier quick' % p,
            'thorough_cmd': './check %s --tier thorough' % p,
            'evidence_file': 'evidence/%s.json' % p,
            'replay_cmd_template': './check %s --replay {path}' % p,
            'engine': 'sa',
            'level_claimed': {'category': 'other', 'text': meta['level'], 'design_ref': meta.get('design_ref', 'DESIGN.md section 5')},
            'level_note': meta['note'],
            'technique': meta['technique'],
        })
    m = {
        'version': 1,
        'setup_cmd': 'true',
        'hooks': {'guard': 'STREAMZ_VERIF',
                  'enable': 'none needed: the checks never execute streamz, they parse the working tree of /repo',
                  'baseline_off_cmd': 'cd /repo && /venv/bin/python -m pytest -ra -q -p no:cacheprovider --timeout=900 --continue-on-collection-errors',
                  'source_commits': [], 'add_only': True},
        'engines': [{'name': 'sa', 'path': 'sa/', 'serves_properties': served,
                     'kind_free_text': 'custom static analyser over /repo source: AST program model (imports, C3 MRO, API '
                                       'registry), bounded path enumeration with per-path abstract tags/shapes and exceptional '
                                       'edges, rule modules per mechanism; stdlib only, never imports streamz'}],
        'checks': checks,
        'not_applicable': na,
        'notes': 'Technique family: static analysis only. Every check decides structural necessary conditions of its property '
                 'and says in level_note what stays undecided. exit 2 + ANALYSIS-ERROR = the analysis cannot stand (never a verdict).',
    }
    with open(os.path.join(HERE, 'MANIFEST.json'), 'w') as f:
        json.dump(m, f, indent=1)
    print('MANIFEST.json: %d checks, %d not applicable/pending' % (len(checks), len(na)))


if __name__ == '__main__':
    main()
