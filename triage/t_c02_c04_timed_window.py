"""C02/C04 witness: timed_window / timed_window_unique.
Before the fix (a) the raw list returned by _emit is stored in `self.last`, yielded by the tick loop AND
returned to every producer: with a native-coroutine sink the same coroutine object is awaited twice
("cannot reuse already awaited coroutine"); (b) the window's metadata is released one line before the
emission is awaited, so the completion callback fires while the sink is still running."""
import asyncio, logging
logging.disable(logging.CRITICAL)
from streamz import Stream
from streamz.core import RefCounter
from tornado.ioloop import IOLoop


async def run(node):
    src = Stream(asynchronous=True)
    done, fired, errors = [], [], []

    async def slow(batch):
        if batch:
            await asyncio.sleep(0.05)
            done.append(batch)
    getattr(src, node)(0.02).sink(slow)
    r = RefCounter(cb=lambda: fired.append(list(done)), loop=IOLoop.current())
    await asyncio.sleep(0.005)
    try:
        await src.emit(1, metadata=[{'ref': r}])
        await asyncio.sleep(0.03)
        await src.emit(2)           # producer awaits `self.last` while the tick loop awaits it too
    except RuntimeError as e:
        errors.append(str(e))
    await asyncio.sleep(0.2)
    print(node, 'errors', errors, 'fired-with-done', fired, 'done', done)
    assert not errors, errors
    assert fired and all(f for f in fired), 'callback fired before the sink finished the batch'


async def main():
    await run('timed_window')
    await run('timed_window_unique')
    print('OK')

asyncio.run(main())
