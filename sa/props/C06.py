"""C06 streaming dataframe aggregations equal pandas on everything seen so far (only structural clauses)"""
from ..rules import folds
from .common import declare

RULES = ['BATCH-PURE', 'INITIAL-NEUTRAL', 'FOLD-DERIVE', 'AGG-TABLE', 'REDUCER-NAME', 'STATE-PLUMB', 'FOLD-PURE', 'OPERATOR-TABLE', 'MIRROR', 'ACC-CONTRACT']
FLOORS = {'FOLD-DERIVE': 14, 'AGG-TABLE': 19, 'REDUCER-NAME': 25, 'STATE-PLUMB': 10, 'FOLD-PURE': 50, 'OPERATOR-TABLE': 30, 'ACC-CONTRACT': 2}

META = {
    'level': "Static analysis of the fold structure only: every state component returned by Aggregation.on_new and by the "
             "accumulators derives from the incoming state on every path - never a constant injected by a guard (FOLD-DERIVE); every "
             "public aggregation method hands over the aggregation class its name promises and each class uses the pandas reducers its "
             "name promises (AGG-TABLE, REDUCER-NAME: e.g. a count that silently uses size differs only on NaN); start reaches the fold "
             "(STATE-PLUMB); fold steps are effect-free (FOLD-PURE). Numeric equality with pandas (dtype, NaN, empty-frame conventions) "
             "is value-level and NOT decided by this check.",
    'note': "Trusted: pandas reducers do what their names say; convention table AGG_TABLE/REDUCERS printed in the evidence.",
    'technique': "static analysis: dependence (taint) of returned state components on enumerated paths + API/aggregation/reducer "
                 "table agreement (FOLD-DERIVE, AGG-TABLE, REDUCER-NAME, STATE-PLUMB, FOLD-PURE)",
}


def run(ctx, R):
    R.explanation = 'Structure of the aggregation folds in streamz/dataframe: derivation of state, naming conventions, plumbing.'
    R.not_decided = ['numeric equality with pandas (dtype, NaN, empty-frame conventions)', 'what pandas computes for a given operator on a batch']
    declare(R, folds.RULES, RULES, FLOORS)
    R.run(folds.check_fold_derive, ctx, R, steps=('on_new',))
    R.run(folds.check_agg_table, ctx, R)
    R.run(folds.check_reducer_name, ctx, R)
    R.run(folds.check_state_plumb, ctx, R)
    R.run(folds.check_fold_pure, ctx, R)
    R.run(folds.check_batch_pure, ctx, R)
    R.run(folds.check_initial_neutral, ctx, R)
    R.run(folds.check_operator_table, ctx, R)
    # sibling cross-check: an accrual step that is not the inverse of its decay step contradicts it - one of them is wrong
    R.run(folds.check_mirror, ctx, R)
    # every aggregation is folded by core.accumulate: its state must be committed before the result is delivered (a consumer
    # that raises or re-enters the stream must not make the batch it was told about disappear from the running result)
    R.run(folds.check_acc_contract, ctx, R)


META['level'] += (" Elementwise expressions: each of the operator methods of OperatorMixin maps to the operator function and operand "
                  "order the Python data model prescribes, and map_partitions' partial_by_order re-inserts the non-stream arguments at "
                  "their recorded positions (OPERATOR-TABLE).")
META['technique'] += " + exhaustive table check of the operator methods against the Python data model (OPERATOR-TABLE)"
META['level'] += " Also: per-batch functions do not mutate the batch they are given (BATCH-PURE) and initial() performs no arithmetic on the first batch's values (INITIAL-NEUTRAL)."
META['level'] += ' ACC-CONTRACT: the accumulate node that folds every aggregation stores its new state before it delivers the result.'
