#!/usr/bin/env python3
"""re-evaluate every kept seeded change against the current checks, refresh caught_by in each meta.json and write
seeded/INDEX.md.  Detection is computed in memory (selftest/patchapply.py + run_check, 16 processes); with --demos the
demonstrations are re-run as well, in a scratch worktree of /repo's HEAD that is removed afterwards."""
import json
import os
import re
import subprocess
import sys
import tempfile

HERE = os.path.dirname(os.path.dirname(os.path.abspath(__file__)))
SEEDED = os.path.join(HERE, 'seeded')


sys.path.insert(0, HERE)


def _detect(args):
    d, patch = args
    from selftest.patchapply import apply_patch
    from sa.main import run_check
    from sa.model import REPO
    ov = apply_patch(open(patch).read(), lambda rel: open(os.path.join(REPO, rel)).read())
    if ov is None:
        return d, None
    caught = {}
    props = sorted(f[:-3] for f in os.listdir(os.path.join(HERE, 'sa', 'props')) if f.startswith('C') and f.endswith('.py'))
    devnull = open(os.devnull, 'w')
    for p in props:
        old = sys.stdout
        sys.stdout = devnull
        try:
            code, R = run_check(p, 'quick', overrides={k: v for k, v in ov.items() if k.endswith('.py')}, quiet=True, write=False)
        finally:
            sys.stdout = old
        if code != 0:
            caught[p] = {'exit': code, 'rules': sorted({'%s@%s' % (o.rule, o.construct) for o in R.violations}) or ['ANALYSIS-ERROR']}
    return d, caught


def main():
    from concurrent.futures import ProcessPoolExecutor
    dirs = [d for d in sorted(os.listdir(SEEDED)) if os.path.exists(os.path.join(SEEDED, d, 'meta.json'))]
    with ProcessPoolExecutor(max_workers=16) as ex:
        det = dict(ex.map(_detect, [(d, os.path.join(SEEDED, d, 'patch.diff')) for d in dirs]))
    demos = {}
    if '--demos' in sys.argv:
        wt = tempfile.mkdtemp(prefix='seedeval_')
        os.rmdir(wt)
        subprocess.run(['git', '-C', '/repo', 'worktree', 'add', '-q', '--detach', wt, 'HEAD'], check=True)
        try:
            for d in dirs:
                sd = os.path.join(SEEDED, d)
                env = dict(os.environ, PYTHONPATH=wt)
                subprocess.run(['git', '-C', wt, 'checkout', '-q', '--', '.'])
                c0 = subprocess.run(['/venv/bin/python', os.path.join(sd, 'demo.py')], cwd=wt, env=env, capture_output=True, timeout=240).returncode
                subprocess.run(['git', '-C', wt, 'apply', os.path.join(sd, 'patch.diff')])
                c1 = subprocess.run(['/venv/bin/python', os.path.join(sd, 'demo.py')], cwd=wt, env=env, capture_output=True, timeout=240).returncode
                demos[d] = (c0, c1)
                print(d, 'demo', c0, c1, flush=True)
        finally:
            subprocess.run(['git', '-C', '/repo', 'worktree', 'remove', '--force', wt])
    rows = []
    for d in dirs:
        sd = os.path.join(SEEDED, d)
        meta = json.load(open(os.path.join(sd, 'meta.json')))
        caught = det.get(d)
        if caught is None:
            meta['note'] = 'patch no longer applies to the current sources'
            caught = meta.get('caught_by') or {}
        meta['caught_by'] = caught
        meta['caught_by_claimed_property_check'] = caught.get(meta['breaks_property'], {}).get('exit') == 1
        if d in demos:
            meta['demo_exit_unchanged_tree'], meta['demo_exit_changed_tree'] = demos[d]
        json.dump(meta, open(os.path.join(sd, 'meta.json'), 'w'), indent=1)
        rows.append(meta)
        print(d, {k: v['rules'] for k, v in caught.items()} or 'NOT CAUGHT', flush=True)
    with open(os.path.join(SEEDED, 'INDEX.md'), 'w') as f:
        f.write('# Independently seeded changes\n\nEach directory holds `patch.diff` (apply with `git -C /repo apply`), `demo.py` '
                '(passes on the unchanged tree, fails with the change), `notes.md` (the author\'s description) and `meta.json`.\n'
                'Written by sub-agents that saw only the property text and a scratch worktree (ids -1..-3: round 1; -4..-6: round 2, told to avoid the kinds of change of round 1). Re-evaluated by `tools/seed_index.py [--demos]`.\n\n')
        f.write('| id | breaks | caught by own check | all checks that report it (rule@construct) | missed at first / strengthened |\n|---|---|---|---|---|\n')
        for m in rows:
            cb = '; '.join('%s: %s' % (k, ', '.join(sorted(set(v['rules'])))) for k, v in sorted(m['caught_by'].items())) or '**not caught**'
            f.write('| %s | %s | %s | %s | %s |\n' % (m['id'], m['breaks_property'], 'yes' if m['caught_by_claimed_property_check'] else 'no',
                                                 cb, (m.get('strengthened') or '').replace('|', '/')))
        n = len(rows)
        own = sum(1 for m in rows if m['caught_by_claimed_property_check'])
        anyc = sum(1 for m in rows if any(v.get('exit') == 1 for v in m['caught_by'].values()))
        first = sum(1 for m in rows if not m.get('missed_at_first') and any(v.get('exit') == 1 for v in m['caught_by'].values()))
        f.write('\n%d changes; %d reported by at least one check, %d by the check of the property they were written against; '
                '%d were reported before any strengthening.\n' % (n, anyc, own, first))
    print('index written:', n, 'changes,', anyc, 'caught,', own, 'by own check')


if __name__ == '__main__':
    main()
