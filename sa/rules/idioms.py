"""Small named mechanisms decided as "idiom + one library lemma" (DESIGN 4.13).

Each rule lists structural facts that, together with the stated lemma, imply the clause.  Facts are checked on
value-flow normal forms: single-definition locals are substituted, `a += b` == `a = a + b`, `+`/max are
commutative where the lemma allows.  An unrecognised spelling is an AnalysisError (exit 2), never a violation.
"""
import ast

from ..model import AnalysisError, own_nodes, src, self_field
from ..paths import fmt_path
from .holds import is_failure

RULES = {
    'RESERVE-ALGEBRA': 'rate_limit: the new reservation, stored before the first suspension, is max(now, previous) + interval; '
                       'the node sleeps iff now < previous, for previous - now, then emits once',
    'SPLIT-CARRY': 'from_textfile: split(carry ++ new data); the carry becomes the LAST piece, every other piece is emitted once, '
                   'in order, with the delimiter re-appended; no other write to the carry (lemma: d.join(s.split(d)) == s)',
    'SEEN-SET': 'filenames: candidates = glob - seen, iterated in sorted order, each added to seen before its emission is awaited; '
                'nothing removes from seen',
}


def local_defs(fn_node):
    """name -> list of value nodes assigned to that local anywhere in the function (own statements only)"""
    d = {}
    for n in own_nodes(fn_node):
        if isinstance(n, ast.Assign):
            for t in n.targets:
                if isinstance(t, ast.Name):
                    d.setdefault(t.id, []).append(n.value)
                elif isinstance(t, (ast.Tuple, ast.List)):
                    for e in ast.walk(t):
                        if isinstance(e, ast.Name):
                            d.setdefault(e.id, []).append(None)
        elif isinstance(n, ast.AugAssign) and isinstance(n.target, ast.Name):
            d.setdefault(n.target.id, []).append(None)
        elif isinstance(n, (ast.For, ast.AsyncFor)):
            for e in ast.walk(n.target):
                if isinstance(e, ast.Name):
                    d.setdefault(e.id, []).append(None)
        elif isinstance(n, ast.NamedExpr) and isinstance(n.target, ast.Name):
            d.setdefault(n.target.id, []).append(n.value)
    return d


def norm(node, defs, depth=0):
    """canonical text of an expression with single-definition locals substituted and +/max arguments sorted"""
    if node is None:
        return 'None'
    if isinstance(node, ast.Name):
        vals = defs.get(node.id)
        if vals and len(vals) == 1 and vals[0] is not None and depth < 6:
            return norm(vals[0], defs, depth + 1)
        return node.id
    if isinstance(node, ast.BinOp) and isinstance(node.op, ast.Add):
        return '(' + ' + '.join(sorted([norm(node.left, defs, depth), norm(node.right, defs, depth)])) + ')'
    if isinstance(node, ast.BinOp) and isinstance(node.op, ast.Sub):
        return '(' + norm(node.left, defs, depth) + ' - ' + norm(node.right, defs, depth) + ')'
    if isinstance(node, ast.Call) and isinstance(node.func, ast.Name) and node.func.id in ('max', 'min') and not node.keywords:
        return node.func.id + '(' + ', '.join(sorted(norm(a, defs, depth) for a in node.args)) + ')'
    if isinstance(node, ast.Call):
        f = src(node.func)
        if f in ('time', 'time.time'):
            return 'NOW'
        return f + '(' + ', '.join([norm(a, defs, depth) for a in node.args] +
                                   ['%s=%s' % (k.arg, norm(k.value, defs, depth)) for k in node.keywords]) + ')'
    if isinstance(node, ast.Compare) and len(node.ops) == 1:
        l, r = norm(node.left, defs, depth), norm(node.comparators[0], defs, depth)
        op = node.ops[0]
        if isinstance(op, ast.Gt):
            return '%s < %s' % (r, l)
        if isinstance(op, ast.GtE):
            return '%s <= %s' % (r, l)
        return '%s %s %s' % (l, {ast.Lt: '<', ast.LtE: '<=', ast.Eq: '==', ast.NotEq: '!=', ast.In: 'in', ast.NotIn: 'not in',
                                 ast.Is: 'is', ast.IsNot: 'is not'}.get(type(op), '?'), r)
    return src(node)


# ----------------------------------------------------------------------------- RESERVE-ALGEBRA (C13)
def check_reserve_algebra(ctx, R):
    M = ctx.model
    cls = M.cls('streamz.core', 'rate_limit')
    fn = cls.methods.get('update')
    if fn is None:
        raise AnalysisError('anchor vanished: rate_limit.update')
    con = ctx.construct(fn)
    defs = local_defs(fn.node)
    # the reservation field: the field written from a value depending on itself
    stores = [n for n in own_nodes(fn.node) if isinstance(n, (ast.Assign, ast.AugAssign)) and any(
        self_field(t) is not None and isinstance(t, ast.Attribute)
        for t in (n.targets if isinstance(n, ast.Assign) else [n.target]))]
    if len(stores) != 1:
        R.ob('RESERVE-ALGEBRA', con, 'single-store', False,
             'the reservation must be written exactly once per element (found %d field stores)' % len(stores),
             ctx.where(fn, fn.node.lineno))
        return
    st = stores[0]
    tgt = st.targets[0] if isinstance(st, ast.Assign) else st.target
    f = self_field(tgt)
    # locals that snapshot the field BEFORE the store are "previous"
    prev_names = {n for n, vals in defs.items() if len(vals) == 1 and vals[0] is not None and
                  isinstance(vals[0], ast.Attribute) and self_field(vals[0]) == f}
    d2 = {k: v for k, v in defs.items() if k not in prev_names}

    def nf(node):
        s = norm(node, d2)
        for p in prev_names:
            s = _replace_name(s, p, 'PREV')
        return s.replace('self.' + f, 'PREV').replace('self.interval', 'INTERVAL')

    val = st.value if isinstance(st, ast.Assign) else ast.BinOp(left=tgt, op=st.op, right=st.value)
    got = nf(val)
    R.ob('RESERVE-ALGEBRA', con, 'new-reservation', got in ('(INTERVAL + max(NOW, PREV))', '(max(NOW, PREV) + INTERVAL)'),
         'the stored reservation is %s, expected max(now, previous) + interval' % got, ctx.where(fn, st.lineno))
    # sleeps iff now < previous, for previous - now
    sleeps = [n for n in own_nodes(fn.node) if isinstance(n, (ast.Yield, ast.Await)) and isinstance(n.value, ast.Call)
              and src(n.value.func).split('.')[-1] == 'sleep']
    ok, detail = True, ''
    if len(sleeps) != 1:
        ok, detail = False, 'expected exactly one sleep, found %d' % len(sleeps)
    else:
        sl = sleeps[0]
        arg = nf(sl.value.args[0]) if sl.value.args else None
        if arg != '(PREV - NOW)':
            ok, detail = False, 'sleeps for %s, expected previous - now' % arg
        guard = None
        for n in own_nodes(fn.node):
            if isinstance(n, ast.If) and any(x is sl for s in n.body for x in ast.walk(s)):
                guard = n
        if guard is None:
            ok, detail = False, 'the sleep is unconditional: an element arriving on an idle line is delayed'
        else:
            g = nf(guard.test)
            if g not in ('NOW < PREV',):
                ok, detail = False, 'sleeps when %s, expected now < previous' % g
            if guard.orelse:
                ok, detail = False, 'unexpected else-branch on the sleep guard'
    R.ob('RESERVE-ALGEBRA', con, 'sleep', ok, detail, ctx.where(fn, sleeps[0].lineno if sleeps else fn.node.lineno))
    # order on every path: snapshot read, store, [sleep], emit; `now` is read once, before the store
    bad, n = None, 0
    detail = ''
    for pst, status in ctx.paths(fn, cls):
        evs = pst.events
        if is_failure(evs, status):
            continue
        n += 1
        i_st = next((i for i, e in enumerate(evs) if e.kind == 'ST' and e.a == f), None)
        i_sus = next((i for i, e in enumerate(evs) if e.kind == 'SUS'), None)
        ems = [i for i, e in enumerate(evs) if e.kind == 'EM']
        nows = [i for i, e in enumerate(evs) if e.kind == 'CALL' and e.a in ('time', 'time.time')]
        if i_st is None or (i_sus is not None and i_sus < i_st):
            bad, detail = evs, 'the reservation is not stored before the first suspension'
        elif len(ems) != 1 or ems[0] < i_st:
            bad, detail = evs, 'expected exactly one emission after the reservation'
        elif len(nows) != 1 or nows[0] > i_st:
            bad, detail = evs, 'the clock must be read exactly once, before the reservation is stored'
    R.ob('RESERVE-ALGEBRA', con, 'order', bad is None and n > 0, detail, ctx.where(fn, fn.node.lineno),
         fmt_path(bad) if bad else None, n)
    # initial reservation lies in the past (an idle line passes at once)
    init = cls.methods.get('__init__')
    iv = [n.value for n in own_nodes(init.node) if isinstance(n, ast.Assign) and self_field(n.targets[0]) == f] if init else []
    R.ob('RESERVE-ALGEBRA', con, 'initial', len(iv) == 1 and isinstance(iv[0], ast.Constant) and iv[0].value == 0,
         'the initial reservation is not 0 (the first element would be delayed or the slot is undefined)',
         ctx.where(init, init.node.lineno) if init else None)


def _replace_name(s, name, repl):
    import re
    return re.sub(r'(?<![\w.])' + re.escape(name) + r'(?![\w])', repl, s)


# ----------------------------------------------------------------------------- SPLIT-CARRY (C17)
def check_split_carry(ctx, R):
    M = ctx.model
    cls = M.cls('streamz.sources', 'from_textfile')
    fn = cls.methods.get('_run')
    if fn is None:
        raise AnalysisError('anchor vanished: from_textfile._run')
    con = ctx.construct(fn)
    defs = local_defs(fn.node)
    splits = [n for n in own_nodes(fn.node) if isinstance(n, ast.Call) and isinstance(n.func, ast.Attribute)
              and n.func.attr == 'split']
    if len(splits) != 1:
        raise AnalysisError('from_textfile._run: expected exactly one split(), found %d (unrecognised spelling)' % len(splits))
    sp = splits[0]
    # the carry field: the field that is assigned the tail
    carry = None
    stores = [n for n in own_nodes(fn.node) if isinstance(n, (ast.Assign, ast.AugAssign))]
    fstores = []
    for n in stores:
        for t in (n.targets if isinstance(n, ast.Assign) else [n.target]):
            for e in ([t] if not isinstance(t, (ast.Tuple, ast.List)) else t.elts):
                e2 = e.value if isinstance(e, ast.Starred) else e
                if self_field(e2) and isinstance(e2, ast.Attribute):
                    fstores.append((n, e2))
    fields = {self_field(t) for _, t in fstores}
    if len(fields) != 1:
        R.ob('SPLIT-CARRY', con, 'single-carry', False, 'expected exactly one carry field, found %s' % sorted(fields),
             ctx.where(fn, fn.node.lineno))
        return
    carry = fields.pop()
    # (1) receiver of split = carry ++ new data, in that order; delimiter argument = self.delimiter
    recv = sp.func.value
    concat_ok = False
    concat_store = None
    read_names = {k for k, v in defs.items() if len(v) == 1 and v[0] is not None and isinstance(v[0], ast.Call)
                  and isinstance(v[0].func, ast.Attribute) and v[0].func.attr in ('read', 'readline', 'readlines')}

    def is_concat(v):
        return isinstance(v, ast.BinOp) and isinstance(v.op, ast.Add) and self_field(v.left) == carry and \
            isinstance(v.left, ast.Attribute) and isinstance(v.right, ast.Name) and v.right.id in read_names

    if self_field(recv) == carry and isinstance(recv, ast.Attribute):
        for n, t in fstores:
            if isinstance(n, ast.Assign) and is_concat(n.value) and n.lineno < sp.lineno:
                concat_ok, concat_store = True, n
            if isinstance(n, ast.AugAssign) and isinstance(n.op, ast.Add) and isinstance(n.value, ast.Name) \
                    and n.value.id in read_names and n.lineno < sp.lineno:
                concat_ok, concat_store = True, n
    elif is_concat(recv):
        concat_ok = True
    elif isinstance(recv, ast.Name) and len(defs.get(recv.id, [])) == 1 and is_concat(defs[recv.id][0]):
        concat_ok = True
    delim_ok = len(sp.args) == 1 and self_field(sp.args[0]) == 'delimiter' and not sp.keywords
    R.ob('SPLIT-CARRY', con, 'split-receiver', concat_ok and delim_ok,
         'split() is not applied to <carried buffer> + <newly read data> (in that order) with self.delimiter: %s' % src(sp),
         ctx.where(fn, sp.lineno))
    # (2) new carry = last element of the split
    parts_name = None
    for k, v in defs.items():
        if len(v) == 1 and v[0] is sp:
            parts_name = k
    tail_ok, tail_detail = False, ''
    tail_store = None
    iter_expr_ok = None
    for n, t in fstores:
        if n is concat_store:
            continue
        v = n.value if isinstance(n, ast.Assign) else None
        tail_store = n
        if isinstance(v, ast.Call) and isinstance(v.func, ast.Attribute) and v.func.attr == 'pop' \
                and isinstance(v.func.value, ast.Name) and v.func.value.id == parts_name:
            a = [src(x) for x in v.args]
            tail_ok = a in ([], ['-1'])
            tail_detail = 'carry = %s' % src(v)
            iter_expr_ok = lambda it: isinstance(it, ast.Name) and it.id == parts_name    # noqa: E731
        elif isinstance(v, ast.Subscript) and isinstance(v.value, ast.Name) and v.value.id == parts_name \
                and src(v.slice) == '-1':
            tail_ok = True
            iter_expr_ok = lambda it: isinstance(it, ast.Subscript) and src(it) == '%s[:-1]' % parts_name    # noqa: E731
        elif isinstance(n, ast.Assign) and isinstance(n.targets[0], (ast.Tuple, ast.List)) and n.value is sp:
            elts = n.targets[0].elts
            tail_ok = len(elts) == 2 and isinstance(elts[0], ast.Starred) and elts[1] is t
            if tail_ok:
                parts_name = elts[0].value.id
                iter_expr_ok = lambda it: isinstance(it, ast.Name) and it.id == parts_name    # noqa: E731
        else:
            tail_detail = 'carry = %s' % (src(v) if v is not None else src(n))
    R.ob('SPLIT-CARRY', con, 'carry-is-last-piece', tail_ok,
         'the new carried buffer is not the last element of the split (%s)' % tail_detail,
         ctx.where(fn, tail_store.lineno if tail_store is not None else sp.lineno))
    # (3) every other element emitted once, in list order, delimiter re-appended
    loops = [l for l in own_nodes(fn.node) if isinstance(l, (ast.For, ast.AsyncFor))]
    emit_loop = [l for l in loops if any(isinstance(x, ast.Call) and isinstance(x.func, ast.Attribute)
                                         and x.func.attr in ('_emit', 'emit') for x in ast.walk(l))]
    ok3, d3 = True, ''
    if len(emit_loop) != 1:
        ok3, d3 = False, 'expected one loop emitting the pieces, found %d' % len(emit_loop)
    else:
        l = emit_loop[0]
        if iter_expr_ok is None or not iter_expr_ok(l.iter):
            ok3, d3 = False, 'the emitting loop iterates %s, not the remaining pieces in list order' % src(l.iter)
        ems = [x for x in ast.walk(l) if isinstance(x, ast.Call) and isinstance(x.func, ast.Attribute)
               and x.func.attr in ('_emit', 'emit')]
        if len(ems) != 1:
            ok3, d3 = False, 'a piece is emitted %d times' % len(ems)
        else:
            d = ems[0].args[0] if ems[0].args else None
            var = l.target.id if isinstance(l.target, ast.Name) else None
            if not (isinstance(d, ast.BinOp) and isinstance(d.op, ast.Add) and isinstance(d.left, ast.Name)
                    and d.left.id == var and self_field(d.right) == 'delimiter'):
                ok3, d3 = False, 'a piece is emitted as %s, not <piece> + self.delimiter' % src(d)
        for x in ast.walk(l):
            if isinstance(x, (ast.Break, ast.Continue, ast.Return)):
                ok3, d3 = False, 'the emitting loop can skip pieces (%s)' % type(x).__name__.lower()
            if isinstance(x, ast.If):
                ok3, d3 = False, 'emission of a piece is conditional'
        if tail_store is not None and tail_store.lineno > l.lineno:
            ok3, d3 = False, 'the carry is taken after the pieces were emitted'
    R.ob('SPLIT-CARRY', con, 'emit-each-piece-once-in-order', ok3, d3,
         ctx.where(fn, emit_loop[0].lineno if emit_loop else fn.node.lineno))
    # (4)+(5) path facts: carry writes happen before the first suspension; at most concat + tail; on the
    # no-delimiter path the carry holds the concatenation and nothing is emitted
    bad, n = None, 0
    d4 = ''
    for pst, status in ctx.paths(fn, cls):
        evs = pst.events
        if is_failure(evs, status):
            continue
        n += 1
        sts = [i for i, e in enumerate(evs) if e.kind == 'ST' and e.a == carry]
        sus = next((i for i, e in enumerate(evs) if e.kind == 'SUS'), None)
        ems = [i for i, e in enumerate(evs) if e.kind == 'EM']
        if sus is not None and any(i > sus for i in sts):
            bad, d4 = evs, 'the carried buffer is written after a suspension of the polling cycle'
        if len(sts) > 2:
            bad, d4 = evs, 'the carried buffer is written %d times in one cycle' % len(sts)
        got_data = any(e.kind == 'COND' and e.b is True and e.c is None and e.x.get('node') is not None and
                       isinstance(e.x['node'], ast.Name) and e.x['node'].id in read_names for e in evs)
        if got_data and not sts:
            bad, d4 = evs, 'data was read but the carried buffer was not extended'
        if ems and len(sts) != 2:
            bad, d4 = evs, 'pieces are emitted without re-assigning the carried buffer to the tail'
        if not ems and got_data and len(sts) == 1 and evs[sts[0]].x.get('empty'):
            bad, d4 = evs, 'the carried buffer is emptied without emitting'
    R.ob('SPLIT-CARRY', con, 'carry-written-once-before-suspension', bad is None and n > 0, d4,
         ctx.where(fn, fn.node.lineno), fmt_path(bad) if bad else None, n)
    # the "in" test that skips the split must be on the same delimiter/carry (or absent)
    tests = [n_ for n_ in own_nodes(fn.node) if isinstance(n_, ast.If) and any(x is sp for s in n_.body for x in ast.walk(s))]
    okt = all(norm(t.test, {}) in ('self.delimiter in self.%s' % carry, src(t.test)) and
              (src(t.test) == 'self.delimiter in self.%s' % carry or isinstance(t.test, ast.Name)) for t in tests)
    R.ob('SPLIT-CARRY', con, 'split-guard', okt, 'the split is guarded by a test other than "delimiter in carry": %s'
         % [src(t.test) for t in tests], ctx.where(fn, tests[-1].lineno if tests else sp.lineno))


# ----------------------------------------------------------------------------- SEEN-SET (C17)
def check_seen_set(ctx, R):
    M = ctx.model
    cls = M.cls('streamz.sources', 'filenames')
    fn = cls.methods.get('_run')
    if fn is None:
        raise AnalysisError('anchor vanished: filenames._run')
    con = ctx.construct(fn)
    defs = local_defs(fn.node)
    loops = [l for l in own_nodes(fn.node) if isinstance(l, (ast.For, ast.AsyncFor)) and any(
        isinstance(x, ast.Call) and isinstance(x.func, ast.Attribute) and x.func.attr in ('_emit', 'emit') for x in ast.walk(l))]
    if len(loops) != 1:
        raise AnalysisError('filenames._run: expected one emitting loop, found %d (unrecognised spelling)' % len(loops))
    l = loops[0]
    it = l.iter
    sorted_ok = isinstance(it, ast.Call) and isinstance(it.func, ast.Name) and it.func.id == 'sorted' and len(it.args) == 1 \
        and not any(k.arg == 'reverse' for k in it.keywords) and not any(k.arg == 'key' for k in it.keywords)
    cand = norm(it.args[0], defs) if sorted_ok else norm(it, defs)
    cand_ok = cand.replace(' ', '') in ('(set(glob(self.path))-self.seen)',)
    if not cand_ok:
        # accept set(glob(..)).difference(self.seen)
        cand_ok = cand.replace(' ', '') in ('set(glob(self.path)).difference(self.seen)',)
    R.ob('SEEN-SET', con, 'sorted-candidates', sorted_ok and cand_ok,
         'the loop iterates %s; expected sorted(set(glob(self.path)) - self.seen)' % src(it), ctx.where(fn, l.lineno))
    var = l.target.id if isinstance(l.target, ast.Name) else None
    bad, n = None, 0
    d = ''
    for pst, status in ctx.paths(fn, cls):
        evs = pst.events
        if is_failure(evs, status):
            continue
        its = [i for i, e in enumerate(evs) if e.kind == 'ITER' and e.line == l.lineno]
        bounds = its + [len(evs)]
        for a, b in zip(bounds, bounds[1:]):
            seg = evs[a:b]
            ems = [i for i, e in enumerate(seg) if e.kind == 'EM']
            if not ems:
                if any(e.kind in ('LOOPCUT',) for e in seg):
                    continue
                bad, d = evs, 'an iteration emits nothing'
                continue
            n += 1
            adds = [i for i, e in enumerate(seg) if e.kind == 'ST' and e.a == 'seen' and e.c == 'add']
            sus = next((i for i, e in enumerate(seg) if e.kind == 'SUS'), None)
            if len(ems) != 1:
                bad, d = evs, 'a path is emitted %d times' % len(ems)
            elif not adds or (sus is not None and adds[0] > sus):
                bad, d = evs, 'the path is not recorded in self.seen before its emission is awaited'
            else:
                dn = seg[ems[0]].x.get('data')
                av = seg[adds[0]].x.get('value')
                if not (isinstance(dn, ast.Name) and dn.id == var and isinstance(av, ast.Name) and av.id == var):
                    bad, d = evs, 'the emitted / recorded value is not the loop variable'
    R.ob('SEEN-SET', con, 'record-before-await', bad is None and n > 0, d, ctx.where(fn, l.lineno),
         fmt_path(bad) if bad else None, n)
    removes = []
    for mname, m in cls.methods.items():
        if mname == '__init__':
            continue
        for x in own_nodes(m.node):
            if isinstance(x, ast.Call) and isinstance(x.func, ast.Attribute) and x.func.attr in (
                    'remove', 'discard', 'clear', 'pop', 'difference_update') and self_field(x.func.value) == 'seen':
                removes.append((m, x))
            if isinstance(x, ast.Assign) and any(self_field(t) == 'seen' for t in x.targets):
                removes.append((m, x))
    R.ob('SEEN-SET', con, 'monotone', not removes, 'self.seen is shrunk or re-assigned outside __init__ (%s)'
         % ', '.join(m.name for m, _ in removes), ctx.where(removes[0][0], removes[0][1].lineno) if removes else None)
