"""E1 - program model: the resolved program of /repo/streamz, built from source only.

Nothing here imports or executes streamz.  Parsed units: every *.py under
<repo>/streamz except tests/ and utils_test.py.  The model resolves imports,
class bases, computes the C3 MRO statically, indexes functions (including nested
ones in any statement arm) and the register_api catalogue.
"""
import ast
import os

REPO = os.environ.get('STREAMZ_REPO', '/repo')
PKG = 'streamz'


class AnalysisError(Exception):
    """The analysis itself cannot stand (vanished anchor, unknown construct,
    floor not met).  Mapped to exit 2, never to a VIOLATION."""


def src(n):
    return ast.unparse(n) if n is not None else None


def is_coroutine_decorator(d):
    s = src(d)
    return s in ('gen.coroutine', 'coroutine', 'tornado.gen.coroutine')


class Func:
    def __init__(self, module, qual, node, cls=None, parent=None):
        self.module = module        # Module
        self.qual = qual            # e.g. 'partition.update', 'FromKafkaBatched.poll_kafka.commit'
        self.node = node
        self.cls = cls              # Class or None (for nested funcs: the enclosing class)
        self.parent = parent        # enclosing Func or None
        self.name = node.name

    @property
    def kind(self):
        if isinstance(self.node, ast.AsyncFunctionDef):
            return 'async'
        if any(is_coroutine_decorator(d) for d in self.node.decorator_list):
            return 'gen'
        return 'plain'

    @property
    def is_coro(self):
        return self.kind != 'plain'

    @property
    def is_generator(self):
        """a plain generator function (yields, but is not decorated as a coroutine): when it is only ever driven with
        `yield from` from inside coroutines, its yields are the suspension points of those coroutines"""
        return self.kind == 'plain' and any(isinstance(n, (ast.Yield, ast.YieldFrom)) for n in own_nodes(self.node))

    @property
    def fq(self):
        return self.module.name + ':' + self.qual

    @property
    def file(self):
        return self.module.relpath

    def params(self):
        a = self.node.args
        return [x.arg for x in a.posonlyargs + a.args]

    def __repr__(self):
        return '<Func %s>' % self.fq


class Class:
    def __init__(self, module, node):
        self.module = module
        self.node = node
        self.name = node.name
        self.methods = {}           # name -> Func (own definitions)
        self.assigns = {}           # class-level simple assignments name -> value node
        self.base_exprs = list(node.bases)
        self.bases = []             # resolved Class objects (unresolvable dropped)
        self.unresolved_bases = []
        self.mro = None
        self.registrations = []     # (target class expr text, modifier text, attribute_name)

    @property
    def fq(self):
        return self.module.name + ':' + self.name

    @property
    def file(self):
        return self.module.relpath

    def find(self, name):
        """first definition of method `name` along the MRO"""
        for c in self.mro:
            if name in c.methods:
                return c.methods[name]
        return None

    def find_after(self, owner, name):
        """super() resolution: first definition after `owner` in this class's MRO"""
        seen = False
        for c in self.mro:
            if seen and name in c.methods:
                return c.methods[name]
            if c is owner:
                seen = True
        return None

    def isa(self, other):
        return other in self.mro

    def class_attr(self, name):
        for c in self.mro:
            if name in c.assigns:
                return c.assigns[name]
        return None

    def __repr__(self):
        return '<Class %s>' % self.fq


class Module:
    def __init__(self, name, path, relpath, tree, text):
        self.name = name
        self.path = path
        self.relpath = relpath
        self.tree = tree
        self.text = text
        self.classes = {}
        self.functions = {}     # top-level functions
        self.imports = {}       # local name -> ('module', modname) | ('symbol', modname, symbol)
        self.all_funcs = []     # every Func incl. methods and nested
        self.star_imports = []


def _module_name(relpath):
    p = relpath[:-3]
    if p.endswith('/__init__'):
        p = p[:-len('/__init__')]
    return p.replace('/', '.')


def _resolve_relative(modname, is_pkg, level, target):
    parts = modname.split('.')
    if not is_pkg:
        parts = parts[:-1]
    if level > 1:
        parts = parts[:len(parts) - (level - 1)]
    base = '.'.join(parts)
    if target:
        return base + '.' + target if base else target
    return base


class Model:
    def __init__(self, repo=None, overrides=None):
        self.repo = repo or REPO
        self.overrides = overrides or {}     # relpath -> source text (in-memory variants for self-tests)
        self.modules = {}
        self.stats = {}
        self._load()
        self._resolve()

    # ------------------------------------------------------------------ loading
    def _load(self):
        root = os.path.join(self.repo, PKG)
        if not os.path.isdir(root):
            raise AnalysisError('package directory %s not found' % root)
        files = []
        for d, dirs, fs in os.walk(root):
            dirs[:] = sorted(x for x in dirs if x not in ('tests', '__pycache__'))
            for f in sorted(fs):
                if f.endswith('.py') and f != 'utils_test.py':
                    files.append(os.path.join(d, f))
        nlines = 0
        for path in files:
            rel = os.path.relpath(path, self.repo)
            text = self.overrides.get(rel)
            if text is None:
                text = open(path, encoding='utf-8').read()
            nlines += text.count('\n')
            try:
                tree = ast.parse(text, filename=rel)
            except SyntaxError as e:
                raise AnalysisError('cannot parse %s: %s' % (rel, e))
            name = _module_name(rel)
            m = Module(name, path, rel, tree, text)
            m.is_pkg = path.endswith('__init__.py')
            self.modules[name] = m
            self._index_module(m)
        self.stats['modules'] = len(self.modules)
        self.stats['lines'] = nlines

    def _index_module(self, m):
        for n in ast.walk(m.tree):
            if isinstance(n, ast.Import):
                for a in n.names:
                    m.imports[a.asname or a.name.split('.')[0]] = ('module', a.name if a.asname else a.name.split('.')[0])
            elif isinstance(n, ast.ImportFrom):
                mod = n.module or ''
                if n.level:
                    mod = _resolve_relative(m.name, m.is_pkg, n.level, n.module)
                for a in n.names:
                    if a.name == '*':
                        m.star_imports.append(mod)
                    else:
                        m.imports.setdefault(a.asname or a.name, ('symbol', mod, a.name))
        self._index_body(m, m.tree.body, '', None, None)

    def _index_body(self, m, body, prefix, cls, parent, in_class=None):
        """cls: class whose `self` is in scope (propagates into nested functions);
        parent: enclosing Func; in_class: set while walking a class body directly."""
        for n in body:
            if isinstance(n, ast.ClassDef):
                c = Class(m, n)
                c.qual = prefix + n.name
                c.enclosing_func = parent
                m.classes.setdefault(c.qual, c)
                self._index_class(m, c, prefix)
            elif isinstance(n, (ast.FunctionDef, ast.AsyncFunctionDef)):
                f = Func(m, prefix + n.name, n, cls=(in_class or cls), parent=parent)
                f.owner = in_class
                m.all_funcs.append(f)
                is_overload = any(src(d) in ('overload', 'typing.overload') for d in n.decorator_list)
                if in_class is not None:
                    if not is_overload:
                        in_class.methods[n.name] = f
                elif parent is None and not is_overload:
                    m.functions[n.name] = f
                self._index_body(m, n.body, prefix + n.name + '.', in_class or cls, f)
            elif isinstance(n, (ast.If, ast.For, ast.AsyncFor, ast.While, ast.With, ast.AsyncWith)):
                self._index_body(m, n.body, prefix, cls, parent, in_class)
                self._index_body(m, getattr(n, 'orelse', None) or [], prefix, cls, parent, in_class)
            elif isinstance(n, ast.Try):
                self._index_body(m, n.body, prefix, cls, parent, in_class)
                for h in n.handlers:
                    self._index_body(m, h.body, prefix, cls, parent, in_class)
                self._index_body(m, n.orelse, prefix, cls, parent, in_class)
                self._index_body(m, n.finalbody, prefix, cls, parent, in_class)
            elif in_class is not None and isinstance(n, ast.Assign):
                for t in n.targets:
                    if isinstance(t, ast.Name):
                        in_class.assigns[t.id] = n.value

    def _index_class(self, m, c, prefix):
        for d in c.node.decorator_list:
            if isinstance(d, ast.Name):
                # a decorator bound once at module level:  _dask_method = DaskStream.register_api()
                binds = [n.value for n in m.tree.body if isinstance(n, ast.Assign)
                         and any(isinstance(t, ast.Name) and t.id == d.id for t in n.targets)]
                if len(binds) == 1:
                    d = binds[0]
            if isinstance(d, ast.Call) and isinstance(d.func, ast.Attribute) and d.func.attr == 'register_api':
                mod = src(d.args[0]) if d.args else None
                attr = None
                if len(d.args) > 1 and isinstance(d.args[1], ast.Constant):
                    attr = d.args[1].value
                for k in d.keywords:
                    if k.arg == 'attribute_name' and isinstance(k.value, ast.Constant):
                        attr = k.value.value
                    if k.arg == 'modifier':
                        mod = src(k.value)
                c.registrations.append((src(d.func.value), mod, attr or c.name))
        self._index_body(m, c.node.body, prefix + c.name + '.', c, getattr(c, 'enclosing_func', None), in_class=c)

    # ------------------------------------------------------------------ resolution
    def resolve_name(self, m, expr):
        """resolve a Name/Attribute expression in module m to a Class, Func or Module"""
        if isinstance(expr, ast.Name):
            nm = expr.id
            if nm in m.classes:
                return m.classes[nm]
            if nm in m.functions:
                return m.functions[nm]
            if nm in m.imports:
                return self._resolve_import(m.imports[nm])
            return None
        if isinstance(expr, ast.Attribute):
            base = self.resolve_name(m, expr.value)
            if isinstance(base, Module):
                if expr.attr in base.classes:
                    return base.classes[expr.attr]
                if expr.attr in base.functions:
                    return base.functions[expr.attr]
                if expr.attr in base.imports:
                    return self._resolve_import(base.imports[expr.attr])
                sub = base.name + '.' + expr.attr
                if sub in self.modules:
                    return self.modules[sub]
            return None
        return None

    def _resolve_import(self, imp, depth=0):
        if depth > 6:
            return None
        if imp[0] == 'module':
            return self.modules.get(imp[1])
        _, mod, sym = imp
        full = mod + '.' + sym if mod else sym
        if full in self.modules:
            return self.modules[full]
        tm = self.modules.get(mod)
        if tm is None:
            return None
        if sym in tm.classes:
            return tm.classes[sym]
        if sym in tm.functions:
            return tm.functions[sym]
        if sym in tm.imports:
            return self._resolve_import(tm.imports[sym], depth + 1)
        for sm in tm.star_imports:
            r = self._resolve_import(('symbol', sm, sym), depth + 1)
            if r is not None:
                return r
        return None

    def _resolve(self):
        self.classes = []
        for m in self.modules.values():
            seen = set()
            for c in m.classes.values():
                if id(c) not in seen:
                    seen.add(id(c))
                    self.classes.append(c)
        for c in self.classes:
            for b in c.base_exprs:
                r = self.resolve_name(c.module, b)
                if isinstance(r, Class):
                    c.bases.append(r)
                else:
                    c.unresolved_bases.append(src(b))
        for c in self.classes:
            c.mro = self._c3(c, set())
        self.stats['classes'] = len(self.classes)
        self.stats['functions'] = sum(len(m.all_funcs) for m in self.modules.values())
        self.stream = self.cls('streamz.core', 'Stream')
        # Private helper bases / mix-ins of the package (`class _QueuedStream(Stream)`, `class _UniqueKeyMixin`) are code
        # shared by their subclasses, not nodes of their own: their methods are analysed as methods of every concrete
        # subclass (where the hooks they call resolve), and the bases themselves are not iterated as node classes.
        self.private_bases = set()
        for c in self.classes:
            if not c.module.name.startswith('streamz') or '.tests' in c.module.name:
                continue
            # (only through a chain of private bases: a class that inherits the base through a concrete node class - a Dask
            # mix-in over core.buffer - inherits that node's methods like any others and is not a second owner of them)
            near, work = [], list(c.bases)
            while work:
                b = work.pop(0)
                if b.name.startswith('_') and not b.name.startswith('__') and b.module.name.startswith('streamz') \
                        and not b.registrations and b not in near:
                    near.append(b)
                    work.extend(b.bases)
            for b in (c.mro or [])[1:]:
                if b.name.startswith('_') and not b.name.startswith('__') and b.module.name.startswith('streamz') \
                        and not b.registrations:
                    self.private_bases.add(b)
                    if b not in near:
                        continue
                    for name, fn in b.methods.items():
                        if name not in c.methods and c.find(name) is fn:
                            c.methods[name] = fn
                            c.inherited_private = getattr(c, 'inherited_private', set()) | {name}
        self.nodes = [c for c in self.classes if c.isa(self.stream) and c not in self.private_bases]
        self.stats['node_classes'] = len(self.nodes)

    def _c3(self, c, stack):
        if c.mro is not None:
            return c.mro
        if id(c) in stack:
            raise AnalysisError('inheritance cycle at %s' % c.fq)
        stack = stack | {id(c)}
        seqs = [list(self._c3(b, stack)) for b in c.bases] + [list(c.bases)]
        out = [c]
        while True:
            seqs = [s for s in seqs if s]
            if not seqs:
                return out
            for s in seqs:
                cand = s[0]
                if not any(cand in t[1:] for t in seqs):
                    break
            else:
                raise AnalysisError('no consistent MRO for %s' % c.fq)
            out.append(cand)
            for s in seqs:
                if s and s[0] is cand:
                    del s[0]

    # ------------------------------------------------------------------ lookups
    def module(self, name):
        m = self.modules.get(name)
        if m is None:
            raise AnalysisError('anchor vanished: module %s' % name)
        return m

    def cls(self, module, name, required=True):
        m = self.modules.get(module)
        c = m.classes.get(name) if m else None
        if c is None and required:
            raise AnalysisError('anchor vanished: class %s:%s' % (module, name))
        return c

    def method(self, module, cls, name, required=True):
        c = self.cls(module, cls, required)
        f = c.find(name) if c else None
        if f is None and required:
            raise AnalysisError('anchor vanished: method %s:%s.%s' % (module, cls, name))
        return f

    def function(self, module, name, required=True):
        m = self.modules.get(module)
        f = m.functions.get(name) if m else None
        if f is None and required:
            raise AnalysisError('anchor vanished: function %s:%s' % (module, name))
        return f

    def all_funcs(self):
        for m in self.modules.values():
            for f in m.all_funcs:
                yield f

    def subclasses(self, base):
        return [c for c in self.classes if c.isa(base)]

    def api_of(self, target_cls):
        """registered API: attribute name -> Class, for decorators naming target_cls
        (resolution of the decorator's receiver expression in the class's module)"""
        out = {}
        for c in self.classes:
            for recv, mod, attr in c.registrations:
                r = self.resolve_name(c.module, ast.parse(recv, mode='eval').body)
                if r is target_cls:
                    out[attr] = c
        return out


def own_nodes(fn_node):
    """walk the AST of one function WITHOUT descending into nested defs/lambdas/classes"""
    stack = list(ast.iter_child_nodes(fn_node))
    while stack:
        n = stack.pop()
        yield n
        if isinstance(n, (ast.FunctionDef, ast.AsyncFunctionDef, ast.ClassDef, ast.Lambda)):
            continue
        stack.extend(ast.iter_child_nodes(n))


def self_field(n):
    """self.f / self.f[...] / self.f[...][...] -> 'f' else None"""
    while isinstance(n, ast.Subscript):
        n = n.value
    if isinstance(n, ast.Attribute) and isinstance(n.value, ast.Name) and n.value.id == 'self':
        return n.attr
    return None
