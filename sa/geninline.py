"""AST-level inlining of a plain generator helper into the for-loop that consumes it:

        for T in self._gen(a, b):            def _gen(self, p, q):
            BODY                                 for u in self.xs:
                                                     if u:
                                                         yield u
  ==
        p, q = a, b                          (locals of the generator renamed apart)
        for u in self.xs:
            if u:
                T = u
                BODY

Sound when the generator is a plain generator function (not a coroutine), every `yield` is a statement of its own,
it has no `return`, and BODY neither breaks, continues nor returns (those would have to end the generator as well).
Returns the list of statements or None when the shape is outside this fragment (callers fall back to what they did before).
"""
import ast
import copy

from .model import own_nodes


def is_plain_generator(callee):
    if callee.is_coro:
        return False
    return any(isinstance(n, (ast.Yield, ast.YieldFrom)) for n in own_nodes(callee.node))


def inline_generator_loop(for_node, callee, call, param_offset=1):
    if for_node.orelse or not is_plain_generator(callee):
        return None
    for n in for_node.body:
        for x in ast.walk(n):
            if isinstance(x, (ast.Break, ast.Continue, ast.Return, ast.Yield, ast.YieldFrom, ast.Await)) and not _in_inner_loop(for_node, x):
                if isinstance(x, (ast.Yield, ast.YieldFrom, ast.Await)):
                    continue
                return None
    gen = callee.node
    for x in own_nodes(gen):
        if isinstance(x, ast.Return):
            return None
        if isinstance(x, ast.YieldFrom):
            return None
    # every yield is a statement of its own
    ok_yields = set()
    for x in own_nodes(gen):
        if isinstance(x, ast.Expr) and isinstance(x.value, ast.Yield):
            ok_yields.add(id(x.value))
    for x in own_nodes(gen):
        if isinstance(x, ast.Yield) and id(x) not in ok_yields:
            return None
    a = gen.args
    if a.vararg or a.kwarg or a.kwonlyargs:
        return None
    params = [p.arg for p in a.posonlyargs + a.args][param_offset:]
    if len(call.args) > len(params) or any(isinstance(x, ast.Starred) for x in call.args):
        return None
    prefix = '_g%d_' % for_node.lineno
    local = set(params)
    # a parameter that receives the node itself (module-level helper `_linked_nodes(self)`, analysed on a clone whose
    # parameter is called self) stays `self`: field accesses through it are the node's fields
    keep_self = {p for p, arg in zip(params, call.args) if isinstance(arg, ast.Name) and arg.id == 'self' and p == 'self'}
    local -= keep_self
    for x in own_nodes(gen):
        if isinstance(x, ast.Name) and isinstance(x.ctx, ast.Store):
            local.add(x.id)

    class Ren(ast.NodeTransformer):
        def visit_Name(self, n):
            if n.id in local:
                return ast.copy_location(ast.Name(id=prefix + n.id, ctx=n.ctx), n)
            return n

    def conv(stmts):
        out = []
        for s in stmts:
            if isinstance(s, ast.Expr) and isinstance(s.value, ast.Yield):
                v = s.value.value if s.value.value is not None else ast.Constant(value=None)
                asg = ast.Assign(targets=[copy.deepcopy(for_node.target)], value=v)
                ast.copy_location(asg, for_node)
                ast.fix_missing_locations(asg)
                out.append(asg)
                out.extend(for_node.body)
                continue
            if isinstance(s, ast.Expr) and isinstance(s.value, ast.Constant):
                continue
            for fld in ('body', 'orelse', 'finalbody'):
                if hasattr(s, fld) and isinstance(getattr(s, fld), list) and getattr(s, fld) and isinstance(getattr(s, fld)[0], ast.stmt):
                    setattr(s, fld, conv(getattr(s, fld)))
            if isinstance(s, ast.Try):
                for h in s.handlers:
                    h.body = conv(h.body)
            out.append(s)
        return out

    body = [Ren().visit(copy.deepcopy(s)) for s in gen.body]
    stmts = []
    bound = set()
    for p, arg in zip(params, call.args):
        if p not in keep_self:
            stmts.append(ast.Assign(targets=[ast.Name(id=prefix + p, ctx=ast.Store())], value=arg))
        bound.add(p)
    for k in call.keywords:
        if k.arg is None or k.arg not in params:
            return None
        stmts.append(ast.Assign(targets=[ast.Name(id=prefix + k.arg, ctx=ast.Store())], value=k.value))
        bound.add(k.arg)
    pos = a.posonlyargs + a.args
    for prm, d in zip(pos[len(pos) - len(a.defaults):], a.defaults):
        if prm.arg in params and prm.arg not in bound:
            stmts.append(ast.Assign(targets=[ast.Name(id=prefix + prm.arg, ctx=ast.Store())], value=d))
            bound.add(prm.arg)
    if set(params) - bound:
        return None
    for s in stmts:
        ast.copy_location(s, for_node)
        ast.fix_missing_locations(s)
    return stmts + conv(body)


def _in_inner_loop(outer, node):
    """is node inside a loop nested in outer's body (so that break/continue refer to that inner loop)?"""
    for n in outer.body:
        for l in ast.walk(n):
            if isinstance(l, (ast.For, ast.AsyncFor, ast.While)) and any(x is node for x in ast.walk(l)) \
                    and isinstance(node, (ast.Break, ast.Continue)):
                return True
    return False
