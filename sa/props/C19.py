"""C19 one event loop per pipeline; async pipelines never leave the caller's loop (structural clauses)"""
from ..rules import loopbind
from .common import declare

RULES = ['MODE-PRESERVED', 'LOOP-FALLBACK', 'CONFLICT-RAISES', 'INHERIT', 'LOOP-USE-ENSURES', 'CTOR-CHAINS', 'THREAD-SITE',
         'SCHEDULE-ON-SELF-LOOP', 'OPTIONS-REACH']
FLOORS = {'MODE-PRESERVED': 2, 'LOOP-FALLBACK': 1, 'CONFLICT-RAISES': 6, 'INHERIT': 2, 'LOOP-USE-ENSURES': 20, 'CTOR-CHAINS': 40,
          'THREAD-SITE': 3, 'SCHEDULE-ON-SELF-LOOP': 1, 'OPTIONS-REACH': 40}

META = {
    'level': "Static analysis of loop/mode binding: Stream.__init__ overwrites the mode with a constant only when it is undecided "
             "(MODE-PRESERVED) and binds get_io_loop(self.asynchronous) exactly when no loop is known (LOOP-FALLBACK); _inform_* "
             "raise on conflict, otherwise bind and percolate in both directions, _set_* inherit from upstreams (CONFLICT-RAISES, "
             "INHERIT); every class whose methods dereference self.loop passes ensure_io_loop=True along its MRO-resolved constructor "
             "chain (LOOP-USE-ENSURES) and every constructor reaches Stream.__init__ exactly once on every path (CTOR-CHAINS); "
             "threads/IOLoops are constructed only in get_io_loop on non-asynchronous paths, once (THREAD-SITE); node classes schedule "
             "only through self.loop (SCHEDULE-ON-SELF-LOOP). Deliberately not done: evaluating __init__ over the configuration space "
             "(that would be execution).",
    'note': "Trusted: statically computed C3 MRO; tornado IOLoop.current() is the caller's loop.",
    'technique': "static analysis: control-dependence in Stream.__init__, MRO-resolved constructor chains with keyword flow, "
                 "who-may-construct census (MODE-PRESERVED, CONFLICT-RAISES, INHERIT, LOOP-USE-ENSURES, CTOR-CHAINS, THREAD-SITE)",
}


def run(ctx, R):
    R.explanation = 'Binding protocol of Stream.__init__/_set_*/_inform_*, constructor chains of all node classes, thread sites.'
    R.not_decided = ['thread identity at run time for a given configuration (not executed)']
    declare(R, loopbind.RULES, RULES, FLOORS)
    R.run(loopbind.check_mode_preserved, ctx, R)
    R.run(loopbind.check_inform, ctx, R)
    R.run(loopbind.check_loop_use_ensures, ctx, R)
    R.run(loopbind.check_ctor_chains, ctx, R)
    R.run(loopbind.check_options_reach, ctx, R)
    R.run(loopbind.check_thread_site, ctx, R)
    R.run(loopbind.check_schedule_on_self_loop, ctx, R)


META['level'] += ' The asynchronous test is the first thing get_io_loop does; _inform_* percolate unconditionally; RefCounters created by nodes are bound to self.loop.'
META['level'] += ' OPTIONS-REACH: loop= / asynchronous= given to any node constructor travel along the constructor chain to Stream.__init__ (where a conflict raises), except for the tabled classes whose keywords belong to the user function.'
META['level'] += ' LOOP-USE-ENSURES counts a coroutine that sleeps as a user of the loop.'
