#!/usr/bin/env python3
"""make the demo.py of a seeded change independent of the scratch worktree it was written in: the quoted literal
"/tmp/seed/wt[2]_<prop>" becomes "the first PYTHONPATH entry" (tools/eval_seed.sh and tools/keep_seed2.py run demos with
PYTHONPATH=<tree under test>).  usage: portable_demo.py <demo.py> [...]"""
import re
import sys

EXPR = '__import__("os").environ.get("PYTHONPATH", "/repo").split(":")[0]'


def portable(text):
    return re.sub(r'([\'"])/tmp/seed/wt[234]?_C\d\d/?\1', EXPR, text)


if __name__ == '__main__':
    for p in sys.argv[1:]:
        t = open(p).read()
        n = portable(t)
        if n != t:
            open(p, 'w').write(n)
            print('rewritten', p)
