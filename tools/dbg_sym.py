"""debug helper: print SymEval records of one method, optionally on a benign/ patch
usage: python3 tools/dbg_sym.py <patch-id|-> <module.Class|module> <function> [name_calls] [no_splice,comma]"""
import os, sys, ast
sys.path.insert(0, os.path.dirname(os.path.dirname(os.path.abspath(__file__))))
from selftest.benign_patches import overrides_for
from sa.model import Model
from sa.symexpr import SymEval
from sa.model import src
pid, owner, meth = sys.argv[1:4]
nc = len(sys.argv) > 4 and sys.argv[4] == '1'
ns = tuple(sys.argv[5].split(',')) if len(sys.argv) > 5 else ()
ov = overrides_for({pid})[pid] if pid != '-' else None
M = Model(overrides=ov)
if owner in M.modules:
    cls, fn = None, M.function(owner, meth)
else:
    mod, cn = owner.rsplit('.', 1)
    cls = M.cls(mod, cn)
    fn = cls.find(meth)
def s(x):
    try:
        return src(x) if isinstance(x, ast.AST) else repr(x)
    except Exception:
        return repr(x)
for r in SymEval(M, cls, name_calls=nc, no_splice=ns).run(fn):
    print('---- raised' if r.raised else '----', 'ret=', s(r.ret))
    print('  conds:', [(s(c[0]), c[1]) if isinstance(c, tuple) else s(c) for c in r.conds])
    for k, i in r.order:
        if k == 'store':
            print('  ST', r.stores[i][0], '=', s(r.stores[i][1]))
        elif k == 'emit':
            print('  EM', s(r.emits[i][0]), s(r.emits[i][1]))
        elif k == 'cond':
            print('  IF', r.conds[i])
        else:
            print('  CALL', s(r.calls[i][0]))
