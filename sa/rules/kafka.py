"""Kafka wiring rules (DESIGN 4.11) - code the test-suite never executes (no broker, no confluent_kafka)."""
import ast

from ..model import AnalysisError, own_nodes, src, self_field
from .idioms import norm, local_defs

RULES = {
    'AUTOCOMMIT-OFF': "FromKafkaBatched.__init__ unconditionally sets consumer_params['enable.auto.commit'] to 'false' and nothing "
                      'else in the package writes that key',
    'COMMIT-ONLY-VIA-REF': 'consumer.commit is called only inside the closure used only as cb= of the RefCounter that travels as '
                           'metadata of the _emit of the same batch (loop=self.loop)',
    'TUPLE-LAYOUT': 'the batch tuple agrees position by position with the parameters of get_message_batch(_cudf) and with the '
                    'unpack in commit()',
    'OFFSET-ALGEBRA': 'first offset = max(cursor, low watermark); high is only the watermark or the clamp lowest + max_batch_size; '
                      'emission guarded by high > lowest; last component high - 1; cursor <- high in the same block; commit = last + 1',
    'SEED-FROM-COMMITTED': 'every path into the poll loop first sets positions[partition] from consumer.committed(...)',
    'READ-RANGE': 'get_message_batch assigns the partition at `low`, keeps messages with offset <= high, stops at offset >= high and '
                  'closes its consumer in finally',
}


def _fkb(ctx):
    M = ctx.model
    cls = M.cls('streamz.sources', 'FromKafkaBatched')
    return cls, None


def scope(cls):
    """every function of the class: methods and the closures nested in them (refactorings move code between them)"""
    return [f for f in cls.module.all_funcs if f.cls is cls]


def _calls(fn, pred):
    return [n for n in own_nodes(fn.node) if isinstance(n, ast.Call) and pred(n)]


def _attr_call(n, attr):
    return isinstance(n.func, ast.Attribute) and n.func.attr == attr


def find_batch_site(cls):
    """(function, append call) of the 6-tuple handed to get_message_batch"""
    for f in scope(cls):
        for n in own_nodes(f.node):
            if isinstance(n, ast.Call) and _attr_call(n, 'append') and n.args and isinstance(n.args[0], ast.Tuple) \
                    and len(n.args[0].elts) == 6:
                return f, n
    raise AnalysisError('FromKafkaBatched: no 6-tuple appended to a batch list was found (unrecognised spelling)')


def kafka_names(cls):
    """discover the local names of the batch computation by their definitions (alpha-insensitive)"""
    F, app = find_batch_site(cls)
    wm = None
    for n in own_nodes(F.node):
        if isinstance(n, ast.Assign) and isinstance(n.targets[0], (ast.Tuple, ast.List)) and isinstance(n.value, ast.Call) \
                and _attr_call(n.value, 'get_watermark_offsets') and len(n.targets[0].elts) == 2 \
                and all(isinstance(e, ast.Name) for e in n.targets[0].elts):
            wm = n
    if wm is None:
        raise AnalysisError('FromKafkaBatched: `low, high = consumer.get_watermark_offsets(...)` not found next to the batch tuple')
    low, high = wm.targets[0].elts[0].id, wm.targets[0].elts[1].id
    loop = next((l for l in own_nodes(F.node) if isinstance(l, ast.For) and any(x is wm for x in ast.walk(l))), None)
    part = loop.target.id if loop is not None and isinstance(loop.target, ast.Name) else None
    elts = app.args[0].elts
    start = elts[4].id if isinstance(elts[4], ast.Name) else None
    end = None
    e5 = elts[5]
    if isinstance(e5, ast.BinOp) and isinstance(e5.op, ast.Sub) and isinstance(e5.left, ast.Name) and src(e5.right) == '1':
        end = e5.left.id
    return {'F': F, 'app': app, 'wm': wm, 'low': low, 'high': high, 'part': part, 'start': start, 'end': end, 'loop': loop,
            'out': src(app.func.value)}


def check_autocommit(ctx, R):
    M = ctx.model
    cls, _ = _fkb(ctx)
    init = cls.methods['__init__']
    con = ctx.construct(init)
    ok, line = False, init.node.lineno
    # names that denote the very dict the consumer is later built from: the field, and a parameter stored in it as it is
    # (after `self.consumer_params = dict(consumer_params)` the parameter is another object)
    aliases = {'self.consumer_params'}
    for s in init.node.body:
        if isinstance(s, ast.Assign) and any(src(t) == 'self.consumer_params' for t in s.targets) and isinstance(s.value, ast.Name):
            aliases.add(s.value.id)
    stray = []
    for n in own_nodes(init.node):
        if isinstance(n, ast.Subscript) and isinstance(n.ctx, ast.Store) and isinstance(n.slice, ast.Constant) \
                and isinstance(n.slice.value, str) and '.' in n.slice.value and src(n.value) not in aliases:
            stray.append(n)
    R.ob('AUTOCOMMIT-OFF', con, 'settings-reach-the-consumer', not stray,
         'a consumer setting (%s) is written into %s, which is not the dict the consumer is built from (self.consumer_params): '
         'the setting never takes effect' % (stray[0].slice.value if stray else '', src(stray[0].value) if stray else ''),
         ctx.where(init, stray[0].lineno) if stray else ctx.where(init, init.node.lineno))
    for s in init.node.body:           # top level only: unconditional
        if isinstance(s, ast.Assign) and isinstance(s.targets[0], ast.Subscript) \
                and isinstance(s.targets[0].slice, ast.Constant) and s.targets[0].slice.value == 'enable.auto.commit':
            base = src(s.targets[0].value)
            val = s.value
            if base in aliases and isinstance(val, ast.Constant) and val.value in ('false', False, 'False'):
                ok, line = True, s.lineno
    R.ob('AUTOCOMMIT-OFF', con, 'enable.auto.commit', ok,
         "auto-commit is not forced off unconditionally in the constructor: offsets could be committed before processing",
         ctx.where(init, line))
    built = None
    for f in scope(cls):
        for n in own_nodes(f.node):
            if isinstance(n, ast.Call) and src(n.func).endswith('Consumer') and n.args and src(n.args[0]) == 'self.consumer_params':
                built = f
    R.ob('AUTOCOMMIT-OFF', cls.module.name + '.' + cls.name, 'consumer-built-from-params', built is not None,
         'the consumer is not constructed from self.consumer_params', '%s:%d' % (cls.file, cls.node.lineno))
    others = []
    for m in M.modules.values():
        for n in ast.walk(m.tree):
            if isinstance(n, ast.Subscript) and isinstance(n.ctx, ast.Store) and isinstance(n.slice, ast.Constant) \
                    and n.slice.value == 'enable.auto.commit':
                if not (m.name == 'streamz.sources' and init.node.lineno <= n.lineno <= init.node.end_lineno):
                    others.append('%s:%d' % (m.relpath, n.lineno))
            if isinstance(n, ast.Call) and isinstance(n.func, ast.Attribute) and n.func.attr in ('setdefault', 'update', 'pop') \
                    and n.args and isinstance(n.args[0], ast.Constant) and n.args[0].value == 'enable.auto.commit':
                others.append('%s:%d' % (m.relpath, n.lineno))
    R.ob('AUTOCOMMIT-OFF', 'streamz', 'no-other-writer', not others,
         "another site writes 'enable.auto.commit': %s" % ', '.join(others), others[0] if others else None)


def _commit_fn(cls):
    sites = []
    for f in scope(cls):
        for n in own_nodes(f.node):
            if isinstance(n, ast.Call) and _attr_call(n, 'commit') and 'consumer' in src(n.func.value):
                sites.append((f, n))
    if not sites:
        # the commit moved into a private module-level helper that is handed the source: the function of the class that
        # calls that helper is the commit function (the helper is spliced on its normal form)
        for h in cls.module.functions.values():
            if not h.name.startswith('_'):
                continue
            inner = [n for n in own_nodes(h.node) if isinstance(n, ast.Call) and _attr_call(n, 'commit') and 'consumer' in src(n.func.value)]
            if not inner:
                continue
            for f in scope(cls):
                for n in own_nodes(f.node):
                    if isinstance(n, ast.Call) and isinstance(n.func, ast.Name) and n.func.id == h.name:
                        sites.append((f, inner[0]))
    return sites


def _refcounter_fn(cls):
    out = []
    for f in scope(cls):
        for n in own_nodes(f.node):
            if isinstance(n, ast.Call) and src(n.func) in ('RefCounter', 'core.RefCounter'):
                out.append((f, n))
    return out


def _refers_to(node, fn):
    """does the expression refer to function fn (closure name or self.<method>)"""
    for x in ast.walk(node):
        if isinstance(x, ast.Name) and x.id == fn.name and fn.owner is None:
            return True
        if isinstance(x, ast.Attribute) and isinstance(x.value, ast.Name) and x.value.id == 'self' and x.attr == fn.name \
                and fn.owner is not None:
            return True
    return False


def _checkpoint_form(ctx, cls, ce, commit):
    """the checkpointing function on its symbolic normal form: every path makes one awaited emission of its batch parameter D
    with metadata [{'ref': RefCounter(cb=<commits D>, loop=self.loop)}], where <commits D> is `lambda: commit(D)`,
    partial(commit, D), or a zero-argument closure of this function whose free batch variable is D"""
    from ..symexpr import SymEval
    recs = [r for r in SymEval(ctx.model, cls).run(ce) if not r.raised]
    if not recs:
        return False, 'the checkpointing function has no completing path'
    params = [p_ for p_ in ce.params() if p_ != 'self']
    base, why = commit_target(ctx, cls, commit)
    if base is None:
        return False, 'the commit function does not commit a batch: ' + why
    cparams = [p_ for p_ in commit.params() if p_ != 'self']
    for r in recs:
        if len(r.emits) != 1:
            return False, 'a path of the checkpointing function emits %d times' % len(r.emits)
        d, md = r.emits[0][0], r.emits[0][1]
        D = src(d)
        if D not in params:
            return False, 'what is emitted (%s) is not the batch handed to the checkpointing function' % D
        if not (isinstance(md, ast.List) and len(md.elts) == 1 and isinstance(md.elts[0], ast.Dict) and len(md.elts[0].keys) == 1
                and isinstance(md.elts[0].keys[0], ast.Constant) and md.elts[0].keys[0].value == 'ref'):
            return False, "the batch is not emitted with metadata=[{'ref': <reference counter>}] (found %s)" % (src(md) if md is not None else None)
        rcall = md.elts[0].values[0]
        if not (isinstance(rcall, ast.Call) and src(rcall.func) in ('RefCounter', 'core.RefCounter')):
            return False, "the 'ref' travelling with the batch is %s, not a RefCounter created for it" % src(rcall)
        cb = next((k.value for k in rcall.keywords if k.arg == 'cb'), rcall.args[1] if len(rcall.args) > 1 else None)
        loop = next((k.value for k in rcall.keywords if k.arg == 'loop'), rcall.args[2] if len(rcall.args) > 2 else None)
        init = next((k.value for k in rcall.keywords if k.arg == 'initial'), rcall.args[0] if rcall.args else None)
        if init is not None and not (isinstance(init, ast.Constant) and init.value == 0):
            return False, 'the RefCounter does not start at 0'
        okcb = False
        if isinstance(cb, ast.Lambda) and not (cb.args.args or cb.args.vararg or cb.args.kwarg or cb.args.kwonlyargs):
            c = cb.body
            okcb = isinstance(c, ast.Call) and _refers_to(c.func, commit) and [src(a) for a in c.args] == [D] and not c.keywords \
                and cparams[:1] == [base]
        elif isinstance(cb, ast.Call) and src(cb.func) in ('partial', 'functools.partial') and len(cb.args) == 2 and not cb.keywords:
            okcb = _refers_to(cb.args[0], commit) and src(cb.args[1]) == D and cparams[:1] == [base]
        elif cb is not None and _refers_to(cb, commit) and isinstance(cb, (ast.Name, ast.Attribute)):
            # a zero-argument closure of the checkpointing function: its free batch variable is this function's batch
            okcb = not cparams and commit.parent is ce and base == D
        if not okcb:
            return False, 'the callback (%s) does not commit the batch it was created for' % (src(cb) if cb is not None else None)
        if loop is None or src(loop) != 'self.loop':
            return False, 'the RefCounter is not bound to self.loop'
        if 0 not in r.awaited:
            return False, 'the checkpointing function does not await the emission'
    return True, ''


def check_commit_via_ref(ctx, R):
    cls, _ = _fkb(ctx)
    ccon = cls.module.name + '.' + cls.name
    sites = _commit_fn(cls)
    cfns = {f.fq: f for f, _ in sites}
    if len(cfns) != 1:
        R.ob('COMMIT-ONLY-VIA-REF', ccon, 'commit-sites', False,
             'consumer.commit must be called in exactly one function of the class (found %s)' % sorted(f.qual for f in cfns.values()),
             '%s:%d' % (cls.file, cls.node.lineno))
        return
    commit = list(cfns.values())[0]
    R.ob('COMMIT-ONLY-VIA-REF', ccon, 'commit-sites', len(sites) == 1, 'consumer.commit is called %d times' % len(sites),
         ctx.where(commit, sites[0][1].lineno))
    rcs = _refcounter_fn(cls)
    if len(rcs) != 1:
        R.ob('COMMIT-ONLY-VIA-REF', ccon, 'refcounter', False, 'expected exactly one RefCounter(...) in the class, found %d' % len(rcs),
             '%s:%d' % (cls.file, cls.node.lineno))
        return
    ce, rc = rcs[0]
    # every reference to the commit function is inside the cb= of that RefCounter
    refs = []
    for f in scope(cls):
        for n in own_nodes(f.node):
            if (isinstance(n, ast.Name) and n.id == commit.name and commit.owner is None and isinstance(n.ctx, ast.Load)) or \
                    (isinstance(n, ast.Attribute) and isinstance(n.value, ast.Name) and n.value.id == 'self' and n.attr == commit.name
                     and commit.owner is not None):
                refs.append((f, n))
        # lambdas are not own_nodes' children boundaries for Name search: walk them too
        for lam in [x for x in own_nodes(f.node) if isinstance(x, ast.Lambda)]:
            for n in ast.walk(lam):
                if (isinstance(n, ast.Name) and n.id == commit.name and commit.owner is None) or \
                        (isinstance(n, ast.Attribute) and isinstance(n.value, ast.Name) and n.value.id == 'self' and n.attr == commit.name
                         and commit.owner is not None):
                    refs.append((f, n))
    refs = list({id(n): (f, n) for f, n in refs}.values())
    cb = next((k.value for k in rc.keywords if k.arg == 'cb'), None)
    loop = next((k.value for k in rc.keywords if k.arg == 'loop'), None)
    okref, detail = True, ''
    in_cb = cb is not None and refs and all(any(n is x for x in ast.walk(cb)) for _, n in refs)
    if not in_cb:
        okref, detail = False, 'the commit function is referenced outside the cb= of the RefCounter'
    else:
        okref, detail = _checkpoint_form(ctx, cls, ce, commit)
    R.ob('COMMIT-ONLY-VIA-REF', ctx.construct(ce), 'refcounter', okref, detail, ctx.where(ce, ce.node.lineno))
    # every batch handed out goes through the checkpointing function
    okloop, where = False, None
    for f in scope(cls):
        for l in own_nodes(f.node):
            if not isinstance(l, ast.For) or not isinstance(l.target, ast.Name):
                continue
            var = l.target.id
            for c in ast.walk(l):
                if isinstance(c, ast.Call) and _attr_call(c, 'add_callback') and len(c.args) == 2 and _refers_to(c.args[0], ce) \
                        and src(c.args[1]) == var:
                    okloop, where = True, (f, l)
                if isinstance(c, ast.Call) and _refers_to(c.func, ce) and [src(a) for a in c.args] == [var]:
                    okloop, where = True, (f, l)
    R.ob('COMMIT-ONLY-VIA-REF', ccon, 'every-batch-checkpointed', okloop,
         'the batches handed out by a poll are not each given to the checkpointing function',
         ctx.where(where[0], where[1].lineno) if where else '%s:%d' % (cls.file, cls.node.lineno))


def _tuple_index(n):
    """(base expression, position) when the symbolic value n is element `position` of a tuple `base`:
    base[k], FIRST(base), REST(base)[k] = base[k + 1], base[j:][k] = base[j + k]"""
    def compose(inner, k):
        if isinstance(inner, ast.Call) and isinstance(inner.func, ast.Name) and inner.func.id == 'REST' and len(inner.args) == 1:
            return compose(inner.args[0], k + 1)
        if isinstance(inner, ast.Subscript) and isinstance(inner.slice, ast.Slice) and inner.slice.upper is None \
                and inner.slice.step is None and isinstance(inner.slice.lower, ast.Constant) and isinstance(inner.slice.lower.value, int) \
                and inner.slice.lower.value >= 0:
            return compose(inner.value, k + inner.slice.lower.value)
        return inner, k
    if isinstance(n, ast.Call) and isinstance(n.func, ast.Name) and n.func.id == 'FIRST' and len(n.args) == 1:
        return compose(n.args[0], 0)
    if isinstance(n, ast.Subscript) and isinstance(n.slice, ast.Constant) and isinstance(n.slice.value, int) and n.slice.value >= 0:
        return compose(n.value, n.slice.value)
    return None


def commit_target(ctx, cls, commit):
    """what the commit function commits, on its symbolic normal form: (batch name, detail) - the batch variable B when every
    path calls consumer.commit(offsets=[TopicPartition(B[1], B[2], B[5] + 1)]), else (None, why not)"""
    from ..symexpr import SymEval
    recs = [r for r in SymEval(ctx.model, cls).run(commit) if not r.raised]
    if not recs:
        return None, 'the commit function has no completing path'
    base = None
    for r in recs:
        cms = [c for c, _s, _l in r.calls if isinstance(c, ast.Call) and _attr_call(c, 'commit') and 'consumer' in src(c.func.value)]
        if len(cms) != 1:
            return None, 'a path of the commit function calls consumer.commit %d times' % len(cms)
        off = next((k.value for k in cms[0].keywords if k.arg == 'offsets'), None)
        if not (isinstance(off, (ast.List, ast.Tuple)) and len(off.elts) == 1 and isinstance(off.elts[0], ast.Call)
                and src(off.elts[0].func).endswith('TopicPartition') and len(off.elts[0].args) == 3 and not off.elts[0].keywords):
            return None, 'commit() is not given offsets=[TopicPartition(topic, partition, offset)] (found %s)' % (src(off) if off is not None else None)
        a = off.elts[0].args
        t0, t1 = _tuple_index(a[0]), _tuple_index(a[1])
        t2 = None
        if isinstance(a[2], ast.BinOp) and isinstance(a[2].op, ast.Add):
            for x, y in ((a[2].left, a[2].right), (a[2].right, a[2].left)):
                if isinstance(y, ast.Constant) and y.value == 1 and _tuple_index(x):
                    t2 = _tuple_index(x)
        shown = 'TopicPartition(%s)' % ', '.join(src(x) for x in a)
        if not (t0 and t1 and t2):
            return None, 'commit builds %s; expected (batch[1], batch[2], batch[5] + 1): topic, partition, last offset + 1' % shown
        if (t0[1], t1[1], t2[1]) != (1, 2, 5) or len({src(t0[0]), src(t1[0]), src(t2[0])}) != 1 or not isinstance(t0[0], ast.Name):
            return None, 'commit builds %s; expected (batch[1], batch[2], batch[5] + 1): topic, partition, last offset + 1' % shown
        if base not in (None, t0[0].id):
            return None, 'the paths of the commit function commit different batches'
        base = t0[0].id
    return base, ''


def check_tuple_layout(ctx, R):
    """the 6-tuple is read off the let-normal form of the planning loop, the commit off the commit function's normal form,
    the unpacking function off from_kafka_batched's return values: names, temporaries and helper extraction are transparent"""
    from ..symexpr import SymEval
    M = ctx.model
    cls, _ = _fkb(ctx)
    F, loop, recs = planning_iteration(ctx, cls)
    con = ctx.construct(F)
    gmb = M.function('streamz.sources', 'get_message_batch')
    params = gmb.params()
    part = loop.target.id
    role = {'self.consumer_params': 'kafka_params', 'self.topic': 'topic', part: 'partition', 'self.keys': 'keys'}
    bad, n = None, 0
    for r in recs:
        K = _Canon(r, part)
        for apos, tup in _batch_appends(r):
            n += 1
            got = []
            fs = K.facts(apos)
            for i, e in enumerate(tup.elts):
                t = src(e).replace(' ', '')
                if i < 4:
                    got.append(role.get(t, '?' + t))
                elif i == 4:
                    got.append('low' if _start_ok(K, K(e), fs) else '?' + K(e))
                else:
                    if isinstance(e, ast.Name) and e.id[:1] == 'C' and e.id[1:].isdigit():
                        e = r.calls[int(e.id[1:])][0]
                    last = isinstance(e, ast.BinOp) and isinstance(e.op, ast.Sub) and isinstance(e.right, ast.Constant) and e.right.value == 1 \
                        and _end_ok(K(tup.elts[4]), K(e.left), fs)[0]
                    got.append('high' if last else '?' + K(e))
            if got != params[:6] and bad is None:
                bad = got
    if n == 0:
        raise AnalysisError('FromKafkaBatched: no path of the planning loop appends a 6-tuple (unrecognised spelling)')
    R.ob('TUPLE-LAYOUT', con, 'tuple-vs-get_message_batch', bad is None,
         'batch tuple roles %s do not match get_message_batch%s (last component: the inclusive last offset end - 1)' % (bad, tuple(params)),
         ctx.where(F, loop.lineno), None, n)
    cudf = M.function('streamz.sources', 'get_message_batch_cudf', required=False)
    if cudf is not None:
        R.ob('TUPLE-LAYOUT', ctx.construct(cudf), 'same-signature', cudf.params()[:6] == params[:6],
             'get_message_batch_cudf%s differs from get_message_batch%s' % (tuple(cudf.params()), tuple(params)),
             ctx.where(cudf, cudf.node.lineno))
    fkb = M.function('streamz.sources', 'from_kafka_batched')
    rets = [r.ret for r in SymEval(M, None).run(fkb) if not r.raised]
    oksm = bool(rets) and all(isinstance(v, ast.Call) and _attr_call(v, 'starmap') and len(v.args) == 1 and not v.keywords
                              and src(v.args[0]) in ('get_message_batch', 'get_message_batch_cudf') for v in rets)
    R.ob('TUPLE-LAYOUT', ctx.construct(fkb), 'starmap', oksm, 'the batch tuples are not unpacked into get_message_batch via starmap '
         '(from_kafka_batched returns %s)' % sorted({src(v)[-60:] if v is not None else 'None' for v in rets})[:2],
         ctx.where(fkb, fkb.node.lineno), None, len(rets))
    sites = _commit_fn(cls)
    if not sites:
        raise AnalysisError('FromKafkaBatched: no consumer.commit call found')
    commit = sites[0][0]
    base, detail = commit_target(ctx, cls, commit)
    R.ob('TUPLE-LAYOUT', ctx.construct(commit), 'unpack', base is not None, detail, ctx.where(commit, commit.node.lineno))
    cm = sites[0][1]
    R.ob('TUPLE-LAYOUT', ctx.construct(commit), 'commit-offsets', any(k.arg == 'offsets' for k in cm.keywords),
         'commit() is not given offsets=[...]', ctx.where(commit, cm.lineno))


# ----------------------------------------------------------------------------- the planning loop on its let-normal form
_ITER_CACHE = {}


def planning_iteration(ctx, cls):
    """(function, loop, records): one iteration of the per-partition planning loop - the `for` loop whose body asks the consumer
    for the watermarks - evaluated symbolically on its own (let-normal form: every call result is a symbol C<k>), wherever
    the loop lives (poll_kafka or a helper method) and whatever its locals are called."""
    import copy
    from ..model import Func
    from ..symexpr import SymEval
    key = id(ctx.model)
    if key in _ITER_CACHE and _ITER_CACHE[key][0] is ctx.model:
        return _ITER_CACHE[key][1]
    found = []
    for f in scope(cls):
        for l in own_nodes(f.node):
            if isinstance(l, ast.For) and any(isinstance(x, ast.Call) and _attr_call(x, 'get_watermark_offsets')
                                              for s_ in l.body for x in ast.walk(s_)):
                inner = [m for m in ast.walk(l) if m is not l and isinstance(m, ast.For) and any(
                    isinstance(x, ast.Call) and _attr_call(x, 'get_watermark_offsets') for s_ in m.body for x in ast.walk(s_))]
                if not inner:
                    found.append((f, l))
    if len(found) != 1:
        raise AnalysisError('FromKafkaBatched: expected exactly one loop asking for get_watermark_offsets, found %d '
                            '(unrecognised spelling)' % len(found))
    F, loop = found[0]
    if not isinstance(loop.target, ast.Name):
        raise AnalysisError('FromKafkaBatched: the planning loop does not iterate a plain partition variable')
    node = ast.FunctionDef(name='_iteration', args=ast.arguments(
        posonlyargs=[], args=[ast.arg(arg='self'), ast.arg(arg=loop.target.id)], kwonlyargs=[], kw_defaults=[], defaults=[],
        vararg=None, kwarg=None), body=copy.deepcopy(loop.body), decorator_list=[], lineno=loop.lineno, col_offset=0,
        end_lineno=loop.end_lineno)
    ast.fix_missing_locations(node)
    node.lineno = loop.lineno
    fn = Func(F.module, F.qual + '.<iteration>', node, cls=cls, parent=F)
    recs = [r for r in SymEval(ctx.model, cls, name_calls=True).run(fn) if not r.raised]
    _ITER_CACHE.clear()
    _ITER_CACHE[key] = (ctx.model, (F, loop, recs))
    return F, loop, recs


def _add(a, b):
    return '(' + '+'.join(sorted([a, b])) + ')'


class _Canon:
    """role-normalised canonical text of a symbolic value of one record: pure max/min results are expanded, commutative
    operands sorted, comparisons oriented as < / <=, and LOW / HIGH / CURSOR / MAX stand for the watermarks, the cursor
    self.positions[partition] and self.max_batch_size"""

    def __init__(self, r, part):
        self.r = r
        self.wk = None
        for k, (c, _s, _l) in enumerate(r.calls):
            if isinstance(c, ast.Call) and _attr_call(c, 'get_watermark_offsets'):
                self.wk = k
        self.roles = {'self.positions[%s]' % part: 'CURSOR', 'self.max_batch_size': 'MAX'}
        if self.wk is not None:
            self.roles['FIRST(C%d)' % self.wk] = 'LOW'
            self.roles['C%d[0]' % self.wk] = 'LOW'
            self.roles['C%d[1]' % self.wk] = 'HIGH'
            self.roles['LAST(C%d)' % self.wk] = 'HIGH'

    def __call__(self, n):
        if n is None:
            return 'None'
        t = src(n).replace(' ', '')
        if t in self.roles:
            return self.roles[t]
        if isinstance(n, ast.Name) and n.id[:1] == 'C' and n.id[1:].isdigit() and int(n.id[1:]) < len(self.r.calls):
            c = self.r.calls[int(n.id[1:])][0]
            if isinstance(c, ast.Call) and isinstance(c.func, ast.Name) and c.func.id in ('max', 'min', 'int'):
                return self(c)
            return n.id
        if isinstance(n, ast.Call) and isinstance(n.func, ast.Name) and n.func.id in ('max', 'min') and not n.keywords:
            args = n.args
            if len(args) == 1 and isinstance(args[0], (ast.Tuple, ast.List)):
                args = args[0].elts
            return '%s(%s)' % (n.func.id, ','.join(sorted(self(a) for a in args)))
        if isinstance(n, ast.BinOp) and isinstance(n.op, ast.Add):
            return _add(self(n.left), self(n.right))
        if isinstance(n, ast.BinOp) and isinstance(n.op, ast.Sub):
            return '(%s-%s)' % (self(n.left), self(n.right))
        if isinstance(n, ast.Compare) and len(n.ops) == 1:
            a, b, op = self(n.left), self(n.comparators[0]), n.ops[0]
            if isinstance(op, ast.Gt):
                return '%s<%s' % (b, a)
            if isinstance(op, ast.GtE):
                return '%s<=%s' % (b, a)
            if isinstance(op, ast.Lt):
                return '%s<%s' % (a, b)
            if isinstance(op, ast.LtE):
                return '%s<=%s' % (a, b)
            if isinstance(op, ast.Eq):
                return '=='.join(sorted([a, b]))
            return t
        if isinstance(n, ast.Subscript):
            return '%s[%s]' % (self(n.value), self(n.slice))
        if isinstance(n, ast.Attribute):
            return '%s.%s' % (self(n.value), n.attr)
        if isinstance(n, ast.Tuple):
            return '(%s)' % ','.join(self(e) for e in n.elts)
        return t

    def fact(self, text, outcome):
        """positive canonical form of a decided test"""
        try:
            n = ast.parse(text, mode='eval').body
        except SyntaxError:
            return None
        c = self(n)
        if outcome:
            return c
        if isinstance(n, ast.Compare) and len(n.ops) == 1 and isinstance(n.ops[0], (ast.Gt, ast.GtE, ast.Lt, ast.LtE)):
            m = c.split('<=') if '<=' in c else c.split('<')
            if len(m) == 2:
                return '%s<%s' % (m[1], m[0]) if '<=' in c else '%s<=%s' % (m[1], m[0])
        return 'not ' + c

    def facts(self, upto):
        from .delivery import _conjuncts
        out = set()
        for kind, k in self.r.order[:upto]:
            if kind == 'cond':
                for t, o in _conjuncts(*self.r.conds[k]):
                    f = self.fact(t, o)
                    if f:
                        out.add(f)
        return out


def _batch_appends(r):
    """(position in the order, tuple node) of every 6-tuple appended on the record"""
    out = []
    for j, (kind, k) in enumerate(r.order):
        if kind != 'call':
            continue
        c = r.calls[k][0]
        if isinstance(c, ast.Call) and _attr_call(c, 'append') and len(c.args) == 1 and isinstance(c.args[0], ast.Tuple) \
                and len(c.args[0].elts) == 6:
            out.append((j, c.args[0]))
    return out


def _start_ok(K, s, facts):
    """is `s` the first offset max(cursor, low watermark) - spelled with max() or path by path"""
    if s == 'max(CURSOR,LOW)':
        return True
    if s == 'CURSOR':
        return bool(facts & {'LOW<=CURSOR', 'LOW<CURSOR'})
    if s == 'LOW':
        return bool(facts & {'CURSOR<=LOW', 'CURSOR<LOW'})
    return False


def _end_ok(s, e, facts):
    """is `e` the exclusive end min(high watermark, start + max_batch_size) - spelled with min() or path by path"""
    T = _add(s, 'MAX')
    if e == 'min(%s)' % ','.join(sorted(['HIGH', T])):
        return True, ''
    if e == 'HIGH':
        if facts & {'HIGH<=%s' % T, 'HIGH<%s' % T}:
            return True, ''
        return False, 'the end of the range is the high watermark although it was not found <= start + max_batch_size (no clamp)'
    if e == T:
        if facts & {'%s<HIGH' % T, '%s<=HIGH' % T}:
            return True, ''
        return False, 'the end of the range is start + max_batch_size although the high watermark was not found beyond it'
    return False, 'the end of the range is %s; expected min(high watermark, start + max_batch_size)' % e


def _is_seed(K, j, c):
    """`auto.offset.reset = latest`: a cursor that is still unset (-1001) starts at the high watermark (the test is only good
    for the first store of the path: after it the cursor is no longer what was tested)"""
    return K(c.value) == 'HIGH' and '-1001==CURSOR' in K.facts(j)


def check_offset_algebra(ctx, R):
    """decided on the let-normal form of one iteration of the planning loop: names, temporaries, guard clauses (`continue`),
    min()/max() versus if-clamps and helper methods are transparent"""
    cls, _ = _fkb(ctx)
    F, loop, recs = planning_iteration(ctx, cls)
    con = ctx.construct(F)
    part = loop.target.id
    bad = {}
    n_app = n_noapp = 0

    def fail(tok, detail, r):
        bad.setdefault(tok, '%s  [path: %s]' % (detail, '; '.join('%s is %s' % c for c in r.conds if not c[0].startswith('<'))))

    for r in recs:
        K = _Canon(r, part)
        apps = _batch_appends(r)
        cursor_stores = [(j, r.calls[k][0]) for j, (kind, k) in enumerate(r.order) if kind == 'call'
                         and isinstance(r.calls[k][0], ast.Assign) and K(r.calls[k][0].targets[0]) == 'CURSOR']
        other_cursor = [j for j, (kind, k) in enumerate(r.order) if kind == 'call' and isinstance(r.calls[k][0], ast.Call)
                        and isinstance(r.calls[k][0].func, ast.Attribute) and 'self.positions' in src(r.calls[k][0].func.value)
                        and r.calls[k][0].func.attr in ('__setitem__', 'insert', 'pop', 'clear', 'append', 'extend')]
        if other_cursor:
            fail('cursor-advance', 'the cursor list is changed by a method call inside the planning loop', r)
        if K.wk is None:
            if apps or cursor_stores:
                fail('order', 'a range is handed out / the cursor moved on a path that never obtained the watermarks', r)
            continue
        wpos = next(j for j, (kind, k) in enumerate(r.order) if kind == 'call' and k == K.wk)
        if len(apps) > 1:
            fail('range', 'two ranges are handed out for one partition in one pass', r)
            continue
        if not apps:
            n_noapp += 1
            # the cursor may only be seeded (to the high watermark, when it is still unset); it is never advanced
            for n_, (j, c) in enumerate(cursor_stores):
                if not (n_ == 0 and _is_seed(K, j, c)):
                    fail('cursor-advance', 'the cursor is set to %s on a path that hands out no range' % K(c.value), r)
            continue
        n_app += 1
        apos, tup = apps[0]
        fs = K.facts(apos)
        s = K(tup.elts[4])
        e5 = tup.elts[5]
        if isinstance(e5, ast.Name) and e5.id[:1] == 'C' and e5.id[1:].isdigit():
            e5 = r.calls[int(e5.id[1:])][0]
        if not _start_ok(K, s, fs):
            fail('lowest', 'the first offset of a batch is %s, not max(cursor, low watermark)' % s, r)
        if not (isinstance(e5, ast.BinOp) and isinstance(e5.op, ast.Sub) and isinstance(e5.right, ast.Constant) and e5.right.value == 1):
            fail('range', 'the range handed out is [%s, %s], not [start, end - 1]' % (s, K(e5)), r)
            continue
        e = K(e5.left)
        ok, why = _end_ok(s, e, fs)
        if not ok:
            fail('high', why, r)
        if ('%s<%s' % (s, e)) not in fs:
            fail('guard', 'a range [%s, %s - 1] is handed out without the strict test end > start (empty / negative ranges)' % (s, e), r)
        if wpos > apos:
            fail('order', 'the range is handed out before the watermarks were obtained', r)
        # the cursor: seeded before the start is computed (only when unset), advanced to the exclusive end exactly once
        adv = [(j, K(c.value)) for n_, (j, c) in enumerate(cursor_stores) if not (n_ == 0 and _is_seed(K, j, c) and j < apos)]
        if len(adv) != 1 or adv[0][1] != e:
            fail('cursor-advance', 'the cursor is not advanced exactly once to the exclusive end %s of the range handed out '
                                   '(found %s): ranges would overlap or leave gaps' % (e, [v for _, v in adv]), r)
    if n_app == 0:
        raise AnalysisError('FromKafkaBatched: no path of the planning loop appends a 6-tuple (unrecognised spelling)')
    for tok in ('lowest', 'guard', 'cursor-advance', 'range', 'high', 'order'):
        R.ob('OFFSET-ALGEBRA', con, tok, tok not in bad, bad.get(tok, ''), ctx.where(F, loop.lineno), None, n_app + n_noapp)


def check_seed(ctx, R):
    cls, _ = _fkb(ctx)
    ccon = cls.module.name + '.' + cls.name
    # the poll loop
    poll = None
    for f in scope(cls):
        for n in f.node.body:
            if isinstance(n, ast.While) and ('self.stopped' in src(n.test) or any(
                    isinstance(b_, ast.If) and 'self.stopped' in src(b_.test) for b_ in n.body)):
                poll = (f, n)       # `while not self.stopped:` or `while True: if self.stopped: break`
    if poll is None:
        raise AnalysisError('FromKafkaBatched: poll loop `while not self.stopped` not found at the top level of a method')
    PF, ploop = poll
    seed = None
    for f in scope(cls):
        for x in own_nodes(f.node):
            if isinstance(x, ast.Assign) and isinstance(x.targets[0], ast.Subscript) and self_field(x.targets[0]) == 'positions' \
                    and isinstance(x.value, ast.Attribute) and x.value.attr == 'offset' and isinstance(x.value.value, ast.Name) \
                    and src(x.targets[0].slice) == x.value.value.id + '.partition':
                seed = (f, x)
    ok, detail = seed is not None, 'positions are not seeded from consumer.committed() before the poll loop'
    if seed is not None:
        SF, asg = seed
        loop = next((l for l in own_nodes(SF.node) if isinstance(l, ast.For) and any(y is asg for y in ast.walk(l))), None)
        it = src(loop.iter) if loop is not None else None
        cdef = [x for x in own_nodes(SF.node) if isinstance(x, ast.Assign) and isinstance(x.value, ast.Call)
                and _attr_call(x.value, 'committed') and any(isinstance(t, ast.Name) and t.id == it for t in x.targets)]
        if not cdef and not (loop is not None and isinstance(loop.iter, ast.Call) and _attr_call(loop.iter, 'committed')):
            ok, detail = False, 'the seeding loop does not iterate the result of consumer.committed(...)'
        alldefs = [x for x in own_nodes(SF.node) if isinstance(x, (ast.Assign, ast.AugAssign, ast.For)) and any(
            isinstance(t, ast.Name) and t.id == it for t in (x.targets if isinstance(x, ast.Assign) else [x.target]))]
        other = [x for x in alldefs if x not in cdef]
        if ok and other:
            ok, detail = False, ('the seeding loop can iterate `%s` defined at line %d, which is not a result of consumer.committed(): '
                                 'positions would start from a value that is not the committed offset' % (it, other[0].lineno))
        outer = next((w for w in SF.node.body if isinstance(w, ast.While) and any(y is asg for y in ast.walk(w))), None)
        if ok and outer is not None:
            brs = [b for b in ast.walk(outer) if isinstance(b, ast.Break)]
            if not brs or any(b.lineno < asg.lineno for b in brs):
                ok, detail = False, 'the retry loop can be left before positions are seeded'
            if not (isinstance(outer.test, ast.Constant) and outer.test.value is True):
                ok, detail = False, 'the retry loop may be skipped'
        if ok:
            if SF is PF:
                anchor = outer if outer is not None else loop
                if anchor is None or anchor.lineno >= ploop.lineno:
                    ok, detail = False, 'the seeding does not precede the poll loop'
            else:
                # seeding lives in a helper: the poll function must call it, unconditionally, before the loop
                calls = [s_ for s_ in PF.node.body if s_.lineno < ploop.lineno and any(
                    isinstance(c, ast.Call) and _refers_to(c.func, SF) for c in ast.walk(s_))
                    and isinstance(s_, (ast.Expr, ast.Assign))]
                if not calls:
                    ok, detail = False, 'the helper that seeds the positions is not called before the poll loop'
    R.ob('SEED-FROM-COMMITTED', ccon, 'positions', ok, detail,
         ctx.where(seed[0], seed[1].lineno) if seed else ctx.where(PF, ploop.lineno))
    resets = []
    if seed is not None:
        for f in scope(cls):
            for n in own_nodes(f.node):
                if isinstance(n, ast.Assign) and src(n.targets[0]) == 'self.positions':
                    after = (f is seed[0] and n.lineno > seed[1].lineno) or (f is PF and any(x is n for x in ast.walk(ploop)))
                    if after:
                        resets.append((f, n))
    R.ob('SEED-FROM-COMMITTED', ccon, 'no-reset', not resets, 'self.positions is re-initialised after being seeded',
         ctx.where(resets[0][0], resets[0][1].lineno) if resets else None)
    # who may move a cursor once polling has begun: only the planning loop (OFFSET-ALGEBRA judges those stores). Any other
    # item store into self.positions inside the poll loop - e.g. re-reading the committed offsets when partitions are added -
    # moves cursors of partitions that may have ranges in flight back: those ranges are handed out again
    try:
        PLF, plan_loop, _recs = planning_iteration(ctx, cls)
    except AnalysisError:
        PLF, plan_loop = None, None
    strays = []
    for f in scope(cls):
        for n in own_nodes(f.node):
            tg = []
            if isinstance(n, ast.Assign):
                tg = n.targets
            elif isinstance(n, ast.AugAssign):
                tg = [n.target]
            for t in tg:
                for t_ in (t.elts if isinstance(t, (ast.Tuple, ast.List)) else [t]):
                    if isinstance(t_, ast.Subscript) and self_field(t_) == 'positions':
                        in_plan = plan_loop is not None and f is PLF and any(x is n for x in ast.walk(plan_loop))
                        in_poll = f is PF and any(x is n for x in ast.walk(ploop))
                        is_seed = seed is not None and n is seed[1]
                        if in_plan or (is_seed and not in_poll):
                            continue
                        if in_poll or (f is not PF and f is not (seed[0] if seed else None) and f is not PLF):
                            strays.append((f, n))
    R.ob('SEED-FROM-COMMITTED', ccon, 'cursor-moved-only-by-planning', not strays,
         'a cursor is written outside the planning loop after polling has begun (%s): a partition with ranges in flight is moved '
         'back to its committed offset and the same offsets are handed out again' % (src(strays[0][1])[:70] if strays else ''),
         ctx.where(strays[0][0], strays[0][1].lineno) if strays else None)


def check_read_range(ctx, R):
    M = ctx.model
    fn = M.function('streamz.sources', 'get_message_batch')
    con = ctx.construct(fn)
    defs = local_defs(fn.node)
    tp = [n for n in own_nodes(fn.node) if isinstance(n, ast.Call) and src(n.func).endswith('TopicPartition')]
    ok = bool(tp) and [src(a) for a in tp[0].args] == ['topic', 'partition', 'low']
    assigned = any(isinstance(n, ast.Call) and _attr_call(n, 'assign') for n in own_nodes(fn.node))
    R.ob('READ-RANGE', con, 'assign-at-low', ok and assigned, 'the consumer is not assigned at (topic, partition, low)',
         ctx.where(fn, tp[0].lineno if tp else fn.node.lineno))
    rets = [n for n in own_nodes(fn.node) if isinstance(n, ast.Return)]
    out = src(rets[0].value) if rets and isinstance(rets[0].value, ast.Name) else None
    keep = stop = False
    # the read loop itself, or a private module-level helper it was moved into (its parameters renamed back to the arguments)
    import copy as _copy
    bodies = [(fn.node, defs)]
    for c in own_nodes(fn.node):
        if isinstance(c, ast.Call) and isinstance(c.func, ast.Name) and c.func.id.startswith('_'):
            h = M.function('streamz.sources', c.func.id, required=False)
            if h is not None and not any(isinstance(a_, ast.Starred) for a_ in c.args):
                ren = {p_: a_.id for p_, a_ in zip(h.params(), c.args) if isinstance(a_, ast.Name)}

                class Ren(ast.NodeTransformer):
                    def visit_Name(self_, n_):
                        return ast.copy_location(ast.Name(id=ren.get(n_.id, n_.id), ctx=n_.ctx), n_)
                hn = Ren().visit(_copy.deepcopy(h.node))
                bodies.append((hn, local_defs(hn)))
    for body, defs_ in bodies:
        for n in own_nodes(body):
            if isinstance(n, ast.If):
                t = norm(n.test, defs_).replace(' ', '')
                appends = any(isinstance(x, ast.Call) and _attr_call(x, 'append') and src(x.func.value) == out for x in ast.walk(n))
                if t in ('msg.offset()<=high',) and appends:
                    keep = True
                if t in ('high<=msg.offset()',) and any(isinstance(x, (ast.Break, ast.Return)) for x in n.body):
                    stop = True
    R.ob('READ-RANGE', con, 'keep-upto-high', keep, 'messages are not kept exactly when offset <= high', ctx.where(fn, fn.node.lineno))
    R.ob('READ-RANGE', con, 'stop-at-high', stop, 'the read loop does not stop once offset >= high', ctx.where(fn, fn.node.lineno))
    fin = [n for n in own_nodes(fn.node) if isinstance(n, ast.Try) and any(
        isinstance(x, ast.Call) and src(x.func) == 'consumer.close' for s_ in n.finalbody for x in ast.walk(s_))]
    R.ob('READ-RANGE', con, 'close-in-finally', bool(fin), 'the per-batch consumer is not closed in a finally clause',
         ctx.where(fn, fn.node.lineno))
    inits = [n for n in own_nodes(fn.node) if isinstance(n, ast.Assign) and isinstance(n.targets[0], ast.Name)
             and n.targets[0].id == out and isinstance(n.value, ast.List) and not n.value.elts]
    R.ob('READ-RANGE', con, 'returns-out', bool(rets) and out is not None and all(src(r.value) == out for r in rets) and len(inits) == 1,
         'the collected messages are not what is returned', ctx.where(fn, fn.node.lineno))
