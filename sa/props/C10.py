"""C10 metadata travels with exactly the data it describes (structural clauses)"""
from ..rules import delivery, flow, failure
from .common import declare

RULES = ['META-PASS', 'META-FLAT', 'PAIRED-BUFFER', 'META-MEMBERS', 'FRESH-READ', 'STATE-PER-INSTANCE', 'FIFO-END', 'SWAP-ATOMIC', 'FANOUT', 'SHARED-METADATA', 'FAILED-VALUE-EMITTED']
FLOORS = {'META-PASS': 8, 'META-FLAT': 20, 'PAIRED-BUFFER': 12, 'SHARED-METADATA': 20, 'FANOUT': 4, 'FAILED-VALUE-EMITTED': 3}

META = {
    'level': "Static metadata-flow analysis: nodes that buffer no metadata pass the unmodified metadata parameter (one-to-many "
             "nodes on the last piece only) on every path (META-PASS); every metadata argument of _emit evaluates to a flat list "
             "in the shape lattice (META-FLAT); element buffers and their metadata twins (discovered by taint) are mutated in "
             "lock-step and in the same member order (PAIRED-BUFFER). Dictionary contents are not decided.",
    'note': "Trusted: shape-lattice transfer functions; pair exception table (sliding_window maxlen twin, latest slot) printed "
            "in the evidence; the metadata parameter is a list of dicts as documented.",
    'technique': "static analysis: taint + shape lattice on enumerated paths (META-PASS, META-FLAT, PAIRED-BUFFER)",
}


def run(ctx, R):
    R.explanation = 'Metadata flow through every node class of streamz.core, on every enumerated path.'
    R.not_decided = ['dictionary contents of metadata entries']
    declare(R, {**flow.RULES, **delivery.RULES, **failure.RULES}, RULES, FLOORS)
    core = [c for c in ctx.model.nodes if c.module.name == 'streamz.core']
    R.run(flow.check_meta_pass, ctx, R, core)
    R.run(flow.check_meta_flat, ctx, R, core)
    R.run(delivery.check_paired_buffer, ctx, R, core)
    R.run(delivery.check_fresh_read, ctx, R, core)
    # a metadata buffer shared between instances, or taken from the wrong end, delivers metadata with the wrong data
    R.run(delivery.check_state_per_instance, ctx, R, core)
    R.run(delivery.check_fifo_end, ctx, R, core)
    # a metadata buffer that is reset only after the emission loses / misattributes the metadata of elements that arrive meanwhile
    R.run(delivery.check_swap_atomic, ctx, R, core)
    # the list every sibling receives is one object: nobody edits it
    R.run(flow.check_shared_metadata, ctx, R, [ctx.model.stream] + core)
    # a result whose computation failed is not sent on with the failed element's metadata
    R.run(failure.check_failed_value_emitted, ctx, R, core)
    # every sibling receives the metadata of the element it receives (Stream._emit's delivery loop)
    R.run(delivery.check_fanout, ctx, R)


META['level'] += ' FRESH-READ: the metadata (and data) an emission is built from is read after the last store into its container on the path.'
META['level'] += ' SHARED-METADATA: the metadata list handed to update() - one object shared by all siblings and the emitter - is never edited in place, directly or through a field / slot it was stored in as it is. FAILED-VALUE-EMITTED: after a handler absorbed the exception of the statement that binds a value, no emission of that iteration uses it. FANOUT: the delivery loop of _emit passes and releases the metadata this call received (no field re-read: re-entrant emissions replace current_metadata).'
