"""Loop / mode binding rules (DESIGN 4.9)."""
import ast

from ..model import AnalysisError, own_nodes, src, self_field, Class
from ..paths import fmt_path
from .holds import is_failure

RULES = {
    'MODE-PRESERVED': 'in Stream.__init__ a constant mode is written after the caller\'s asynchronous argument was applied only '
                      'under the test "self.asynchronous is None"',
    'CONFLICT-RAISES': '_inform_loop/_inform_asynchronous raise when already bound to a different value; otherwise they bind and '
                       'recurse over upstreams and downstreams',
    'INHERIT': '_set_loop(None)/_set_asynchronous(None) take the value of an upstream; an explicit value goes through _inform_*',
    'LOOP-USE-ENSURES': 'every node class whose methods dereference self.loop or sleep in a coroutine passes ensure_io_loop=True to Stream.__init__ on '
                        'its constructor chain (MRO-resolved)',
    'CTOR-CHAINS': 'every Stream subclass constructor reaches Stream.__init__ exactly once on every path',
    'THREAD-SITE': 'threading.Thread and IOLoop() are constructed only in get_io_loop, on paths where its argument is falsy, and at '
                   'most once (shared loop)',
    'SCHEDULE-ON-SELF-LOOP': 'node classes schedule only through self.loop, never IOLoop.current()/asyncio.get_event_loop() directly',
    'OPTIONS-REACH': 'loop= / asynchronous= given to a node constructor (i.e. to the fluent API method) reach Stream.__init__ along the '
                     'constructor chain - where a conflict with the pipeline raises - except for the classes of OPTIONS_STAY_OK whose '
                     'keywords belong to the user function',
    'LOOP-FALLBACK': 'Stream.__init__ binds get_io_loop(self.asynchronous) exactly when no loop is known and the mode is decided',
}

LOOP_ATTRS = {'add_callback', 'call_later', 'call_at', 'asyncio_loop', 'spawn_callback', 'add_timeout', 'run_in_executor',
              'add_future', 'time'}


def check_mode_preserved(ctx, R):
    """Stream.__init__ on its symbolic normal form (named intermediates, conditional expressions and test order are
    transparent): the first mode written is the caller's argument; a constant mode is written only under
    "ensure_io_loop and no loop and self.asynchronous is None" evaluated after the inheritance step; get_io_loop(self.asynchronous)
    is bound through _set_loop exactly under "self.loop is None and self.asynchronous is not None"."""
    from ..symexpr import SymEval
    from .delivery import _conjuncts
    M = ctx.model
    fn = M.stream.methods['__init__']
    con = ctx.construct(fn)
    hooks = ('_set_asynchronous', '_set_loop', '_inform_loop', '_inform_asynchronous')
    recs = [r for r in SymEval(M, M.stream, no_splice=hooks).run(fn) if not r.raised]
    if not recs:
        raise AnalysisError('Stream.__init__ has no completing path')

    def selfcall(c, name):
        return isinstance(c, ast.Call) and isinstance(c.func, ast.Attribute) and c.func.attr == name \
            and isinstance(c.func.value, ast.Name) and c.func.value.id == 'self'

    def facts(r, lo, hi):
        """tests decided between positions lo and hi of the order, split into conjuncts known true / false"""
        out = set()
        for kind, k in r.order[lo:hi]:
            if kind == 'cond':
                for t, o in _conjuncts(*r.conds[k]):
                    out.add((t.replace(' ', '').replace('(', '').replace(')', ''), bool(o)))
        return out

    def has(fs, *alts):
        return any(a in fs for a in alts)

    bad = fall_bad = fb = None
    n = nfall = 0
    for r in recs:
        sets = [j for j, (kind, k) in enumerate(r.order) if kind == 'call' and selfcall(r.calls[k][0], '_set_asynchronous')]
        if not sets:
            raise AnalysisError('Stream.__init__ no longer calls _set_asynchronous')
        first = sets[0]
        a0 = r.calls[r.order[first][1]][0]
        if not (len(a0.args) == 1 and not a0.keywords and src(a0.args[0]) == 'asynchronous'):
            bad = 'the first mode applied is %s, not the asynchronous argument' % src(a0)
            continue
        trace = '; '.join('%s is %s' % c for c in r.conds)
        for j in sets[1:]:
            n += 1
            c = r.calls[r.order[j][1]][0]
            if c.args and isinstance(c.args[0], ast.Constant):
                fs = facts(r, first, j)
                if not has(fs, ('self.asynchronousisNone', True), ('self.asynchronousisnotNone', False)):
                    bad = '%s under [%s]' % (src(c), trace)
                if not has(fs, ('ensure_io_loop', True), ('notensure_io_loop', False)):
                    fb = '%s under [%s]' % (src(c), trace)
            elif not (c.args and src(c.args[0]) == 'asynchronous'):
                bad = '%s under [%s]' % (src(c), trace)
        # direct writes of the mode field
        for j, (kind, k) in enumerate(r.order):
            if kind == 'store' and r.stores[k][0] == 'asynchronous':
                fs = facts(r, first, j) if j > first else set()
                if not has(fs, ('self.asynchronousisNone', True), ('self.asynchronousisnotNone', False)):
                    bad = 'self.asynchronous = %s under [%s]' % (src(r.stores[k][1]), trace)
        # loop fallback
        for j, (kind, k) in enumerate(r.order):
            if kind != 'call':
                continue
            c = r.calls[k][0]
            if not (isinstance(c, ast.Call) and isinstance(c.func, ast.Name) and c.func.id == 'get_io_loop'):
                continue
            nfall += 1
            okarg = len(c.args) + len(c.keywords) == 1 and src((c.args + [kw.value for kw in c.keywords])[0]) == 'self.asynchronous'
            fs = facts(r, first, j)
            cond = has(fs, ('self.loopisNone', True), ('self.loopisnotNone', False)) and \
                has(fs, ('self.asynchronousisNone', False), ('self.asynchronousisnotNone', True))
            text = src(c)
            bound = any(kind2 == 'call' and selfcall(r.calls[k2][0], '_set_loop') and len(r.calls[k2][0].args) == 1
                        and src(r.calls[k2][0].args[0]) == text for kind2, k2 in r.order[j:])
            if not (okarg and cond and bound):
                fall_bad = '%s under [%s]%s' % (text, trace, '' if bound else ' (not bound through _set_loop)')
        # the fallback must not be skipped: a path on which the mode is decided and no loop is known binds one
        fs_all = facts(r, first, len(r.order))
        if has(fs_all, ('self.loopisNone', True)) and has(fs_all, ('self.asynchronousisnotNone', True), ('self.asynchronousisNone', False)) \
                and not any(kind == 'call' and isinstance(r.calls[k][0], ast.Call) and isinstance(r.calls[k][0].func, ast.Name)
                            and r.calls[k][0].func.id == 'get_io_loop' for kind, k in r.order):
            fall_bad = 'no loop is bound under [%s]' % trace
    R.ob('MODE-PRESERVED', con, 'asynchronous', bad is None,
         'an explicit asynchronous= argument can be overwritten by a constant mode (the fallback is not conditional on '
         '"self.asynchronous is None")', ctx.where(fn, fn.node.lineno), bad, max(n, 1))
    R.ob('LOOP-FALLBACK', con, 'get_io_loop', fall_bad is None and nfall > 0,
         'the loop fallback is not `if self.loop is None and self.asynchronous is not None: self._set_loop(get_io_loop('
         'self.asynchronous))`', ctx.where(fn, fn.node.lineno), fall_bad, nfall)
    R.ob('MODE-PRESERVED', con, 'ensure_io_loop', fb is None,
         'the blocking-mode fallback is applied although ensure_io_loop was not requested', ctx.where(fn, fn.node.lineno), fb)


def _is_none_key(e, X):
    return e.kind == 'COND' and isinstance(e.a, str) and e.a.replace(' ', '') == 'self.%sisNone' % X


def _same_key(e, X, param):
    """COND comparing the bound value with the argument; returns True (means equal), False (means different) or None"""
    if e.kind != 'COND' or not isinstance(e.a, str):
        return None
    k = e.a.replace(' ', '')
    if k in ('self.%sis%s' % (X, param), '%sisself.%s' % (param, X), 'self.%s==%s' % (X, param), '%s==self.%s' % (param, X)):
        return bool(e.b)
    if k in ('self.%sisnot%s' % (X, param), 'self.%s!=%s' % (X, param), '%s!=self.%s' % (param, X), '%sisnotself.%s' % (param, X)):
        return not bool(e.b)
    return None


def check_inform(ctx, R):
    """decided on event paths (helper / generator extraction, branch order and early returns are transparent):
      _inform_X:  bound & different -> raise;  bound & same -> nothing;  unbound -> bind the argument and call _inform_X(arg)
                  on every truthy upstream and every truthy downstream, conditional on nothing else
      _set_X:     explicit value -> _inform_X(value);  None -> the X of an upstream (symbolic normal form)"""
    M = ctx.model
    for X in ('loop', 'asynchronous'):
        fn = M.stream.methods.get('_inform_' + X)
        if fn is None:
            raise AnalysisError('anchor vanished: Stream._inform_' + X)
        con = ctx.construct(fn)
        param = fn.params()[1]
        paths = list(ctx.paths(fn, M.stream))
        n_conf, bad_raise = 0, None
        bad_bind, n_bind = None, 0
        bad_rebind = None
        dirs_seen = set()
        for st, status in paths:
            evs = st.events
            none = next((e.b for e in evs if _is_none_key(e, X)), None)
            same = next((_same_key(e, X, param) for e in evs if _same_key(e, X, param) is not None), None)
            if none is None:
                raise AnalysisError('%s: a path does not test whether self.%s is bound (unrecognised spelling)' % (con, X))
            if not none:
                if any(e.kind == 'ST' and e.a == X for e in evs):
                    bad_rebind = evs
                if same is False:
                    n_conf += 1
                    if status != 'raise' or not any(e.kind == 'RAISE' for e in evs):
                        bad_raise = evs
                continue
            # unbound: bind and percolate
            n_bind += 1
            sts = [e for e in evs if e.kind == 'ST' and e.a == X]
            if not sts or not all(('p:' + param) in (e.b or ()) for e in sts):
                bad_bind = bad_bind or (evs, 'the argument is not stored in self.%s' % X)
            # iteration segments over upstreams / downstreams
            iters = [i for i, e in enumerate(evs) if e.kind == 'ITER']
            for i in iters:
                fld = (evs[i].x or {}).get('iter_field')
                if fld not in ('upstreams', 'downstreams'):
                    continue
                node = evs[i].x['node']
                end = next((j for j in range(i + 1, len(evs)) if evs[j].kind in ('ITER', 'LOOPEXIT', 'LOOPCUT')
                            and (evs[j].x or {}).get('node') is node), len(evs))
                seg = evs[i + 1:end]
                calls = [e for e in seg if e.kind == 'CALL' and e.c == '_inform_' + X
                         and ('field:' + fld) in (e.x.get('recv_tags') or ())]
                conds = [e for e in seg if e.kind == 'COND' and e.c != 'conjunct']
                other = [e for e in conds if not (('field:' + fld) in ((e.x or {}).get('tags') or ()) and isinstance(
                    (e.x or {}).get('node'), (ast.Name, ast.Compare)) and not any(
                        isinstance(y, ast.Attribute) for y in ast.walk(e.x['node'])))]
                if other:
                    bad_bind = bad_bind or (evs, 'whether a neighbour is informed depends on %s, not only on the neighbour existing'
                                            % src(other[0].x['node']))
                present = all(bool(e.b) for e in conds) if conds else True
                if present:
                    if len(calls) != 1:
                        bad_bind = bad_bind or (evs, 'an existing neighbour in self.%s is informed %d times' % (fld, len(calls)))
                    elif ('p:' + param) not in (calls[0].x.get('arg0_tags') or ()):
                        bad_bind = bad_bind or (evs, 'a neighbour is informed of something other than the argument')
                    else:
                        dirs_seen.add(fld)
                elif calls:
                    bad_bind = bad_bind or (evs, 'a missing neighbour is dereferenced')
        R.ob('CONFLICT-RAISES', con, 'raise', n_conf > 0 and bad_raise is None,
             'no raise on the branch "already bound and different": a conflicting %s would silently split the pipeline' % X,
             ctx.where(fn, fn.node.lineno), fmt_path(bad_raise) if bad_raise else None, n_conf)
        ok_bind = n_bind > 0 and bad_bind is None and dirs_seen == {'upstreams', 'downstreams'}
        R.ob('CONFLICT-RAISES', con, 'bind-and-percolate', ok_bind,
             '_inform_%s does not bind the value and percolate it to both upstreams and downstreams (%s)'
             % (X, bad_bind[1] if bad_bind else 'directions informed: %s' % sorted(dirs_seen)),
             ctx.where(fn, fn.node.lineno), fmt_path(bad_bind[0]) if bad_bind else None, n_bind)
        R.ob('CONFLICT-RAISES', con, 'no-rebind', bad_rebind is None, 'an already bound %s is overwritten' % X,
             ctx.where(fn, fn.node.lineno), fmt_path(bad_rebind) if bad_rebind else None)
        _check_inherit(ctx, R, X)


def _check_inherit(ctx, R, X):
    from ..symexpr import SymEval, nf
    M = ctx.model
    sfn = M.stream.methods.get('_set_' + X)
    if sfn is None:
        raise AnalysisError('anchor vanished: Stream._set_' + X)
    sp = sfn.params()[1]
    scon = ctx.construct(sfn)
    paths = [r for r in SymEval(M, M.stream, no_splice=('_inform_' + X,)).run(sfn) if not r.raised]
    bad = None
    inherited = False
    for r in paths:
        explicit = None
        for c, o in r.conds:
            k = c.replace(' ', '')
            if k == '%sisnotNone' % sp:
                explicit = o
            elif k == '%sisNone' % sp:
                explicit = not o
        informs = [c for c, s_, l in r.calls if nf(c).startswith('self._inform_%s(' % X)]
        if explicit is not False:       # explicit value (or not distinguished): must go through _inform_X(value)
            if explicit is True and (len(informs) != 1 or nf(informs[0]) != 'self._inform_%s(%s)' % (X, sp)):
                bad = bad or 'an explicit %s is not routed through _inform_%s(%s): no conflict check, no percolation' % (X, X, sp)
        if explicit is not True:
            if informs:
                bad = bad or '_inform_%s is called although no explicit value was given' % X
            for f, v, s_, l in r.stores:
                if f != X:
                    continue
                t = nf(v)
                if t == 'None':
                    continue
                ok = False
                if t == 'ELEM(self.upstreams).%s' % X and l and l[-1][0].replace(' ', '') == 'self.upstreams':
                    ok = True
                elif isinstance(v, ast.Call) and nf(v.func) == 'next' and v.args and isinstance(v.args[0], ast.GeneratorExp) \
                        and len(v.args[0].generators) == 1:
                    g = v.args[0].generators[0]
                    if nf(g.iter) == 'self.upstreams' and isinstance(g.target, ast.Name) \
                            and nf(v.args[0].elt) == '%s.%s' % (g.target.id, X) and (len(v.args) == 1 or nf(v.args[1]) == 'None'):
                        ok = True
                if ok:
                    inherited = True
                else:
                    bad = bad or 'without an explicit value self.%s becomes %s, which is not the %s of an upstream' % (X, src(v)[:70], X)
    if bad is None and not inherited:
        bad = '_set_%s(None) never takes the %s of an upstream' % (X, X)
    R.ob('INHERIT', scon, X, bad is None, bad or '', ctx.where(sfn, sfn.node.lineno), None, len(paths))


# ----------------------------------------------------------------------------- constructor chains
def derefs_loop(fn):
    """does the function dereference self.loop (use an attribute of it / hand it to sync) unconditionally?"""
    hits = []
    for n in own_nodes(fn.node):
        if isinstance(n, ast.Attribute) and isinstance(n.value, ast.Attribute) and self_field(n.value) == 'loop' \
                and isinstance(n.value.value, ast.Name) and n.attr in LOOP_ATTRS:
            hits.append(n)
        if isinstance(n, ast.Call) and src(n.func) == 'sync' and n.args and src(n.args[0]) == 'self.loop':
            hits.append(n)
        if isinstance(n, ast.keyword) and n.arg == 'loop' and src(n.value) == 'self.loop':
            hits.append(n.value)
        # a coroutine of the node that sleeps (gen.sleep / asyncio.sleep) only ever resumes on a running event loop: a node
        # built without one (plain Stream().rate_limit(dt), emit() called inline) would hang at its first wait
        if isinstance(n, (ast.Await, ast.Yield)) and isinstance(n.value, ast.Call) and isinstance(n.value.func, ast.Attribute) \
                and n.value.func.attr == 'sleep' and src(n.value.func.value) in ('gen', 'asyncio', 'tornado.gen'):
            hits.append(n)
    return hits


class Chain:
    def __init__(self):
        self.reaches_stream = 0
        self.ensure = None          # True / False / None (unknown)
        self.twice = False
        self.steps = []


def kwargs_sets(n, kwname):
    """keys that statement n writes into the **kwargs dict `kwname`, with their constant value (False when not a constant):
    kw[k] = v  /  kw.update(k=v, ...)  /  kw.update({k: v})  /  kw.setdefault(k, v) (reported as ('setdefault', v))"""
    out = {}
    if isinstance(n, ast.Assign) and isinstance(n.targets[0], ast.Subscript) and isinstance(n.targets[0].value, ast.Name) \
            and n.targets[0].value.id == kwname and isinstance(n.targets[0].slice, ast.Constant):
        out[n.targets[0].slice.value] = isinstance(n.value, ast.Constant) and n.value.value
    call = n.value if isinstance(n, ast.Expr) else None
    if isinstance(call, ast.Call) and isinstance(call.func, ast.Attribute) and isinstance(call.func.value, ast.Name) \
            and call.func.value.id == kwname:
        if call.func.attr == 'update':
            for k in call.keywords:
                if k.arg:
                    out[k.arg] = isinstance(k.value, ast.Constant) and k.value.value
            for a in call.args:
                if isinstance(a, ast.Dict):
                    for k, v in zip(a.keys, a.values):
                        if isinstance(k, ast.Constant):
                            out[k.value] = isinstance(v, ast.Constant) and v.value
    return out


def ctor_chain(model, cls, ctx=None):
    """follow the constructor of cls down to Stream.__init__ on the event paths (helpers, Base.__init__(self, ..), super(),
    module-level helpers that take the node are spliced; the content of the **kwargs dicts travels with them) and report
    whether ensure_io_loop=True is effective at every call of Stream.__init__.  returns Chain."""
    from ..ctx import Ctx
    ch = Chain()
    stream_init = model.stream.methods['__init__']
    fn = cls.find('__init__')
    if fn is None:
        return ch
    if fn is stream_init:
        ch.reaches_stream, ch.ensure, ch.steps = 1, False, [fn.qual]
        return ch
    if ctx is None or ctx.model is not model:
        ctx = Ctx(model, 2, 6, 'quick')
    paths = ctx.paths(fn, cls, depth=6, no_inline=('_set_asynchronous', '_set_loop', '_check_end', 'start', '_get_com'))
    reaches, ens = set(), set()
    steps = [fn.qual]
    for st, status in paths:
        if is_failure(st.events, status):
            continue
        hits = [e for e in st.events if e.kind == 'ENTER' and e.x.get('callee') is stream_init]
        reaches.add(len(hits))
        for e in st.events:
            if e.kind == 'ENTER' and e.x['callee'].qual not in steps:
                steps.append(e.x['callee'].qual)
        for e in hits:
            ens.add(e.x.get('kw', {}).get('ensure_io_loop') is True)
            if 'ensure_io_loop' in (e.x.get('kw_twice') or ()):
                ch.twice = True
        # a key supplied twice anywhere along the chain is a TypeError at construction
        for e in st.events:
            if e.kind == 'ENTER' and 'ensure_io_loop' in (e.x.get('kw_twice') or ()):
                ch.twice = True
    ch.steps = steps
    ch.reaches_stream = 1 if reaches == {1} else (max(reaches) if reaches else 0)
    ch.ensure = (ens == {True})
    return ch


def check_loop_use_ensures(ctx, R):
    M = ctx.model
    for cls in M.nodes:
        if cls is M.stream:
            continue
        users = []
        for c in cls.mro:
            if c is M.stream or c.name == 'APIRegisterMixin' or c.module.name.split('.')[0] != 'streamz':
                continue
            for mname, fn in c.methods.items():
                if cls.find(mname) is not fn:
                    continue
                h = derefs_loop(fn)
                if h:
                    users.append((fn, h[0]))
            for f in c.module.all_funcs:
                if f.parent is not None and f.cls is c and f.owner is None:
                    h = derefs_loop(f)
                    if h and cls.find(_top(f).name) is _top(f):
                        users.append((f, h[0]))
        if not users:
            continue
        ch = ctor_chain(M, cls)
        con = cls.module.name + '.' + cls.name
        R.ob('LOOP-USE-ENSURES', con, 'ensure_io_loop', ch.ensure is True and ch.reaches_stream == 1,
             '%s dereferences self.loop (e.g. %s at line %d) but its constructor chain %s does not pass ensure_io_loop=True to '
             'Stream.__init__: self.loop can be None' % (cls.name, users[0][0].qual, users[0][1].lineno, ' -> '.join(ch.steps)),
             '%s:%d' % (cls.file, cls.node.lineno))
        if ch.twice:
            R.note('MRO-INIT: %s passes ensure_io_loop twice along %s (TypeError at construction)' % (con, ' -> '.join(ch.steps)))


def _top(f):
    while f.parent is not None:
        f = f.parent
    return f


def check_ctor_chains(ctx, R):
    M = ctx.model
    stream_init = M.stream.methods['__init__']
    for cls in M.nodes:
        if cls is M.stream:
            continue
        fn = cls.find('__init__')
        if fn is None or fn is stream_init:
            continue
        if '__init__' not in cls.methods and len([b for b in cls.bases if b.isa(M.stream)]) < 2:
            continue        # inherits a constructor analysed at its owner (single inheritance)
        con = cls.module.name + '.' + cls.name + '.__init__'
        try:
            paths = ctx.paths(fn, cls, depth=6, no_inline=('_set_asynchronous', '_set_loop', '_check_end', 'start', '_get_com'))
        except AnalysisError as e:
            raise
        bad, n = None, 0
        for st, status in paths:
            if is_failure(st.events, status):
                continue
            n += 1
            hits = [e for e in st.events if e.kind == 'ENTER' and e.x.get('callee') is stream_init]
            if len(hits) != 1:
                bad = (len(hits), st.events)
        R.ob('CTOR-CHAINS', con, 'reaches-Stream.__init__', bad is None and n > 0,
             'a constructor path reaches Stream.__init__ %s time(s): loop, mode and links are not set up exactly once'
             % (bad[0] if bad else '?'), ctx.where(fn, fn.node.lineno), fmt_path(bad[1]) if bad else None, n)


def check_thread_site(ctx, R):
    M = ctx.model
    gil = M.function('streamz.core', 'get_io_loop')
    sites = []
    for fn in M.all_funcs():
        for n in own_nodes(fn.node):
            if isinstance(n, ast.Call) and src(n.func) in ('threading.Thread', 'Thread', 'IOLoop', 'ioloop.IOLoop', 'tornado.ioloop.IOLoop'):
                sites.append((fn, n))
    for m in M.modules.values():
        for n in m.tree.body:
            for x in ast.walk(n) if not isinstance(n, (ast.FunctionDef, ast.AsyncFunctionDef, ast.ClassDef)) else []:
                if isinstance(x, ast.Call) and src(x.func) in ('threading.Thread', 'Thread', 'IOLoop'):
                    sites.append((None, x))
    # a private module-level helper that only get_io_loop calls is part of get_io_loop (extracted code); the path
    # obligations below see through it (helper splicing)
    allowed = {gil}
    changed = True
    while changed:
        changed = False
        for f, n in sites:
            if f is None or f in allowed or f.owner is not None or f.parent is not None or not f.name.startswith('_') \
                    or f.module is not gil.module:
                continue
            refs = []
            for g in M.all_funcs():
                for x in own_nodes(g.node):
                    if isinstance(x, ast.Name) and x.id == f.name and isinstance(x.ctx, ast.Load):
                        refs.append((g, x))
                    if isinstance(x, ast.Attribute) and x.attr == f.name:
                        refs.append((None, x))
            for m_ in M.modules.values():
                for top in m_.tree.body:
                    if not isinstance(top, (ast.FunctionDef, ast.AsyncFunctionDef, ast.ClassDef)):
                        for x in ast.walk(top):
                            if isinstance(x, ast.Name) and x.id == f.name and isinstance(x.ctx, ast.Load):
                                refs.append((None, x))
                            if isinstance(x, ast.alias) and x.name == f.name:
                                refs.append((None, x))
            if refs and all(g in allowed for g, x in refs):
                allowed.add(f)
                changed = True
    outside = [(f, n) for f, n in sites if f not in allowed]
    R.ob('THREAD-SITE', 'streamz', 'only-in-get_io_loop', not outside and len(sites) >= 2,
         'a thread / event loop is constructed outside get_io_loop: %s' % ', '.join(
             '%s:%d' % (f.file if f else '?', n.lineno) for f, n in outside),
         ctx.where(outside[0][0], outside[0][1].lineno) if outside and outside[0][0] else None)
    con = ctx.construct(gil)
    # the background loop must not become the *current* loop of the thread that happens to create it: an asynchronous
    # pipeline built later in that thread (outside a running loop) would bind to it
    loops_made = [(f, n) for f, n in sites if src(n.func).split('.')[-1] == 'IOLoop']
    notcur = all(any(k.arg == 'make_current' and isinstance(k.value, ast.Constant) and k.value.value is False for k in n.keywords)
                 for f, n in loops_made)
    R.ob('THREAD-SITE', con, 'background-loop-not-current', notcur and bool(loops_made),
         'the shared background IOLoop is created without make_current=False: creating it replaces the current event loop of the '
         'calling thread', ctx.where(loops_made[0][0], loops_made[0][1].lineno) if loops_made and loops_made[0][0] else None)
    bad, n = None, 0
    for st, status in ctx.paths(gil, None):
        evs = st.events
        th = [i for i, e in enumerate(evs) if e.kind == 'CALL' and e.a in ('threading.Thread', 'Thread', 'IOLoop')]
        if not th:
            continue
        n += 1
        p = gil.params()[0] if gil.params() else 'asynchronous'
        falsy = any(e.kind == 'COND' and e.a == p and e.b is False for e in evs[:th[0]])
        once = any(e.kind == 'COND' and e.a == '_io_loops' and e.b is False for e in evs[:th[0]])
        if not falsy or not once:
            bad = evs
    R.ob('THREAD-SITE', con, 'guards', bad is None and n > 0,
         'the background thread can be started for an asynchronous caller, or more than once', ctx.where(gil, gil.node.lineno),
         fmt_path(bad) if bad else None, n)
    # asynchronous callers get the current loop
    okc = False
    for st, status in ctx.paths(gil, None):
        evs = st.events
        if any(e.kind == 'COND' and e.a == (gil.params()[0] if gil.params() else 'asynchronous') and e.b is True for e in evs):
            rets = [e for e in evs if e.kind == 'RETURN']
            if rets and rets[-1].a and rets[-1].a.replace(' ', '') == 'IOLoop.current()':
                okc = True
            else:
                okc = False
                break
    # ... and that test comes first: nothing (e.g. the dask default-client lookup) may hand an asynchronous caller
    # another loop before it
    first_ok = True
    pname = gil.params()[0] if gil.params() else 'asynchronous'
    for st, status in ctx.paths(gil, None):
        evs = [e for e in st.events if e.kind in ('COND', 'CALL', 'RETURN')]
        if not evs or not (evs[0].kind == 'COND' and evs[0].a == pname):
            first_ok = False
    R.ob('THREAD-SITE', con, 'asynchronous-gets-current', okc and first_ok,
         'get_io_loop(True) does not return IOLoop.current() on every path (the test of `%s` must come first)' % pname,
         ctx.where(gil, gil.node.lineno))


FOREIGN_LOOP = {'IOLoop.current', 'IOLoop.instance', 'asyncio.get_event_loop', 'asyncio.get_running_loop', 'asyncio.ensure_future',
                'asyncio.create_task', 'asyncio.new_event_loop'}


def check_schedule_on_self_loop(ctx, R):
    M = ctx.model
    bad = []
    n = 0
    for cls in M.nodes:
        if cls.module.name not in ('streamz.core', 'streamz.sources', 'streamz.sinks', 'streamz.dask'):
            continue
        for f in cls.module.all_funcs:
            if f.cls is not cls:
                continue
            for x in own_nodes(f.node):
                if isinstance(x, ast.Call):
                    n += 1
                    if src(x.func) in FOREIGN_LOOP:
                        bad.append((f, x))
    R.ob('SCHEDULE-ON-SELF-LOOP', 'streamz', 'node-classes', not bad,
         'a node class reaches for a loop other than self.loop: %s' % ', '.join('%s (%s:%d)' % (src(x.func), f.qual, x.lineno) for f, x in bad),
         ctx.where(bad[0][0], bad[0][1].lineno) if bad else None, None, n)
    bad_rc, nrc = [], 0
    for fn in M.all_funcs():
        if fn.cls is None or fn.cls not in M.nodes and not any(c in M.nodes for c in ([fn.cls] if fn.cls else [])):
            continue
        for x in own_nodes(fn.node):
            if isinstance(x, ast.Call) and src(x.func) in ('RefCounter', 'core.RefCounter'):
                nrc += 1
                lp = next((k.value for k in x.keywords if k.arg == 'loop'), None)
                if lp is None or src(lp) != 'self.loop':
                    bad_rc.append((fn, x))
    R.ob('SCHEDULE-ON-SELF-LOOP', 'streamz', 'refcounter-loop', not bad_rc,
         'a node creates a RefCounter without loop=self.loop: its completion callback is scheduled on the shared '
         'background-thread loop (%s)' % ', '.join('%s:%d' % (f.qual, x.lineno) for f, x in bad_rc),
         ctx.where(bad_rc[0][0], bad_rc[0][1].lineno) if bad_rc else None, None, nrc)
    rc = M.cls('streamz.core', 'RefCounter')
    init = rc.methods.get('__init__')
    if init is not None and any(isinstance(x, ast.Call) and src(x.func) == 'get_io_loop' for x in own_nodes(init.node)):
        R.note('RefCounter() without loop= falls back to get_io_loop() and may start the shared background thread; the only '
               'in-package creator (FromKafkaBatched) passes loop=self.loop')


# ----------------------------------------------------------------------------- OPTIONS-REACH
# classes whose constructor keeps **kwargs for the user function (or takes none) and hands only stream_name on: a loop= given to
# them is not a request to the pipeline (documented convention: "this is one of a few stream specific kwargs")
OPTIONS_STAY_OK = {
    'streamz.core.map': 'keywords are arguments of func', 'streamz.core.starmap': 'keywords are arguments of func',
    'streamz.core.filter': 'keywords are arguments of predicate', 'streamz.core.accumulate': 'keywords are arguments of func',
    'streamz.core.map_async': 'keywords are arguments of func', 'streamz.core.slice': 'takes no stream options at all',
    'streamz.dask.map': 'keywords are arguments of func', 'streamz.dask.starmap': 'keywords are arguments of func',
    'streamz.dask.accumulate': 'keywords are arguments of func',
}


def _next_init(cls, owner):
    mro = cls.mro
    for c in mro[mro.index(owner) + 1:]:
        if '__init__' in c.methods and c.methods['__init__'].cls is c:
            return c
    return None


def _open_kwargs(v, kwname):
    """does the mapping expression hand on whatever stream options the caller put into **kwargs: the dict itself, or the
    part of it filtered by the parameters of Stream (`{k: v for k, v in kwargs.items() if k in set(signature(Stream).parameters)}`)"""
    if kwname is None:
        return False
    if isinstance(v, ast.Name) and v.id == kwname:
        return True
    if isinstance(v, ast.DictComp) and len(v.generators) == 1:
        g = v.generators[0]
        if isinstance(g.iter, ast.Call) and isinstance(g.iter.func, ast.Attribute) and g.iter.func.attr == 'items' \
                and isinstance(g.iter.func.value, ast.Name) and g.iter.func.value.id == kwname and len(g.ifs) == 1:
            t = g.ifs[0]
            if isinstance(t, ast.Compare) and len(t.ops) == 1 and isinstance(t.ops[0], ast.In) \
                    and 'signature(Stream)' in src(t.comparators[0]).replace('core.', ''):
                return True
    return False


def _options_reach(M, cls, owner, depth=0):
    """(True | False, why) - do loop= and asynchronous= travel from `owner`'s constructor to Stream.__init__ on every path of
    every constructor of the chain (symbolic normal forms; helpers spliced; super() resolved on the MRO of cls)"""
    from ..symexpr import SymEval
    if owner is M.stream:
        return True, ''
    if owner is None or depth > 8:
        raise AnalysisError('%s: constructor chain does not reach Stream.__init__' % cls.fq)
    fn = owner.methods.get('__init__')
    if fn is None or fn.cls is not owner:
        return _options_reach(M, cls, _next_init(cls, owner), depth + 1)
    kwname = fn.node.args.kwarg.arg if fn.node.args.kwarg else None
    params = fn.params() + [a.arg for a in fn.node.args.kwonlyargs]
    recs = [r for r in SymEval(M, cls, private_only=True).run(fn) if not r.raised]
    for r in recs:
        bcs = [c for c, _s, _l in r.calls if isinstance(c, ast.Call) and isinstance(c.func, ast.Attribute) and c.func.attr == '__init__']
        for c in bcs:
            for opt in ('loop', 'asynchronous'):
                ex = [k for k in c.keywords if k.arg == opt]
                if ex:
                    v = ex[0].value
                    given = (isinstance(v, ast.Name) and v.id == opt and opt in params) or (
                        isinstance(v, ast.Call) and isinstance(v.func, ast.Attribute) and v.func.attr in ('pop', 'get') and v.args
                        and isinstance(v.args[0], ast.Constant) and v.args[0].value == opt)
                    if not given:
                        return False, '%s.__init__ passes %s=%s to its base constructor, not what the caller gave' % (owner.name, opt, src(v)[:40])
                elif not any(k.arg is None for k in c.keywords):
                    # (a `**mapping` that is still there after normalisation - the kwargs themselves, a view of them filtered by
                    # Stream's parameters, a dict filled in a loop, the result of a helper - is given the benefit of the doubt;
                    # a mapping with visible constant keys has been turned into explicit keywords by now)
                    return False, '%s.__init__ does not hand %s= on to its base constructor (%s)' % (owner.name, opt, src(c)[:90])
            fv = c.func.value
            if isinstance(fv, ast.Call) and src(fv.func) == 'super':
                tgt = _next_init(cls, owner)
            else:
                tgt = M.resolve_name(fn.module, fv)
            if not isinstance(tgt, Class):
                raise AnalysisError('%s: base constructor %s cannot be resolved' % (owner.fq, src(fv)))
            sub, why = _options_reach(M, cls, tgt, depth + 1)
            if not sub:
                return False, why
    return True, ''


def check_options_reach(ctx, R):
    M = ctx.model
    R.table('OPTIONS_STAY_OK', dict(OPTIONS_STAY_OK))
    for cls in M.nodes:
        if cls is M.stream or not cls.module.name.startswith('streamz') or '.tests' in cls.module.name:
            continue
        owner = next((c for c in cls.mro if '__init__' in c.methods and c.methods['__init__'].cls is c), None)
        if owner is None or owner is M.stream:
            continue
        con = cls.module.name + '.' + cls.name
        ok, why = _options_reach(M, cls, owner)
        R.ob('OPTIONS-REACH', con, 'loop/asynchronous', ok or con in OPTIONS_STAY_OK,
             'loop= / asynchronous= given to %s never reach Stream.__init__ (%s): an explicit loop or mode that conflicts with the '
             'pipeline no longer raises, a compatible one is no longer percolated - and the value ends up as a keyword of the '
             'user callback' % (cls.name, why), '%s:%d' % (cls.file, cls.node.lineno))
