#!/usr/bin/env python3
"""tools/keep_benign.py [--root /tmp/seed/outb3_] <prop> [<prop> ...]
copies <root><prop>/refactor_<n>/{patch.diff,notes.md} to /verif/benign/<prop>-<m>/ (m continues after the entries that
exist already) after checking that the patch applies to /repo's HEAD (git apply --check; /repo itself is not modified)"""
import os
import shutil
import subprocess
import sys

args = sys.argv[1:]
root = '/tmp/seed/outb_'
if args and args[0] == '--root':
    root, args = args[1], args[2:]
for prop in args:
    base = root + prop
    have = [int(d.split('-')[1]) for d in os.listdir('/verif/benign') if d.startswith(prop + '-') and d.split('-')[1].isdigit()]
    offset = max(have) if have else 0
    for d in sorted(os.listdir(base)):
        if not d.startswith('refactor_'):
            continue
        n = str(int(d.split('_')[1]) + offset)
        src = os.path.join(base, d)
        patch = os.path.join(src, 'patch.diff')
        if not os.path.exists(patch) or os.path.getsize(patch) == 0:
            print('%s-%s: no patch' % (prop, n))
            continue
        r = subprocess.run(['git', '-C', '/repo', 'apply', '--check', patch], capture_output=True, text=True)
        if r.returncode != 0:
            print('%s-%s: DOES NOT APPLY: %s' % (prop, n, r.stderr.strip()[:200]))
            continue
        dst = '/verif/benign/%s-%s' % (prop, n)
        os.makedirs(dst, exist_ok=True)
        shutil.copy(patch, os.path.join(dst, 'patch.diff'))
        if os.path.exists(os.path.join(src, 'notes.md')):
            shutil.copy(os.path.join(src, 'notes.md'), os.path.join(dst, 'notes.md'))
        print('%s-%s: kept' % (prop, n))
