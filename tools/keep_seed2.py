#!/usr/bin/env python3
"""tools/keep_seed2.py <prop> <k> <as-n> [--missed-first "<what was strengthened>"] [--suite-file FILE] [--src-root /tmp/seed/out2_]
Ingest change k of a later seeding round as /verif/seeded/<prop>-<as-n>/:
  * the demonstration is run on the unchanged and on the changed tree in a temporary worktree of /repo's HEAD (removed afterwards),
  * the suite result with the change is read from --suite-file (produced by a separate full run in a scratch worktree),
  * which checks report the change is computed in memory (selftest/patchapply.py + sa.main.run_check), all 20 checks."""
import json
import os
import shutil
import subprocess
import sys
import tempfile

HERE = os.path.dirname(os.path.dirname(os.path.abspath(__file__)))
sys.path.insert(0, HERE)
sys.path.insert(0, os.path.join(HERE, 'tools'))
from selftest.patchapply import apply_patch      # noqa: E402
from sa.main import run_check                   # noqa: E402
from sa.model import REPO                       # noqa: E402

prop, k, n = sys.argv[1:4]
missed, suite_file, root = None, None, '/tmp/seed/out2_'
args = sys.argv[4:]
while args:
    if args[0] == '--missed-first':
        missed, args = args[1], args[2:]
    elif args[0] == '--suite-file':
        suite_file, args = args[1], args[2:]
    elif args[0] == '--src-root':
        root, args = args[1], args[2:]
    else:
        args = args[1:]
srcdir = '%s%s/change_%s' % (root, prop, k)
dst = os.path.join(HERE, 'seeded', '%s-%s' % (prop, n))
os.makedirs(dst, exist_ok=True)
for f in ('patch.diff', 'demo.py', 'notes.md'):
    shutil.copy(os.path.join(srcdir, f), os.path.join(dst, f))
patch = os.path.join(dst, 'patch.diff')
# demonstration, both ways
wt = tempfile.mkdtemp(prefix='seedwt_')
os.rmdir(wt)
subprocess.run(['git', '-C', REPO, 'worktree', 'add', '-q', '--detach', wt, 'HEAD'], check=True)
try:
    env = dict(os.environ, PYTHONPATH=wt)
    demo = open(os.path.join(dst, 'demo.py')).read()
    # demos assert that streamz is imported from the worktree they were written in: make that portable (the tree under test
    # is the first PYTHONPATH entry, as tools/eval_seed.sh sets it)
    from portable_demo import portable as _portable
    open(os.path.join(dst, 'demo.py'), 'w').write(_portable(demo))
    dpath = os.path.join(dst, 'demo.py')
    clean = subprocess.run(['/venv/bin/python', dpath], cwd=wt, env=env, capture_output=True, text=True, timeout=180).returncode
    subprocess.run(['git', '-C', wt, 'apply', patch], check=True)
    changed = subprocess.run(['/venv/bin/python', dpath], cwd=wt, env=env, capture_output=True, text=True, timeout=180).returncode
finally:
    subprocess.run(['git', '-C', REPO, 'worktree', 'remove', '--force', wt])
suite = open(suite_file).read().strip().replace('\n', ' | ') if suite_file and os.path.exists(suite_file) else None
# detection, in memory
ov = apply_patch(open(patch).read(), lambda rel: open(os.path.join(REPO, rel)).read())
caught = {}
props = sorted(f[:-3] for f in os.listdir(os.path.join(HERE, 'sa', 'props')) if f.startswith('C') and f.endswith('.py'))
devnull = open(os.devnull, 'w')
for p in props:
    old = sys.stdout
    sys.stdout = devnull
    try:
        code, R = run_check(p, 'quick', overrides={kk: v for kk, v in ov.items() if kk.endswith('.py')}, quiet=True, write=False)
    finally:
        sys.stdout = old
    if code != 0:
        caught[p] = {'exit': code, 'rules': sorted({'%s@%s' % (o.rule, o.construct) for o in R.violations}) or ['ANALYSIS-ERROR']}
notes = open(os.path.join(dst, 'notes.md')).read()
meta = {
    'id': '%s-%s' % (prop, n),
    'round': 2,
    'breaks_property': prop,
    'origin': 'written by an independent sub-agent given only the property text, a one-line summary of the round-1 changes to avoid, and a scratch worktree of /repo (nothing from /verif)',
    'needs_to_manifest': notes.strip().splitlines()[:12],
    'what_i_ran': [
        'demo.py in a temporary worktree of /repo HEAD: unchanged tree and after `git apply patch.diff`',
        '/venv/bin/python -m pytest -q -p no:cacheprovider streamz -n 5 in a scratch worktree with the change (tests that failed were re-run alone)',
        'all 20 checks on the changed sources, applied in memory (selftest/patchapply.py)',
    ],
    'demo_exit_unchanged_tree': clean,
    'demo_exit_changed_tree': changed,
    'suite_with_change': suite,
    'caught_by': caught,
    'caught_by_claimed_property_check': caught.get(prop, {}).get('exit') == 1,
    'missed_at_first': bool(missed),
    'strengthened': missed,
}
json.dump(meta, open(os.path.join(dst, 'meta.json'), 'w'), indent=1)
print(dst, 'demo %s/%s' % (clean, changed), 'caught by', {kk: v['rules'] for kk, v in caught.items()} or 'NOTHING')
