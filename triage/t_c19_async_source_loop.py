"""C19 witness: a loop-requiring node or source declared asynchronous=True (and given no loop) had its mode
overwritten with False by the ensure_io_loop fallback and was bound to the shared background-thread loop:
its callbacks ran outside the caller's event loop, on a thread the caller never asked for."""
import asyncio, threading
from streamz import Stream
from tornado.ioloop import IOLoop


async def main():
    s = Stream.from_iterable([1, 2, 3], asynchronous=True)
    print('source: asynchronous =', s.asynchronous, '| loop is the caller\'s loop:', s.loop is IOLoop.current(),
          '| threads:', [t.name for t in threading.enumerate()])
    assert s.asynchronous is True and s.loop is IOLoop.current()
    assert len(threading.enumerate()) == 1, 'a background thread was started for an asynchronous source'
    b = Stream().buffer(3, asynchronous=True)
    assert b.asynchronous is True and b.loop is IOLoop.current()
    print('OK')

asyncio.run(main())
