"""C04 witness: map_async.
Before the fix: the retain happens inside the queued job (after _emit already released), so the
completion callback fires at once, fires again after delivery, and also fires for an element whose
function raised."""
import asyncio, logging
logging.disable(logging.CRITICAL)
from streamz import Stream
from streamz.core import RefCounter
from tornado.ioloop import IOLoop


async def ok_case():
    src = Stream(asynchronous=True)
    fired, started = [], []

    async def f(x):
        started.append(x)
        await asyncio.sleep(0.05)
        return x
    got = src.map_async(f).sink_to_list()
    r1 = RefCounter(cb=lambda: fired.append(list(got)), loop=IOLoop.current())
    src.emit(1, metadata=[{'ref': r1}])
    print('count right after emit:', r1.count)
    assert r1.count >= 1, 'element is being computed but nobody holds its counter'
    await asyncio.sleep(0.01)
    assert not fired, 'callback fired while the asynchronous function was still running: %r' % fired
    await asyncio.sleep(0.2)
    print('end: fired', fired, 'count', r1.count)
    assert fired == [[1]] and r1.count == 0


async def failing_case():
    src = Stream(asynchronous=True)
    fired = []

    async def f(x):
        raise ValueError(x)
    src.map_async(f).sink_to_list()
    r1 = RefCounter(cb=lambda: fired.append('cb'), loop=IOLoop.current())
    await src.emit(1, metadata=[{'ref': r1}])
    await asyncio.sleep(0.1)
    print('failing function: fired', fired, 'count', r1.count)
    assert not fired, 'completion callback fired for an element whose processing raised'


async def main():
    await ok_case()
    await failing_case()
    print('OK')

asyncio.run(main())
