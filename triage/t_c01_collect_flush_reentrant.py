"""C01 witness: collect.flush() read its cache, emitted it, and only then cleared the cache.  The emission is
a synchronous call into the downstream graph; an element that comes back to the collect node while that
call is in progress (feedback edge) is appended to the cache and then wiped by the clear(): it is lost."""
from streamz import Stream

src = Stream()
c = src.collect()
batches = []


def on_batch(b):
    batches.append(b)
    if len(batches) == 1:
        src.emit('late')        # arrives at the collect node while flush() is still emitting


keep = c.sink(on_batch)
src.emit(1)
src.emit(2)
c.flush()
c.flush()
print('batches:', batches)
assert batches == [(1, 2), ('late',)], 'the element that arrived during the flush was lost'
print('OK')
