"""launcher: python3 -m sa.main Cxx [--tier quick|thorough] [--replay file]"""
import importlib
import json
import os
import sys
import traceback

from .model import AnalysisError, Model
from .ctx import Ctx
from .report import Report


def run_check(prop, tier='quick', overrides=None, quiet=False, replay=None, write=True):
    """run one property check; returns (exit code, Report)"""
    R = Report(prop, tier, quiet=quiet)
    R.write = write
    try:
        try:
            mod = importlib.import_module('sa.props.' + prop)
        except ModuleNotFoundError:
            print('ANALYSIS-ERROR property=%s no check registered for this property' % prop)
            return 2, R
        if replay:
            with open(replay) as f:
                o = json.load(f)['obligation']
            R.only = (o['rule'], o['construct'], str(o['token']))
            print('replaying obligation rule=%s construct=%s token=%s' % R.only)
        ctx = Ctx(Model(overrides=overrides), K=2 if tier == 'quick' else 3, depth=3 if tier == 'quick' else 4, tier=tier)
        R.count('modules', ctx.model.stats['modules'])
        R.count('classes', ctx.model.stats['classes'])
        R.count('functions_in_package', ctx.model.stats['functions'])
        mod.run(ctx, R)
        if ctx.sliced:
            R.note('rule-relevant slicing used for: ' + ', '.join(sorted(ctx.sliced)))
        if tier == 'thorough' and hasattr(mod, 'thorough') and overrides is None:
            mod.thorough(ctx, R)
    except AnalysisError as e:
        R.error(str(e))
    except Exception as e:      # a traceback must never look like a verdict
        tb = traceback.format_exc().strip().splitlines()
        R.error('internal error: %s: %s | %s' % (type(e).__name__, e, ' / '.join(tb[-6:])))
    return R.finish(), R


def main(argv):
    if not argv:
        print('usage: check <Cxx> [--tier quick|thorough] [--replay file]')
        return 2
    prop = argv[0]
    tier = os.environ.get('VERIF_TIER') or 'quick'
    replay = None
    i = 1
    while i < len(argv):
        if argv[i] == '--tier':
            tier = argv[i + 1]
            i += 2
        elif argv[i] == '--replay':
            replay = argv[i + 1]
            i += 2
        else:
            print('unknown argument', argv[i])
            return 2
    if tier not in ('quick', 'thorough'):
        tier = 'quick'
    code, _ = run_check(prop, tier, replay=replay)
    return code


if __name__ == '__main__':
    sys.exit(main(sys.argv[1:]))
