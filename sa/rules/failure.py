"""Failure discipline (DESIGN 4.7): RERAISE, STATE-AFTER-CALL on the synchronous delivery chain."""
import ast

from ..model import own_nodes, src, self_field
from ..paths import fmt_path

RULES = {
    'RERAISE': 'on the synchronous delivery chain (_emit, emit, every plain update) no handler swallows an exception raised by '
               'a user callable, a downstream update or an emission: every such handler path ends in raise',
    'STATE-AFTER-CALL': 'in a node with user callables no write to node state precedes a user-callable invocation on any path of '
                        'update(), so a raising function leaves the node as it was',
    'NO-SWALLOWING-GATHER': 'no gather(..., return_exceptions=True) / multi(quiet_exceptions=...) on the delivery chain: a '
                            'consumer\'s exception must reach the emitter',
    'STATE-FROM-RESULT': 'accumulate.state is assigned only from the value its function returned (or the first element)',
    'FINALLY-NO-JUMP': 'no return / break / continue inside a finally block: it would discard the exception that is propagating '
                       '(a failed read would be reported as a completed one)',
    'FAILED-VALUE-EMITTED': 'after a handler has absorbed the exception of the statement that computes a value, no emission in '
                            'the same iteration uses that value (it is unbound, or still holds the previous element\'s result, '
                            'and would travel with the failed element\'s metadata)',
    'HOLD-BEFORE-FALLIBLE': 'a coroutine update() that keeps the element (retains its metadata) takes that hold before it invokes a '
                            'user callable: a coroutine that raises hands back a failed future, the emitter\'s _emit sees a normal '
                            'return and releases its own reference, so only the node\'s hold keeps the failed element\'s completion '
                            'callback from firing',
}
FAIL_SOURCES = ('UCALL', 'EM', 'CALL', 'SELFCALL', 'SUPERCALL', 'LEAVE')
# exception types that a key's __eq__/__hash__ or any user code may raise (as opposed to control-flow signals such as
# StopIteration / queue.Empty, which a node may legitimately absorb)
GENERAL_EXCEPTIONS = {'Exception', 'BaseException', 'ValueError', 'TypeError', 'KeyError', 'IndexError', 'LookupError', 'AttributeError',
                      'RuntimeError', 'ArithmeticError', 'ZeroDivisionError', 'None', ''}
# fields that are not node state in the sense of C16 (bookkeeping written by _emit before delivery)
NOT_STATE = {'current_value', 'current_metadata'}


def sync_chain(ctx):
    M = ctx.model
    out = [(M.stream, M.stream.methods['_emit']), (M.stream, M.stream.methods['emit'])]
    for c in M.nodes:
        if c.module.name not in ('streamz.core', 'streamz.sinks'):
            continue
        fn = c.methods.get('update')
        if fn is not None and not fn.is_coro:
            out.append((c, fn))
    return out


def check_reraise(ctx, R):
    for cls, fn in sync_chain(ctx):
        con = ctx.construct(fn)
        handlers = [n for n in own_nodes(fn.node) if isinstance(n, ast.ExceptHandler)]
        paths = ctx.paths(fn, cls)
        bad, n = None, 0
        for st, status in paths:
            evs = st.events
            for i, e in enumerate(evs):
                if e.kind != 'EXC' or e.a not in FAIL_SOURCES:
                    continue
                source = (e.x or {}).get('source')
                if source is not None and source.kind == 'CALL' and source.c in ('exception', 'error', 'warning', 'info', 'debug'):
                    continue
                # only failures of the element's processing matter: user callable, emission, downstream update
                # (iterating the element itself, e.g. next(items) in flatten, is the node's own list-level function)
                if source is not None and source.kind == 'CALL' and source.c not in ('update',):
                    continue
                n += 1
                rest = evs[i + 1:]
                swallowed = any(x.kind == 'HANDLED' for x in rest) or (status != 'raise' and any(x.kind == 'HANDLER' for x in rest))
                if swallowed:
                    bad = evs
        # a container operation on a value derived from the element (seen.remove(key), buffer.index(x), d[key]) runs user code
        # too - the key's __eq__ / __hash__: a handler for a general exception type that swallows it hides the element's failure
        if fn.name == 'update' and handlers:
            for st, status in paths:
                evs = st.events
                for i, e in enumerate(evs):
                    if e.kind != 'EXC':
                        continue
                    source = (e.x or {}).get('source')
                    if source is None or source.kind not in ('TK', 'ST', 'CALL') or (source.kind == 'CALL' and source.c in (
                            'exception', 'error', 'warning', 'info', 'debug', 'update', 'isinstance', 'len')):
                        continue
                    node = (source.x or {}).get('node')
                    call = node if isinstance(node, ast.Call) else None
                    if call is None:
                        continue
                    derived = any(isinstance(a_, ast.Name) and ('x' in st.env.get(a_.id, ()) or any(
                        str(t).startswith('ucall:') for t in st.env.get(a_.id, ()))) for a_ in call.args)
                    if not derived:
                        continue
                    rest = evs[i + 1:]
                    hd = next((x for x in rest if x.kind == 'HANDLER'), None)
                    if hd is None or str(hd.a) not in GENERAL_EXCEPTIONS:
                        continue
                    n += 1
                    if any(x.kind == 'HANDLED' for x in rest) or status != 'raise':
                        bad = evs
        if handlers or fn.name in ('_emit', 'emit'):
            R.ob('RERAISE', con, 'handlers', bad is None,
                 'an exception raised while processing an element is caught and not re-raised: the emitter never sees it',
                 ctx.where(fn, handlers[0].lineno if handlers else fn.node.lineno), fmt_path(bad) if bad else None, max(n, 1))


def check_state_after_call(ctx, R):
    M = ctx.model
    for cls, fn in sync_chain(ctx):
        if fn.name != 'update':
            continue
        con = ctx.construct(fn)
        bad, n = None, 0
        detail = ''
        for st, status in ctx.paths(fn, cls):
            evs = st.events
            ucalls = [i for i, e in enumerate(evs) if e.kind == 'UCALL']
            if not ucalls:
                continue
            n += 1
            last = ucalls[-1]
            for i, e in enumerate(evs[:last]):
                if e.kind == 'ST' and e.a not in NOT_STATE:
                    bad, detail = evs, 'self.%s is written (line %d) before the user callable self.%s is invoked (line %d)' % (
                        e.a, e.line, evs[last].a, evs[last].line)
                if e.kind == 'TK':
                    bad, detail = evs, 'self.%s is mutated (line %d) before the user callable self.%s is invoked' % (
                        e.a, e.line, evs[last].a)
        if n:
            R.ob('STATE-AFTER-CALL', con, 'state', bad is None, detail, ctx.where(fn, fn.node.lineno),
                 fmt_path(bad) if bad else None, n)
    # accumulate.state <- result of func / first element  (on symbolic normal forms, see folds.acc_paths)
    from .folds import acc_paths
    acc = M.cls('streamz.core', 'accumulate')
    fn = acc.find('update')
    bad, n = None, 0
    for p in acc_paths(M, acc):
        if p['state'] is None:
            continue
        n += 1
        if p['fcall'] is not None:
            k = p['fcall']
            # the whole result, or its first component when the function returns (state, result)
            if p['state'] not in ('C%d' % k, 'FIRST(C%d)' % k):
                bad = bad or 'after calling the user function the state becomes %s, not (a component of) its result' % p['state'][:60]
            if p['n_state_stores'] != 1:
                bad = bad or 'the state is written %d times on a path that calls the user function' % p['n_state_stores']
        elif p['state'] != 'x':
            bad = bad or 'without a call of the user function the state becomes %s, not the first element' % p['state'][:60]
    R.ob('STATE-FROM-RESULT', ctx.construct(fn), 'state', bad is None and n > 0,
         bad or 'accumulate.state is assigned a value that is neither the function\'s result nor the first element',
         ctx.where(fn, fn.node.lineno), None, n)


def check_no_swallowing_gather(ctx, R):
    M = ctx.model
    bad = []
    n = 0
    for fn in M.all_funcs():
        if fn.module.name not in ('streamz.core', 'streamz.sources', 'streamz.sinks', 'streamz.dask'):
            continue
        for x in own_nodes(fn.node):
            if isinstance(x, ast.Call) and src(x.func).split('.')[-1] in ('gather', 'multi', 'multi_future', 'wait'):
                n += 1
                for k in x.keywords:
                    if k.arg in ('return_exceptions', 'quiet_exceptions') and not (
                            isinstance(k.value, ast.Constant) and k.value.value in (False, None, ())):
                        bad.append((fn, x))
    R.ob('NO-SWALLOWING-GATHER', 'streamz', 'gather-calls', not bad,
         'exceptions of awaited consumers are collected instead of raised: %s' % ', '.join(
             '%s:%d' % (f.qual, x.lineno) for f, x in bad), ctx.where(bad[0][0], bad[0][1].lineno) if bad else None, None, n)


def check_finally_no_jump(ctx, R, modules):
    """a `return`, or a `break` / `continue` that leaves the finally block, inside `finally:` swallows whatever exception is
    in flight.  One obligation per function that has a try/finally (syntactic: the construct itself is the defect)."""
    M = ctx.model
    n_fin = 0
    for fn in M.all_funcs():
        if fn.module.name not in modules:
            continue
        tries = [t for t in own_nodes(fn.node) if isinstance(t, ast.Try) and t.finalbody]
        if not tries:
            continue
        bad = None
        for t in tries:
            n_fin += 1
            for stmt in t.finalbody:
                stack = [(stmt, 0)]
                while stack:
                    node, loops = stack.pop()
                    if isinstance(node, (ast.FunctionDef, ast.AsyncFunctionDef, ast.Lambda, ast.ClassDef)):
                        continue
                    if isinstance(node, ast.Return):
                        bad = bad or (node, 'return')
                    if isinstance(node, (ast.Break, ast.Continue)) and loops == 0:
                        bad = bad or (node, type(node).__name__.lower())
                    inner = loops + (1 if isinstance(node, (ast.For, ast.While, ast.AsyncFor)) else 0)
                    for c in ast.iter_child_nodes(node):
                        stack.append((c, inner))
        R.ob('FINALLY-NO-JUMP', ctx.construct(fn), 'finally', bad is None,
             'a `%s` inside a finally block discards the exception in flight: a failure is turned into a normal completion '
             '(here: a partially read batch would be processed and committed as if it were whole)' % (bad[1] if bad else ''),
             ctx.where(fn, bad[0].lineno if bad else fn.node.lineno))
    R.count('finally_blocks', n_fin)


def check_hold_before_fallible(ctx, R, classes):
    """see RULES['HOLD-BEFORE-FALLIBLE'].  Sites = coroutine update() methods that retain on some path and invoke a user
    callable (directly or through a spliced helper) on some path."""
    for cls in classes:
        up = cls.find('update')
        if up is None or not up.is_coro or up.cls is ctx.model.stream:
            continue
        paths = [st.events for st, status in ctx.paths(up, cls)]
        if not any(e.kind == 'RET' for evs in paths for e in evs) or not any(e.kind == 'UCALL' for evs in paths for e in evs):
            continue
        bad, n, detail = None, 0, ''
        for evs in paths:
            for i, e in enumerate(evs):
                if e.kind != 'UCALL':
                    continue
                n += 1
                if not any(x.kind == 'RET' for x in evs[:i]):
                    bad = evs
                    detail = 'the user callable self.%s is invoked (line %d) before the element\'s metadata is retained: if it raises, ' \
                             'the coroutine returns a failed future, the emitter releases its reference as after a normal return, and ' \
                             'the failed element\'s completion callback fires' % (e.a, e.line)
        R.ob('HOLD-BEFORE-FALLIBLE', ctx.construct(up), 'retain-first', bad is None, detail, ctx.where(up, up.node.lineno),
             fmt_path(bad) if bad else None, n)


def check_failed_value_emitted(ctx, R, classes):
    """see RULES['FAILED-VALUE-EMITTED'].  Sites = methods with a handler that continues (does not re-raise) after an exception of
    an assignment statement; decided on event paths (EXC -> HANDLER -> ... EM before the next iteration)."""
    for cls in classes:
        for mname, fn in ctx.entry_methods(cls):
            if not any(isinstance(n, ast.Try) for n in own_nodes(fn.node)):
                continue
            binds = {}
            for n in own_nodes(fn.node):
                if isinstance(n, (ast.Assign, ast.AnnAssign, ast.AugAssign)):
                    tg = n.targets if isinstance(n, ast.Assign) else [n.target]
                    names = {y.id for t in tg for y in ast.walk(t) if isinstance(y, ast.Name)}
                    for ln in range(n.lineno, (n.end_lineno or n.lineno) + 1):
                        binds.setdefault(ln, set()).update(names)
            if not binds:
                continue
            bad, n_sites, detail = None, 0, ''
            for st, status in ctx.paths(fn, cls):
                evs = st.events
                for i, e in enumerate(evs):
                    if e.kind != 'EXC' or e.depth != 0 or e.line not in binds:
                        continue
                    if not (i + 1 < len(evs) and evs[i + 1].kind == 'HANDLER'):
                        continue
                    n_sites += 1
                    lost = set(binds[e.line])
                    # (a handler that gives the name a fallback value has re-bound it; a flag the handler sets and a later test
                    # reads may guard the emission - the paths are not that precise, benefit of the doubt)
                    flags = set()
                    for t in own_nodes(fn.node):
                        if isinstance(t, ast.Try) and any(b.lineno <= e.line <= (b.end_lineno or b.lineno) for b in t.body):
                            for h in t.handlers:
                                for y in ast.walk(h):
                                    if isinstance(y, ast.Name) and isinstance(y.ctx, ast.Store):
                                        lost.discard(y.id)
                                        flags.add(y.id)
                                    elif isinstance(y, ast.Attribute) and isinstance(y.ctx, ast.Store) and self_field(y):
                                        flags.add('self.' + self_field(y))
                    flags.discard(evs[i + 1].b if isinstance(evs[i + 1].b, str) else None)
                    for x in evs[i + 2:]:
                        if x.depth != 0:
                            continue
                        if x.kind in ('ITER', 'LOOPEXIT', 'LOOPCUT', 'RAISE'):
                            break
                        if x.kind == 'COND' and isinstance(x.a, str) and any(
                                __import__('re').search(r'(?<![\w.])%s(?![\w])' % __import__('re').escape(f_), x.a) for f_ in flags):
                            break
                        if x.kind == 'EM':
                            d = (x.x or {}).get('data')
                            used = {y.id for y in ast.walk(d) if isinstance(y, ast.Name)} if d is not None else set()
                            if used & lost:
                                bad = evs
                                detail = 'the statement at line %d that binds %s failed and its handler continued, yet line %d emits %s: the ' \
                                         'value is unbound or left over from the previous element, and it is delivered with the failed ' \
                                         'element\'s metadata' % (e.line, ', '.join(sorted(used & lost)), x.line, src(d)[:50])
            if n_sites:
                R.ob('FAILED-VALUE-EMITTED', ctx.construct(fn), 'emission', bad is None, detail, ctx.where(fn, fn.node.lineno),
                     fmt_path(bad) if bad else None, n_sites)
