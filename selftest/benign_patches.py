"""Specificity corpus written by independent sub-agents: behaviour-preserving refactorings of the anchored code
(benign/<id>/patch.diff + notes.md).  Every check must stay silent (exit 0) on every one of them.

python3 -m selftest.benign_patches [--ids C01-1,C17-2] [--props C05,C10] [--jobs 16] [-v]

Each patch is applied with `git apply` in a temporary detached worktree of /repo's HEAD (created under the system temp
directory and removed afterwards); the changed files are then analysed in memory through the same run_check() the
launcher uses.  A patch that no longer applies to /repo's HEAD is skipped and counted.
"""
import os
import subprocess
import sys
import tempfile
import time
from concurrent.futures import ProcessPoolExecutor

HERE = os.path.dirname(os.path.dirname(os.path.abspath(__file__)))
sys.path.insert(0, HERE)
from sa.main import run_check          # noqa: E402
from sa.model import REPO              # noqa: E402

BENIGN_DIR = os.path.join(HERE, 'benign')


def overrides_for(ids=None):
    wt = tempfile.mkdtemp(prefix='benignwt_')
    os.rmdir(wt)
    subprocess.run(['git', '-C', REPO, 'worktree', 'add', '-q', '--detach', wt, 'HEAD'], check=True)
    out = {}
    try:
        for d in sorted(os.listdir(BENIGN_DIR)):
            if ids and d not in ids:
                continue
            patch = os.path.join(BENIGN_DIR, d, 'patch.diff')
            if not os.path.exists(patch):
                continue
            subprocess.run(['git', '-C', wt, 'checkout', '-q', '--', '.'])
            r = subprocess.run(['git', '-C', wt, 'apply', patch], capture_output=True, text=True)
            if r.returncode != 0:
                out[d] = None
                continue
            files = subprocess.run(['git', '-C', wt, 'diff', '--name-only'], capture_output=True, text=True).stdout.split()
            out[d] = {f: open(os.path.join(wt, f), encoding='utf-8').read() for f in files if f.endswith('.py')}
    finally:
        subprocess.run(['git', '-C', REPO, 'worktree', 'remove', '--force', wt])
    return out


def one(args):
    pid, prop, ov = args
    devnull = open(os.devnull, 'w')
    old = sys.stdout
    sys.stdout = devnull
    try:
        code, R = run_check(prop, 'quick', overrides=ov, quiet=True, write=False)
    finally:
        sys.stdout = old
    detail = '; '.join('%s %s %s' % (o.rule, o.construct, o.token) for o in R.violations) + ' | ' + ' | '.join(e[:160] for e in R.errors)
    return pid, prop, code, detail


def main(argv):
    ids = props = None
    jobs = 16
    verbose = False
    index = False
    i = 0
    while i < len(argv):
        if argv[i] == '--ids':
            ids = set(argv[i + 1].split(','))
            i += 2
        elif argv[i] == '--props':
            props = argv[i + 1].split(',')
            i += 2
        elif argv[i] == '--jobs':
            jobs = int(argv[i + 1])
            i += 2
        elif argv[i] == '-v':
            verbose = True
            i += 1
        elif argv[i] == '--index':
            index = True
            i += 1
        else:
            i += 1
    t0 = time.time()
    ov = overrides_for(ids)
    allprops = sorted(f[:-3] for f in os.listdir(os.path.join(HERE, 'sa', 'props')) if f.startswith('C') and f.endswith('.py'))
    work = [(pid, p, o) for pid, o in sorted(ov.items()) if o is not None for p in (props or allprops)]
    skipped = [pid for pid, o in ov.items() if o is None]
    with ProcessPoolExecutor(max_workers=jobs) as ex:
        results = list(ex.map(one, work))
    bad = [r for r in results if r[2] != 0]
    per_patch = {}
    for pid, prop, code, detail in results:
        per_patch.setdefault(pid, []).append((prop, code, detail))
    for pid in sorted(per_patch):
        fails = [(p, c, d) for p, c, d in per_patch[pid] if c != 0]
        if fails:
            print('%-8s %s' % (pid, ' '.join('%s=%d' % (p, c) for p, c, _ in fails)))
            if verbose:
                for p, c, d in fails:
                    print('      %s: %s' % (p, d[:400]))
    silent = sum(1 for pid in per_patch if not any(c for _, c, _ in per_patch[pid]))
    print('benign patches: %d patches x %d checks in %.0fs: %d patches fully silent, %d with a non-zero check '
          '(%d false VIOLATION exits, %d analysis refusals), %d skipped (patch does not apply)'
          % (len(per_patch), len(props or allprops), time.time() - t0, silent, len(per_patch) - silent,
             sum(1 for r in bad if r[2] == 1), sum(1 for r in bad if r[2] == 2), len(skipped)))
    if index and not ids and not props:
        lines = ['# Independent behaviour-preserving refactorings (specificity corpus)', '',
                 'Written by sub-agents given only the property text and a scratch worktree; see DESIGN.md section 12.2.',
                 'Regenerate with `python3 -m selftest.benign_patches --index`. Verdict = checks that did not exit 0',
                 '(1 = false VIOLATION, 2 = refusal); empty = all %d checks silent.' % len(allprops), '',
                 '| patch | what it restructures | non-silent checks |', '|---|---|---|']
        for pid in sorted(per_patch):
            note = ''
            try:
                note = open(os.path.join(BENIGN_DIR, pid, 'notes.md'), encoding='utf-8').read().strip().splitlines()[0][:160]
            except OSError:
                pass
            fails = ' '.join('%s=%d' % (p_, c) for p_, c, _ in per_patch[pid] if c != 0)
            lines.append('| %s | %s | %s |' % (pid, note.replace('|', '/'), fails))
        for pid in sorted(skipped):
            lines.append('| %s | (patch does not apply to the current HEAD) | skipped |' % pid)
        open(os.path.join(BENIGN_DIR, 'INDEX.md'), 'w', encoding='utf-8').write('\n'.join(lines) + '\n')
    return 1 if bad else 0


if __name__ == '__main__':
    sys.exit(main(sys.argv[1:]))
