"""E5 - normal forms for sibling checks: a tiny symbolic path evaluator for loop-free step functions.

It does not execute anything: along each syntactic path (If arms; Try = body + else) it substitutes the
defining expressions of locals and of `self.<field>` stores into later uses, so that two implementations
can be compared on the *expressions* they emit / store / return, independent of temporaries.
"""
import ast
import copy

from .model import AnalysisError, src


class _Subst(ast.NodeTransformer):
    def __init__(self, env):
        self.env = env

    def visit_Name(self, n):
        if isinstance(n.ctx, ast.Load) and n.id in self.env:
            return copy.deepcopy(self.env[n.id])
        return n

    def visit_Attribute(self, n):
        if isinstance(n.ctx, ast.Load) and isinstance(n.value, ast.Name) and n.value.id == 'self' \
                and ('self.' + n.attr) in self.env:
            return copy.deepcopy(self.env['self.' + n.attr])
        self.generic_visit(n)
        return n

    def visit_Lambda(self, n):
        return n


class SymPath:
    def __init__(self):
        self.env = {}
        self.conds = []
        self.stores = {}        # field -> expr node (last store)
        self.emits = []         # (data expr, metadata expr or None)
        self.ret = None
        self.raised = False
        self.calls = []         # every Call node evaluated as an expression statement (substituted)

    def copy(self):
        p = SymPath()
        p.env = dict(self.env)
        p.conds = list(self.conds)
        p.stores = dict(self.stores)
        p.emits = list(self.emits)
        p.ret, p.raised = self.ret, self.raised
        p.calls = list(self.calls)
        return p

    def ev(self, node):
        if node is None:
            return None
        return _Subst(self.env).visit(copy.deepcopy(node))


def _index(expr, i):
    return ast.Subscript(value=expr, slice=ast.Constant(value=i), ctx=ast.Load())


def sym_paths(fn_node, rewrite=None, maxpaths=256, loops='error'):
    """enumerate symbolic paths of a loop-free function. rewrite: optional NodeTransformer applied to every
    evaluated expression (e.g. client.submit(f, a) -> f(a))."""
    rw = (lambda e: ast.fix_missing_locations(rewrite.visit(e)) if e is not None else None) if rewrite else (lambda e: e)

    def assign(p, target, value):
        if isinstance(target, ast.Name):
            p.env[target.id] = value
        elif isinstance(target, (ast.Tuple, ast.List)):
            if isinstance(value, (ast.Tuple, ast.List)) and len(value.elts) == len(target.elts):
                for t, v in zip(target.elts, value.elts):
                    assign(p, t, v)
            else:
                for i, t in enumerate(target.elts):
                    assign(p, t, _index(value, i))
        elif isinstance(target, ast.Attribute) and isinstance(target.value, ast.Name) and target.value.id == 'self':
            p.env['self.' + target.attr] = value
            p.stores[target.attr] = value
        elif isinstance(target, ast.Subscript) or isinstance(target, ast.Attribute):
            # in-place store into an object: record as a call-like effect
            p.calls.append(ast.Assign(targets=[p.ev(target)], value=value, lineno=0))

    def block(stmts, p):
        if not stmts:
            yield p
            return
        s, rest = stmts[0], stmts[1:]
        for q in stmt(s, p):
            if q.ret is not None or q.raised:
                yield q
            else:
                yield from block(rest, q)

    def record_calls(p, orig):
        """emissions syntactically present in the ORIGINAL statement (so that a temporary holding an
        emission's result is not counted again where it is used), with their arguments substituted"""
        for c in ast.walk(orig):
            if isinstance(c, ast.Call) and isinstance(c.func, ast.Attribute) and c.func.attr in ('_emit', 'emit') \
                    and isinstance(c.func.value, ast.Name) and c.func.value.id == 'self':
                data = rw(p.ev(c.args[0])) if c.args else None
                mdn = next((k.value for k in c.keywords if k.arg == 'metadata'), c.args[1] if len(c.args) > 1 else None)
                p.emits.append((data, rw(p.ev(mdn)) if mdn is not None else None))

    def stmt(s, p):
        if isinstance(s, ast.Expr):
            if isinstance(s.value, ast.Constant):
                yield p
                return
            q = p.copy()
            record_calls(q, s.value)
            v = rw(q.ev(s.value))
            q.calls.append(v)
            yield q
        elif isinstance(s, ast.Assign):
            q = p.copy()
            record_calls(q, s.value)
            v = rw(q.ev(s.value))
            for t in s.targets:
                assign(q, t, v)
            yield q
        elif isinstance(s, ast.AugAssign):
            q = p.copy()
            cur = q.ev(ast.Name(id=s.target.id, ctx=ast.Load())) if isinstance(s.target, ast.Name) else q.ev(s.target)
            v = ast.BinOp(left=cur, op=s.op, right=rw(q.ev(s.value)))
            assign(q, s.target, v)
            yield q
        elif isinstance(s, ast.Return):
            q = p.copy()
            if s.value is not None:
                record_calls(q, s.value)
            v = rw(q.ev(s.value)) if s.value is not None else ast.Constant(value=None)
            q.ret = v
            yield q
        elif isinstance(s, ast.Raise):
            q = p.copy()
            q.raised = True
            yield q
        elif isinstance(s, ast.If):
            t = rw(p.ev(s.test))
            for outcome, arm in ((True, s.body), (False, s.orelse)):
                q = p.copy()
                q.conds.append((src(t), outcome))
                yield from block(arm, q)
        elif isinstance(s, ast.Try):
            for q in block(s.body, p):
                if q.ret is not None or q.raised:
                    yield q
                else:
                    for r in block(s.orelse, q):
                        if r.ret is not None or r.raised:
                            yield r
                        else:
                            yield from block(s.finalbody, r)
        elif isinstance(s, (ast.For, ast.While, ast.AsyncFor)):
            if loops == 'error':
                raise AnalysisError('symbolic evaluation: loop at line %d is outside the supported fragment' % s.lineno)
            # loops == 'opaque': names assigned in the loop become opaque
            q = p.copy()
            for n in ast.walk(s):
                if isinstance(n, ast.Name) and isinstance(n.ctx, ast.Store):
                    q.env[n.id] = ast.Name(id='<loop:%s@%d>' % (n.id, s.lineno), ctx=ast.Load())
            yield q
        elif isinstance(s, (ast.Pass, ast.Import, ast.ImportFrom, ast.Assert, ast.FunctionDef, ast.Global, ast.Nonlocal)):
            yield p
        else:
            raise AnalysisError('symbolic evaluation: unsupported statement %s at line %d' % (type(s).__name__, s.lineno))

    out = []
    for q in block(fn_node.body, SymPath()):
        out.append(q)
        if len(out) > maxpaths:
            raise AnalysisError('symbolic evaluation: too many paths')
    return out


def text(node):
    return src(node) if node is not None else 'None'
