"""Topology rules (DESIGN 4.6): BOTH-ENDS, PER-UPSTREAM-OVERRIDE, BELIEF-CONSISTENT, WEAK-DOWN, STRONG-SINK, DESTROY-SUPER."""
import ast

from ..model import AnalysisError, own_nodes, src, self_field
from ..paths import fmt_path
from .holds import is_failure

RULES = {
    'BOTH-ENDS': 'a function that adds/removes one end of an edge (downstreams of X / upstreams of Y) applies the dual operation '
                 'to the other end in the same block',
    'PER-UPSTREAM-OVERRIDE': 'a node with per-upstream state overrides _add_upstream and _remove_upstream, calls the base '
                             'implementation and resizes every per-upstream field (index taken before the base removal)',
    'BELIEF-CONSISTENT': 'if one method removes a member of a field under a membership guard, no other method removes from '
                         'that field with the raising form unguarded',
    'WEAK-DOWN': 'downstreams is a weak set and upstream code keeps no other strong reference to a downstream node',
    'NONE-SENTINEL': 'an optional constructor argument whose absence is spelled None (and the field that stores it) is tested the same '
                     'way everywhere: if one site asks `is None`, no other site asks for its truthiness (0, empty and False are '
                     'values, not absence)',
    'STRONG-SINK': 'every Sink constructor reaches Sink.__init__ (registering in _global_sinks); Sink.destroy unregisters and '
                   'unlinks',
    'DESTROY-SUPER': 'every destroy() override reaches the base destroy() on every normal path',
    'EDIT-ATOMIC': 'connect/disconnect/destroy edit an edge in two steps; the hook that runs second contains no reachable explicit raise '
                   '(a refusal after the first end was already edited leaves the two ends disagreeing)',
    'HOOKS-ONLY': 'the upstreams / downstreams containers are mutated only by the four base hooks of Stream and by the constructor; '
                  'every other edit (connect, disconnect, destroy, nodes that detach themselves) goes through the overridable hooks, so '
                  'that nodes with per-input state resize it and release what they held',
    'NONE-BOUND': 'an optional constructor argument whose absence is spelled None is used as a slice bound only where it was found to be '
                  'set: `del history[None:]` deletes everything',
    'EMIT-CURRENT': 'Stream._emit iterates the current downstreams (a snapshot taken at emission time, not a cached list)',
}

EDGE_OPS = {
    '_add_downstream': ('add', 'down'), '_remove_downstream': ('remove', 'down'),
    '_add_upstream': ('add', 'up'), '_remove_upstream': ('remove', 'up'),
}
PRIMITIVES = set(EDGE_OPS)


def dealias(fn_node):
    """a copy of the function in which a local that is bound exactly once, to a plain field `self.<f>`, and never rebound is
    replaced by that field (`children = self.downstreams; children.add(child)` reads `self.downstreams.add(child)`)"""
    import copy
    binds = {}
    for n in ast.walk(fn_node):
        if isinstance(n, (ast.Assign, ast.AugAssign, ast.AnnAssign, ast.For, ast.AsyncFor, ast.With, ast.NamedExpr)) or isinstance(n, ast.comprehension):
            tgs = n.targets if isinstance(n, ast.Assign) else ([n.target] if hasattr(n, 'target') else [])
            if isinstance(n, ast.With):
                tgs = [i.optional_vars for i in n.items if i.optional_vars is not None]
            for t in tgs:
                for x in ast.walk(t):
                    if isinstance(x, ast.Name):
                        binds.setdefault(x.id, []).append(n)
    alias = {}
    for nm, lst in binds.items():
        if len(lst) == 1 and isinstance(lst[0], ast.Assign) and len(lst[0].targets) == 1 and isinstance(lst[0].targets[0], ast.Name):
            v = lst[0].value
            if isinstance(v, ast.Attribute) and isinstance(v.value, ast.Name) and v.value.id == 'self':
                alias[nm] = v
    params = {a.arg for a in fn_node.args.posonlyargs + fn_node.args.args + fn_node.args.kwonlyargs}
    alias = {k: v for k, v in alias.items() if k not in params}
    if not alias:
        return fn_node

    class T(ast.NodeTransformer):
        def visit_Name(self, n):
            if isinstance(n.ctx, ast.Load) and n.id in alias:
                return ast.copy_location(copy.deepcopy(alias[n.id]), n)
            return n
    return T().visit(copy.deepcopy(fn_node))


def _edge_ops(fn):
    """(kind, end, receiver src, arg src, node, parent block id) for every edge operation in fn"""
    out = []
    parents = {}
    for n in ast.walk(fn.node):
        for fld in ('body', 'orelse', 'finalbody'):
            seq = getattr(n, fld, None)
            if not isinstance(seq, list):
                continue
            for s in seq:
                if isinstance(s, ast.stmt):
                    parents[id(s)] = (id(n), fld)
    for stmt in ast.walk(fn.node):
        if not isinstance(stmt, ast.Expr) or not isinstance(stmt.value, ast.Call):
            continue
        c = stmt.value
        f = c.func
        if not isinstance(f, ast.Attribute):
            continue
        blk = parents.get(id(stmt))
        if f.attr in EDGE_OPS and len(c.args) == 1 and not (isinstance(f.value, ast.Call)):
            k, e = EDGE_OPS[f.attr]
            out.append((k, e, src(f.value), src(c.args[0]), c, blk))
        elif isinstance(f.value, ast.Attribute) and f.value.attr == 'downstreams' and f.attr in ('add', 'remove', 'discard') and c.args:
            out.append(('add' if f.attr == 'add' else 'remove', 'down', src(f.value.value), src(c.args[0]), c, blk))
        elif isinstance(f.value, ast.Attribute) and f.value.attr == 'upstreams' and f.attr in ('append', 'remove') and c.args:
            out.append(('add' if f.attr == 'append' else 'remove', 'up', src(f.value.value), src(c.args[0]), c, blk))
    return out


def _ctor_only(ctx, cls, fn, depth=0):
    """a private helper that is referenced only from __init__ (or from other such helpers) of its class: part of construction"""
    if not fn.name.startswith('_') or fn.name.startswith('__') or depth > 3:
        return False
    refs = []
    for c in ctx.model.classes:
        if not c.module.name.startswith('streamz') or '.tests' in c.module.name:
            continue
        for mname, m in c.methods.items():
            if m.owner is not c:
                continue
            for n in own_nodes(m.node):
                if isinstance(n, ast.Attribute) and n.attr == fn.name and not (m is fn):
                    refs.append(m)
    return bool(refs) and all(m.name == '__init__' or _ctor_only(ctx, cls, m, depth + 1) for m in refs)


def _mentions_edge_ops(node):
    for n in ast.walk(node):
        if isinstance(n, ast.Attribute) and (n.attr in EDGE_OPS or n.attr in ('downstreams', 'upstreams')) and isinstance(n.ctx, ast.Load):
            if n.attr in EDGE_OPS:
                return True
    for stmt in ast.walk(node):
        if isinstance(stmt, ast.Call) and isinstance(stmt.func, ast.Attribute) and isinstance(stmt.func.value, ast.Attribute) \
                and stmt.func.value.attr in ('downstreams', 'upstreams') and stmt.func.attr in ('add', 'remove', 'discard', 'append'):
            return True
    return False


def _edge_candidates(ctx, cls, fn, depth=0):
    """does fn, or a private helper it calls (method of the class or module-level function, two levels), edit an edge"""
    if _mentions_edge_ops(fn.node):
        return True
    if depth >= 2:
        return False
    for n in own_nodes(fn.node):
        if not isinstance(n, ast.Call):
            continue
        h = None
        if isinstance(n.func, ast.Name):
            h = ctx.model.resolve_name(fn.module, n.func)
            if not (hasattr(h, 'node') and getattr(h, 'cls', None) is None and hasattr(h, 'params')):
                h = None
        elif isinstance(n.func, ast.Attribute) and isinstance(n.func.value, ast.Name) and n.func.value.id == 'self' and cls is not None:
            h = cls.find(n.func.attr)
            if h is not None and (h.name in PRIMITIVES or not h.module.name.startswith('streamz')):
                h = None
        if h is not None and h is not fn and _edge_candidates(ctx, cls, h, depth + 1):
            return True
    return False


def _ops_of_record(r):
    """(kind, end, receiver text, argument text, loop context, call) of every edge operation on a symbolic path"""
    out = []
    for c, _s, l in r.calls:
        if not (isinstance(c, ast.Call) and isinstance(c.func, ast.Attribute)):
            continue
        f = c.func
        if f.attr in EDGE_OPS and len(c.args) == 1 and not c.keywords and not (
                isinstance(f.value, ast.Call) and src(f.value.func) == 'super') and src(f.value) not in ('Stream', 'core.Stream'):
            k, e = EDGE_OPS[f.attr]
            out.append((k, e, src(f.value), src(c.args[0]), l, c))
        elif isinstance(f.value, ast.Attribute) and f.value.attr == 'downstreams' and f.attr in ('add', 'remove', 'discard') and c.args:
            out.append(('add' if f.attr == 'add' else 'remove', 'down', src(f.value.value), src(c.args[0]), l, c))
        elif isinstance(f.value, ast.Attribute) and f.value.attr == 'upstreams' and f.attr in ('append', 'remove') and c.args:
            out.append(('add' if f.attr == 'append' else 'remove', 'up', src(f.value.value), src(c.args[0]), l, c))
    return out


def check_both_ends(ctx, R, classes):
    """decided on the symbolic paths of every method that edits an edge, with its private helpers - methods and module-level
    functions such as `_link(parent, child)` - spliced in and their parameters substituted: on every completing path each edit
    of one end has its dual (same kind, other end, receiver and argument swapped) in the same loop iteration"""
    from ..symexpr import SymEval
    M = ctx.model
    for cls in classes:
        for mname, fn in cls.methods.items():
            if mname in PRIMITIVES or not _edge_candidates(ctx, cls, fn):
                continue
            con = ctx.construct(fn)
            ctor = mname == '__init__' or _ctor_only(ctx, cls, fn)
            try:
                recs = [r for r in SymEval(M, cls, no_splice=tuple(PRIMITIVES)).run(fn) if not r.raised]
            except AnalysisError as e:
                raise AnalysisError('%s: %s' % (con, e))
            verdict = {}
            for r in recs:
                ops = _ops_of_record(r)
                stored_ups = [src(v) for f, v, _s, _l in r.stores if f == 'upstreams']
                for k, e, recv, arg, l, c in ops:
                    dual_end = 'up' if e == 'down' else 'down'
                    ok = any(o[0] == k and o[1] == dual_end and o[2] == arg and o[3] == recv and o[4] == l for o in ops)
                    if not ok and ctor and k == 'add' and e == 'down' and arg == 'self':
                        # constructor: `for upstream in self.upstreams: upstream.downstreams.add(self)` - the other end is the
                        # very list being iterated (the value this path stored in self.upstreams)
                        ok = any(recv == 'ELEM(%s)' % u for u in stored_ups + ['self.upstreams'])
                    tok = '%s-%s(%s,%s)' % (k, e, recv if len(recv) < 40 else recv[:37] + '...', arg)
                    cur = verdict.get(tok)
                    if cur is None or (cur[0] and not ok):
                        verdict[tok] = (ok, c, e, arg)
            for tok, (ok, c, e, arg) in sorted(verdict.items()):
                R.ob('BOTH-ENDS', con, tok, ok,
                     '%s: the %s end of the edge is updated but not the other end (%s of %s)' % (
                         src(c)[:80], 'downstream' if e == 'down' else 'upstream',
                         'upstreams' if e == 'down' else 'downstreams', arg), ctx.where(fn, fn.node.lineno), None, len(recs))


def per_upstream_fields(cls, model=None):
    """fields the constructor initialises with one entry per upstream, read off the constructor's symbolic normal form
    (a helper or mix-in method that does the stores is transparent): field -> value expression"""
    from ..symexpr import SymEval
    init = cls.find('__init__')
    out = {}
    if init is None or init.cls is None or model is None or not init.module.name.startswith('streamz') \
            or not any(isinstance(n, (ast.ListComp, ast.DictComp, ast.SetComp, ast.Call)) for n in ast.walk(init.node)):
        return out
    va = init.node.args.vararg.arg if init.node.args.vararg else None
    ups = {'upstreams'} | ({va} if va else set())
    try:
        recs = [r for r in SymEval(model, cls).run(init) if not r.raised]
    except AnalysisError:
        return out
    def is_ups(e, depth=0):
        # the inputs themselves, a sequence built from them ((lossless,) + upstreams), or a selection of them
        # ([u for u in upstreams if isinstance(u, Stream)], list(upstreams))
        if depth > 3:
            return False
        if isinstance(e, (ast.ListComp, ast.GeneratorExp, ast.SetComp)) and len(e.generators) == 1:
            return is_ups(e.generators[0].iter, depth + 1)
        if isinstance(e, ast.Call) and isinstance(e.func, ast.Name) and e.func.id in ('list', 'tuple', 'sorted', 'enumerate', 'reversed') and len(e.args) == 1:
            return is_ups(e.args[0], depth + 1)
        return any(isinstance(x, ast.Name) and x.id in ups for x in ast.walk(e)) and not any(
            isinstance(x, (ast.Call, ast.Subscript)) for x in ast.walk(e))

    for r in recs:
        for f, v, _s, _l in r.stores:
            per = False
            if isinstance(v, (ast.ListComp, ast.DictComp, ast.SetComp)):
                g = v.generators[0]
                if is_ups(g.iter) and not isinstance(v, ast.ListComp):
                    per = True
                if isinstance(v, ast.ListComp) and is_ups(g.iter) and isinstance(v.elt, ast.Constant):
                    per = True
            if isinstance(v, ast.BinOp) and isinstance(v.op, ast.Mult):
                # [None] * len(upstreams)
                for a_, b_ in ((v.left, v.right), (v.right, v.left)):
                    if isinstance(a_, ast.List) and len(a_.elts) == 1 and isinstance(a_.elts[0], ast.Constant) \
                            and isinstance(b_, ast.Call) and src(b_.func) == 'len' and b_.args and is_ups(b_.args[0]):
                        per = True
            if isinstance(v, ast.Call) and isinstance(v.func, ast.Name) and v.func.id in ('set', 'list') and len(v.args) == 1 \
                    and is_ups(v.args[0]):
                per = True
            if per and f != 'upstreams':
                out[f] = v
    # a local container filled inside a loop over the inputs and then stored:  for u in upstreams: L[u] = ... ; self.f = L
    filled = set()
    for loop in own_nodes(init.node):
        if isinstance(loop, (ast.For, ast.AsyncFor)) and any(isinstance(x, ast.Name) and x.id in ups for x in ast.walk(loop.iter)):
            for n in ast.walk(loop):
                if isinstance(n, ast.Subscript) and isinstance(n.ctx, ast.Store) and isinstance(n.value, ast.Name):
                    filled.add(n.value.id)
                if isinstance(n, ast.Subscript) and isinstance(n.ctx, ast.Store) and self_field(n) and self_field(n) != 'upstreams' \
                        and not isinstance(n.slice, ast.Constant):
                    out.setdefault(self_field(n), n)        # self.f[<input>] = ... , once per input
                if isinstance(n, ast.Call) and isinstance(n.func, ast.Attribute) and isinstance(n.func.value, ast.Name) \
                        and n.func.attr in ('setdefault',):
                    filled.add(n.func.value.id)
    for n in own_nodes(init.node):
        if isinstance(n, ast.Assign) and len(n.targets) == 1 and isinstance(n.targets[0], ast.Attribute) and self_field(n.targets[0]) \
                and isinstance(n.value, ast.Name) and n.value.id in filled and self_field(n.targets[0]) != 'upstreams':
            out.setdefault(self_field(n.targets[0]), n.value)
    return out


NAMED_COMBINING = {'zip', 'combine_latest'}      # named by the property
_RESIZE = ('append', 'pop', 'remove', 'discard', 'add', 'update', 'insert', 'popitem', 'clear', 'extend', 'popleft', 'setdefault')


def check_per_upstream(ctx, R, classes):
    """on the symbolic normal forms of the hooks (helper / mix-in methods spliced, temporaries substituted): every path that
    completes calls the base hook, resizes every per-upstream field (so no resize hangs on node state), looks the position
    of the removed upstream up before the base removal, and grows positional state at the end"""
    from ..symexpr import SymEval
    M = ctx.model
    for cls in classes:
        fields = per_upstream_fields(cls, M)
        if not fields:
            continue
        con = cls.module.name + '.' + cls.name
        for hook in ('_add_upstream', '_remove_upstream'):
            fn = cls.methods.get(hook)
            if fn is None:
                msg = ('per-upstream state (%s) but no %s override: connect()/disconnect() leave the state out of step '
                       'with the inputs' % (', '.join(sorted(fields)), hook))
                R.ob('PER-UPSTREAM-OVERRIDE', con, hook, False, msg, '%s:%d' % (cls.file, cls.node.lineno))
                continue
            recs = [r for r in SymEval(M, cls, no_splice=(hook,)).run(fn) if not r.raised]
            if not recs:
                raise AnalysisError('%s.%s has no completing path' % (con, hook))
            ok, detail = True, ''
            always = None
            for r in recs:
                base_pos, mutated, index_pos, inserts = [], set(), [], False
                for k, (c, _s, _l) in enumerate(r.calls):
                    if isinstance(c, ast.Call) and isinstance(c.func, ast.Attribute):
                        if c.func.attr == hook and (isinstance(c.func.value, ast.Call) or src(c.func.value) in ('Stream', 'core.Stream')
                                                    or (isinstance(c.func.value, ast.Name) and c.func.value.id != 'self')):
                            base_pos.append(k)
                        f = self_field(c.func.value)
                        if f in fields and c.func.attr in _RESIZE:
                            mutated.add(f)
                            if c.func.attr == 'insert':
                                inserts = True
                        if c.func.attr == 'index' and self_field(c.func.value) == 'upstreams':
                            index_pos.append(k)
                    if isinstance(c, (ast.Assign, ast.Delete)):
                        for t in c.targets:
                            if isinstance(t, ast.Subscript) and self_field(t) in fields:
                                mutated.add(self_field(t))
                for f, v, _s2, _l2 in r.stores:
                    pass
                always = mutated if always is None else (always & mutated)
                if not base_pos:
                    ok, detail = False, '%s does not call the base implementation (the upstreams list is not updated)' % hook
                elif hook == '_remove_upstream' and any(i > base_pos[0] for i in index_pos):
                    ok, detail = False, 'the position of the upstream is looked up after it was removed from self.upstreams'
                elif hook == '_add_upstream' and inserts:
                    ok, detail = False, 'per-upstream state grows at a position other than the end'
            ever = set()
            for r in recs:
                for c, _s, _l in r.calls:
                    if isinstance(c, ast.Call) and isinstance(c.func, ast.Attribute) and self_field(c.func.value) in fields \
                            and c.func.attr in _RESIZE:
                        ever.add(self_field(c.func.value))
                    if isinstance(c, (ast.Assign, ast.Delete)):
                        ever |= {self_field(t) for t in c.targets if isinstance(t, ast.Subscript) and self_field(t) in fields}
            missing = sorted(set(fields) - ever)
            conditional = sorted(ever - (always or set()))
            if ok and missing:
                ok, detail = False, '%s does not resize per-upstream field(s) %s' % (hook, ', '.join('self.' + m for m in missing))
            elif ok and conditional:
                ok, detail = False, '%s resizes %s only under a condition on node state: after some histories the per-upstream ' \
                                    'state is out of step with the inputs' % (hook, ', '.join('self.' + m for m in conditional))
            R.ob('PER-UPSTREAM-OVERRIDE', con, hook, ok, detail, ctx.where(fn, fn.node.lineno), None, len(recs))


def check_belief_consistent(ctx, R, classes):
    RAISING = {'remove', 'pop', 'del', 'popitem'}
    for cls in classes:
        sites = {}
        for mname, fn in cls.methods.items():
            if mname == '__init__':
                continue
            for st, status in ctx.paths(fn, cls):
                evs = st.events
                for i, e in enumerate(evs):
                    if e.kind != 'TK' or e.c not in ('remove', 'pop', 'del', 'discard'):
                        continue
                    tnode = (e.x or {}).get('node')
                    if e.c == 'del' and isinstance(tnode, ast.Subscript) and isinstance(tnode.slice, ast.Slice):
                        continue            # del lst[a:b] never raises
                    args = (e.x or {}).get('args') or []
                    raising = e.c in ('remove', 'del') or (e.c == 'pop' and len(args) == 1)
                    if e.c == 'pop' and not (e.x or {}).get('sub') and len(args) == 1 and _is_index_pop(e):
                        raising = False      # list.pop(index): positional, not a membership belief
                    guarded = any(c.kind == 'COND' and c.b is True and (' in self.' + e.a) in c.a for c in evs[:i])
                    key = (e.a, mname, e.line)
                    cur = sites.get(key)
                    if cur is None:
                        sites[key] = [raising, guarded, fn]
                    else:
                        cur[1] = cur[1] and guarded
        by_field = {}
        for (f, mname, line), (raising, guarded, fn) in sites.items():
            by_field.setdefault(f, []).append((mname, line, raising, guarded, fn))
        for f, lst in by_field.items():
            believers = [x for x in lst if x[3]]
            if not believers:
                continue
            for mname, line, raising, guarded, fn in lst:
                if guarded:
                    continue
                R.ob('BELIEF-CONSISTENT', ctx.construct(fn), f, not raising,
                     '%s removes from self.%s with the raising form, unguarded, while %s guards the same removal by a '
                     'membership test (the member may be absent): KeyError/ValueError' % (
                         mname, f, believers[0][0]), ctx.where(fn, line))


def _is_index_pop(e):
    node = (e.x or {}).get('node')
    if node is None or not node.args:
        return False
    a = node.args[0]
    # pop(self.upstreams.index(x)) / pop(0) / pop(-1) / pop(i)
    return isinstance(a, ast.Constant) and isinstance(a.value, int) or (
        isinstance(a, ast.Call) and isinstance(a.func, ast.Attribute) and a.func.attr == 'index') or (
        isinstance(a, ast.Name) and a.id in ('i', 'idx', 'index'))


def check_weak_and_sinks(ctx, R):
    M = ctx.model
    stream = M.stream
    # ---- WEAK-DOWN
    init = stream.methods['__init__']
    ctor = None
    for s in own_nodes(init.node):
        if isinstance(s, ast.Assign) and self_field(s.targets[0]) == 'downstreams' and isinstance(s.value, ast.Call):
            ctor = s.value
    ows = M.resolve_name(init.module, ctor.func) if ctor is not None else None
    weak = ows is not None and hasattr(ows, 'node') and any(
        src(b) in ('weakref.WeakSet', 'WeakSet') for b in ows.node.bases)
    R.ob('WEAK-DOWN', 'streamz.core.Stream.__init__', 'downstreams', weak,
         'Stream.downstreams is not a weakref.WeakSet subclass: unreferenced branches would be kept alive',
         ctx.where(init, ctor.lineno) if ctor is not None else None)
    bad = None
    for mname in ('_add_downstream', 'connect', '__init__'):
        fn = stream.methods.get(mname)
        if fn is None:
            continue
        for n in own_nodes(fn.node):
            if isinstance(n, ast.Call) and isinstance(n.func, ast.Attribute) and n.func.attr in ('append', 'add', 'insert') \
                    and self_field(n.func.value) not in (None, 'downstreams', 'upstreams') and n.args \
                    and src(n.args[-1]) in ('downstream', 'self'):
                bad = (fn, n)
            if isinstance(n, ast.Assign) and any(self_field(t) and isinstance(t, ast.Subscript) for t in n.targets) \
                    and src(n.value) in ('downstream',):
                bad = (fn, n)
    R.ob('WEAK-DOWN', 'streamz.core.Stream', 'no-strong-copy', bad is None,
         'a strong container also receives the downstream node: %s' % (src(bad[1]) if bad else ''),
         ctx.where(bad[0], bad[1].lineno) if bad else None)
    rm = stream.methods.get('_add_downstream')
    ok = rm is not None and any(isinstance(n, ast.Call) and isinstance(n.func, ast.Attribute) and n.func.attr == 'add'
                                and self_field(n.func.value) == 'downstreams' for n in own_nodes(dealias(rm.node)))
    R.ob('WEAK-DOWN', 'streamz.core.Stream._add_downstream', 'adds', ok, '_add_downstream does not add to self.downstreams',
         ctx.where(rm, rm.node.lineno) if rm else None)
    # ---- STRONG-SINK
    sink = M.cls('streamz.sinks', 'Sink')
    sinit = sink.methods.get('__init__')
    gs = sink.module.tree
    strong = any(isinstance(n, ast.Assign) and any(isinstance(t, ast.Name) and t.id == '_global_sinks' for t in n.targets)
                 and isinstance(n.value, ast.Call) and src(n.value.func) == 'set' for n in gs.body)

    def registry_calls(fn, methods):
        """per normal path: does it call _global_sinks.<m>(self) (directly or inside a spliced private helper)?"""
        out = []
        for st, status in ctx.paths(fn, sink, no_inline=('__init__', 'destroy')):
            if is_failure(st.events, status):
                continue
            hit = False
            stack = []
            for e in st.events:
                if e.kind == 'ENTER':
                    stack.append(e)
                elif e.kind == 'LEAVE' and stack:
                    stack.pop()
                elif e.kind == 'CALL' and e.c in methods and isinstance(e.x['node'].func, ast.Attribute) \
                        and src(e.x['node'].func.value) == '_global_sinks' and e.x['node'].args:
                    a = e.x['node'].args[0]
                    k = len(stack)
                    # map a helper's parameter back to the caller's argument
                    while k > 0 and isinstance(a, ast.Name) and a.id != 'self':
                        en = stack[k - 1]
                        prm = en.x['callee'].params()[en.x.get('offset', 1):]
                        call = en.x.get('call')
                        if call is None or a.id not in prm:
                            break
                        idx = prm.index(a.id)
                        kw = next((kk.value for kk in call.keywords if kk.arg == a.id), None)
                        a = call.args[idx] if idx < len(call.args) else kw
                        k -= 1
                    if isinstance(a, ast.Name) and a.id == 'self':
                        hit = True      # (inside a spliced helper `self` is the node as well: methods, or the self-clone)
            out.append((hit, st.events))
        return out

    regs = registry_calls(sinit, ('add',)) if sinit is not None else []
    reg = bool(regs) and all(h for h, _ in regs)
    R.ob('STRONG-SINK', 'streamz.sinks.Sink.__init__', '_global_sinks', reg and strong,
         'Sink.__init__ does not register the sink in the strong module-level set _global_sinks',
         ctx.where(sinit, sinit.node.lineno) if sinit else None,
         fmt_path(next(ev for h, ev in regs if not h)) if regs and not reg else None, len(regs))
    sd = sink.methods.get('destroy')
    unregs = registry_calls(sd, ('remove', 'discard')) if sd is not None else []
    unreg = bool(unregs) and all(h for h, _ in unregs)
    R.ob('STRONG-SINK', 'streamz.sinks.Sink.destroy', '_global_sinks', unreg,
         'Sink.destroy does not unregister the sink: a destroyed sink stays alive', ctx.where(sd, sd.node.lineno) if sd else None,
         fmt_path(next(ev for h, ev in unregs if not h)) if unregs and not unreg else None, len(unregs))
    sink_init = sink.methods['__init__']
    for c in M.subclasses(sink):
        if c is sink:
            continue
        init_fn = c.find('__init__')
        if init_fn is None or init_fn.owner is sink:
            continue
        if '__init__' not in c.methods:
            continue
        paths = ctx.paths(init_fn, c, depth=5, no_inline=('_set_asynchronous', '_set_loop', '_inform_loop', '_inform_asynchronous'))
        bad, n = None, 0
        for st, status in paths:
            if is_failure(st.events, status):
                continue
            n += 1
            hits = [e for e in st.events if e.kind == 'ENTER' and e.x.get('callee') is sink_init]
            if len(hits) != 1:
                bad = st.events
        R.ob('STRONG-SINK', ctx.construct(init_fn), 'reaches-Sink.__init__', bad is None and n > 0,
             'a constructor path of this sink does not reach Sink.__init__ exactly once (it would not be kept alive)',
             ctx.where(init_fn, init_fn.node.lineno), fmt_path(bad) if bad else None, n)


def check_edit_reach(ctx, R):
    """connect()/disconnect() only edit the edge: by name-based call-graph closure they reach neither destroy() nor the
    removal from _global_sinks (a sink stays alive until it is *destroyed*)"""
    M = ctx.model
    by_name = {}
    for c in M.nodes:
        for mname, fn in c.methods.items():
            by_name.setdefault(mname, []).append(fn)
    for entry in ('connect', 'disconnect'):
        start = M.stream.methods.get(entry)
        if start is None:
            raise AnalysisError('anchor vanished: Stream.' + entry)
        seen, work = {}, [start]
        bad = None
        while work:
            fn = work.pop()
            if fn.fq in seen:
                continue
            seen[fn.fq] = fn
            for n in own_nodes(fn.node):
                if isinstance(n, ast.Call) and isinstance(n.func, ast.Attribute):
                    if src(n.func.value) == '_global_sinks' and n.func.attr in ('remove', 'discard', 'clear', 'pop'):
                        bad = (fn, n, 'unregisters the sink from _global_sinks')
                    if n.func.attr == 'destroy':
                        bad = bad or (fn, n, 'calls destroy()')
                    for callee in by_name.get(n.func.attr, []):
                        if n.func.attr.startswith('_') or n.func.attr in ('destroy',):
                            work.append(callee)
        R.ob('STRONG-SINK', ctx.construct(start), 'edits-only-the-edge', bad is None,
             '%s() reaches %s which %s: merely re-wiring a sink drops its keep-alive reference' % (
                 entry, bad[0].qual if bad else '?', bad[2] if bad else '?'),
             ctx.where(bad[0], bad[1].lineno) if bad else ctx.where(start, start.node.lineno), None, len(seen))


def check_destroy_super(ctx, R, classes):
    M = ctx.model
    base = M.stream.methods['destroy']
    for c in classes:
        fn = c.methods.get('destroy')
        if fn is None or c is M.stream:
            continue
        bad, n = None, 0
        for st, status in ctx.paths(fn, c, depth=5):
            if is_failure(st.events, status):
                continue
            n += 1
            hits = [e for e in st.events if e.kind == 'ENTER' and e.x.get('callee') is base]
            if len(hits) != 1:
                bad = st.events
        R.ob('DESTROY-SUPER', ctx.construct(fn), 'reaches-Stream.destroy', bad is None and n > 0,
             'a path of this destroy() override does not reach Stream.destroy exactly once: the node stays linked',
             ctx.where(fn, fn.node.lineno), fmt_path(bad) if bad else None, n)
    # Stream.destroy itself unlinks both ends for every upstream (BOTH-ENDS covers the pairing); it must iterate a copy
    # (on the event paths: no iteration of the loop that unlinks runs over self.upstreams itself or a local alias of it)
    bad, n = None, 0
    for st, status in ctx.paths(base, M.stream):
        for e in st.events:
            if e.kind == 'ITER' and e.depth == 0:
                n += 1
                if (e.x or {}).get('iter_field') == 'upstreams':
                    bad = st.events
    # destroy() detaches the node from its *upstreams* only: on its symbolic paths every edge edit has `self` at the downstream
    # end (X._remove_downstream(self) / self._remove_upstream(X)).  A destroy that also lets go of the node's consumers removes
    # the node as an input of whatever it feeds (a slice that reaches its end would take itself out of a downstream zip)
    from ..symexpr import SymEval
    scope_bad, n_scope = None, 0
    for cls_ in [M.stream] + [c for c in classes if 'destroy' in c.methods and c is not M.stream]:
        dfn = cls_.methods.get('destroy')
        if dfn is None:
            continue
        try:
            recs = [r for r in SymEval(M, cls_, no_splice=tuple(PRIMITIVES)).run(dfn) if not r.raised]
        except AnalysisError:
            continue
        for r in recs:
            for k, e, recv, arg, l, c in _ops_of_record(r):
                n_scope += 1
                if (e == 'down' and recv == 'self') or (e == 'up' and arg == 'self'):
                    scope_bad = scope_bad or '%s: %s' % (ctx.construct(dfn), src(c)[:70])
    R.ob('DESTROY-SUPER', ctx.construct(base), 'upstream-edges-only', scope_bad is None and n_scope > 0,
         'destroy() also removes edges to the node\'s consumers (%s): the node is taken out of the inputs of what it feeds'
         % scope_bad, ctx.where(base, base.node.lineno), None, n_scope)
    R.ob('DESTROY-SUPER', ctx.construct(base), 'iterates-copy', bad is None and n > 0,
         'Stream.destroy mutates self.upstreams while iterating it (every second upstream would stay linked)',
         ctx.where(base, base.node.lineno), fmt_path(bad) if bad else None, n)


def _sentinel_tests(node):
    """(tested expression, 'identity' | 'truth', node) for every name / attribute used as a test or compared with None"""
    for n in ast.walk(node):
        tests = []
        if isinstance(n, (ast.If, ast.While, ast.IfExp, ast.Assert)):
            tests.append(n.test)
        if isinstance(n, ast.comprehension):
            tests.extend(n.ifs)
        for t in tests:
            stack = [t]
            while stack:
                e = stack.pop()
                if isinstance(e, ast.BoolOp):
                    stack.extend(e.values)
                elif isinstance(e, ast.UnaryOp) and isinstance(e.op, ast.Not):
                    stack.append(e.operand)
                elif isinstance(e, ast.Compare) and len(e.ops) == 1 and isinstance(e.ops[0], (ast.Is, ast.IsNot)) \
                        and isinstance(e.comparators[0], ast.Constant) and e.comparators[0].value is None:
                    yield e.left, 'identity', e
                elif isinstance(e, (ast.Name, ast.Attribute)):
                    yield e, 'truth', e


def check_none_sentinel(ctx, R, classes):
    """contradiction rule (beliefs about one value must agree): see RULES['NONE-SENTINEL']"""
    # method parameters: an optional *collection* argument (default None, iterated / copied / measured in the method) is absent
    # only when it is None - an empty selection given explicitly means "nothing", not "everything"
    for c in classes:
        for mname, fn in c.methods.items():
            if mname == '__init__':
                continue
            a_ = fn.node.args
            pos_ = a_.posonlyargs + a_.args
            opt = {p.arg for p, d in zip(pos_[len(pos_) - len(a_.defaults):], a_.defaults) if isinstance(d, ast.Constant) and d.value is None}
            opt |= {p.arg for p, d in zip(a_.kwonlyargs, a_.kw_defaults) if isinstance(d, ast.Constant) and d.value is None}
            if not opt:
                continue
            coll = set()
            for n in own_nodes(fn.node):
                if isinstance(n, (ast.For, ast.AsyncFor)):
                    coll |= {x.id for x in ast.walk(n.iter) if isinstance(x, ast.Name) and x.id in opt}
                if isinstance(n, ast.Call) and isinstance(n.func, ast.Name) and n.func.id in ('list', 'set', 'tuple', 'sorted', 'len') and n.args:
                    coll |= {x.id for x in ast.walk(n.args[0]) if isinstance(x, ast.Name) and x.id in opt}
            # (`metadata` is no selection: None and the empty list both mean "no metadata", Stream._emit itself tests `if metadata:`)
            coll.discard('metadata')
            for nm in sorted(coll):
                truth = [node for e, style, node in _sentinel_tests(fn.node) if isinstance(e, ast.Name) and e.id == nm and style == 'truth']
                R.ob('NONE-SENTINEL', ctx.construct(fn), 'param:' + nm, not truth,
                     'the optional collection argument `%s` (default None) is tested for truthiness: an empty selection given '
                     'explicitly is treated as absent, i.e. as "all"' % nm, ctx.where(fn, truth[0].lineno) if truth else None)
    for c in classes:
        init = c.methods.get('__init__')
        if init is None:
            continue
        a = init.node.args
        pos = a.posonlyargs + a.args
        defaults = dict(zip([p.arg for p in pos[len(pos) - len(a.defaults):]], a.defaults))
        for k, d in zip(a.kwonlyargs, a.kw_defaults):
            if d is not None:
                defaults[k.arg] = d
        # optional values whose absence is None: parameters defaulting to None, and locals taken from **kwargs with a None
        # default (emit_on = kwargs.pop('emit_on', None)); each is followed up to its first re-binding
        INF = 10 ** 9
        defined = {p: 0 for p, d in defaults.items() if isinstance(d, ast.Constant) and d.value is None}
        assigns = {}
        for n in own_nodes(init.node):
            if isinstance(n, (ast.Assign, ast.AugAssign, ast.For, ast.AnnAssign)):
                tg = n.targets if isinstance(n, ast.Assign) else [n.target]
                for t in tg:
                    for x in ast.walk(t):
                        if isinstance(x, ast.Name):
                            assigns.setdefault(x.id, []).append(n)
        for nm, lst in assigns.items():
            first = sorted(lst, key=lambda n: n.lineno)[0]
            v = getattr(first, 'value', None)
            if nm not in defined and isinstance(first, ast.Assign) and isinstance(v, ast.Call) and isinstance(v.func, ast.Attribute) \
                    and v.func.attr in ('pop', 'get') and len(v.args) == 2 and isinstance(v.args[1], ast.Constant) \
                    and v.args[1].value is None:
                defined[nm] = first.lineno
        rebind = {}
        for nm, dl in defined.items():
            later = [n.lineno for n in assigns.get(nm, []) if n.lineno > dl]
            rebind[nm] = min(later) if later else INF
        none_params = set(defined)
        fields = {}
        for n in own_nodes(init.node):
            if isinstance(n, ast.Assign) and isinstance(n.value, ast.Name) and n.value.id in none_params \
                    and defined[n.value.id] < n.lineno <= rebind[n.value.id]:
                for t in n.targets:
                    if self_field(t) and isinstance(t, ast.Attribute):
                        fields[self_field(t)] = n.value.id
        if not none_params:
            continue
        styles = {}
        for mname, fn in c.methods.items():
            for e, style, node in _sentinel_tests(fn.node):
                key = None
                if isinstance(e, ast.Name) and mname == '__init__' and e.id in none_params \
                        and defined[e.id] < node.lineno <= rebind[e.id]:
                    key = e.id
                elif isinstance(e, ast.Attribute) and self_field(e) in fields:
                    key = fields[self_field(e)]
                if key:
                    styles.setdefault(key, []).append((style, fn, node))
        for key, uses in sorted(styles.items()):
            ident = [u for u in uses if u[0] == 'identity']
            truth = [u for u in uses if u[0] == 'truth']
            if not ident:
                continue            # consistently truthiness: empty and absent are deliberately the same
            R.ob('NONE-SENTINEL', c.fq.replace(':', '.'), key, not truth,
                 'the optional argument `%s` is tested with `is None` in %s but for truthiness in %s: a falsy value (0, empty) '
                 'is treated as absent there' % (key, ident[0][1].qual, ', '.join(sorted({u[1].qual for u in truth}))),
                 ctx.where(truth[0][1], truth[0][2].lineno) if truth else None)


# ----------------------------------------------------------------------------- EDIT-ATOMIC
def _sequence_shaped(ctx, cls, field, depth=0):
    """every in-package store of self.<field> (methods of the class and its bases), on the normal form of the storing
    method, is a sequence: a tuple/list literal or comprehension, tuple()/list()/sorted(), the method's *args, or another
    sequence-shaped field. (None when some store is something else / cannot be evaluated.)"""
    from ..symexpr import SymEval
    if depth > 2:
        return False
    M = ctx.model
    n = 0
    for c in cls.mro:
        if not c.module.name.startswith('streamz'):
            continue
        for mname, fn in c.methods.items():
            if not any(isinstance(x, (ast.Assign, ast.AugAssign, ast.AnnAssign)) and any(
                    self_field(t) == field and isinstance(t, ast.Attribute)
                    for t in (x.targets if isinstance(x, ast.Assign) else [x.target])) for x in own_nodes(fn.node)):
                continue
            va = fn.node.args.vararg.arg if fn.node.args.vararg else None
            try:
                recs = SymEval(M, cls).run(fn)
            except AnalysisError:
                return False
            for r in recs:
                for f, v, _s, _l in r.stores:
                    if f != field:
                        continue
                    n += 1
                    ok = isinstance(v, (ast.Tuple, ast.List, ast.ListComp)) or \
                        (isinstance(v, ast.Call) and isinstance(v.func, ast.Name) and v.func.id in ('tuple', 'list', 'sorted')) or \
                        (isinstance(v, ast.Name) and v.id == va) or \
                        (self_field(v) is not None and isinstance(v, ast.Attribute) and self_field(v) != field
                         and _sequence_shaped(ctx, cls, self_field(v), depth + 1))
                    if not ok:
                        return False
    return n > 0


def check_edit_atomic(ctx, R, classes):
    """Stream.connect / disconnect / destroy call one hook on each end of the edge. Whatever hook runs second must not refuse:
    on the symbolic paths of every override of that hook, a path ending in an explicit `raise` is accepted only when one of its
    tests is dead by shape (`self.<sequence-shaped field> == <the node handed in>`: nodes define no __eq__, a tuple/list never
    equals a node)."""
    from ..symexpr import SymEval
    M = ctx.model
    HOOKS = ('_add_downstream', '_add_upstream', '_remove_downstream', '_remove_upstream')
    second = {}
    for entry in ('connect', 'disconnect', 'destroy'):
        fn = M.stream.methods.get(entry)
        if fn is None:
            raise AnalysisError('anchor vanished: Stream.' + entry)
        for r in SymEval(M, M.stream, name_calls=True, no_splice=HOOKS).run(fn):
            seen = []
            for kind, k in r.order:
                if kind != 'call':
                    continue
                c = r.calls[k][0]
                if isinstance(c, ast.Call) and isinstance(c.func, ast.Attribute) and c.func.attr in HOOKS:
                    h = c.func.attr
                    if any(h0 != h for h0 in seen):
                        second.setdefault(h, entry)
                    seen.append(h)
    if not second:
        raise AnalysisError('Stream.connect/disconnect/destroy: no two-step edge edit found (unrecognised spelling)')
    eq_definers = [c.fq for c in M.nodes if '__eq__' in c.methods]
    for h, entry in sorted(second.items()):
        for cls in classes:
            fn = cls.methods.get(h)
            if fn is None:
                continue
            params = [p_ for p_ in fn.params() if p_ != 'self']
            bad, n = None, 0
            try:
                recs = SymEval(M, cls).run(fn)
            except AnalysisError as e:
                raise AnalysisError('%s: %s' % (ctx.construct(fn), e))
            for r in recs:
                n += 1
                if not r.raised:
                    continue
                dead = False
                for t, o in r.conds:
                    k = t.replace(' ', '')
                    for p_ in params:
                        for pat, want in (('self.%s==' + p_, True), (p_ + '==self.%s', True), ('self.%sis' + p_, True)):
                            m = None
                            head, tail = pat.split('%s')
                            if k.startswith(head) and k.endswith(tail) and len(k) > len(head) + len(tail):
                                m = k[len(head):len(k) - len(tail)] if tail else k[len(head):]
                            if m and m.isidentifier() and o is want and not eq_definers and _sequence_shaped(ctx, cls, m):
                                dead = True
                if not dead:
                    bad = '; '.join('%s is %s' % c for c in r.conds) or 'unconditionally'
            R.ob('EDIT-ATOMIC', ctx.construct(fn), 'second-step-cannot-refuse', bad is None,
                 '%s runs second in Stream.%s (the other end of the edge was already edited) but can refuse with an explicit raise '
                 '[%s]: the two ends of the edge then disagree' % (h, entry, bad), ctx.where(fn, fn.node.lineno), None, n)


# ----------------------------------------------------------------------------- HOOKS-ONLY
def check_hooks_only(ctx, R, modules=('streamz.core', 'streamz.sinks', 'streamz.sources', 'streamz.dask')):
    """who-may-write rule for the two edge containers: a direct mutation of `<x>.upstreams` / `<x>.downstreams` (method call
    that changes it, item assignment / deletion, re-binding of the attribute) is allowed only in the base hooks
    Stream._add_upstream/_remove_upstream/_add_downstream/_remove_downstream, in constructors, and in private helpers that are
    referenced only from constructors.  A destroy()/disconnect() that edits the containers itself bypasses the overrides of
    zip / combine_latest (per-input buffers are not dropped, their references never released)."""
    M = ctx.model
    MUT = {'upstreams': ('append', 'remove', 'insert', 'pop', 'clear', 'extend', 'reverse', 'sort'),
           'downstreams': ('add', 'remove', 'discard', 'clear', 'pop', 'update')}

    def ctor_only_function(fn, depth=0):
        if fn.name == '__init__':
            return True
        if not fn.name.startswith('_') or fn.name.startswith('__') or depth > 3:
            return False
        refs = []
        for g in M.all_funcs():
            if not g.module.name.startswith('streamz') or '.tests' in g.module.name or g is fn:
                continue
            for n in own_nodes(g.node):
                if (isinstance(n, ast.Attribute) and n.attr == fn.name) or (isinstance(n, ast.Name) and n.id == fn.name and fn.cls is None):
                    refs.append(g)
        return bool(refs) and all(ctor_only_function(g, depth + 1) for g in refs)

    n_sites = 0
    for fn in M.all_funcs():
        if fn.module.name not in modules:
            continue
        sites = []
        for n in own_nodes(dealias(fn.node)):
            if isinstance(n, ast.Call) and isinstance(n.func, ast.Attribute) and isinstance(n.func.value, ast.Attribute) \
                    and n.func.value.attr in MUT and n.func.attr in MUT[n.func.value.attr]:
                sites.append((n, '%s.%s()' % (n.func.value.attr, n.func.attr)))
            if isinstance(n, (ast.Assign, ast.AugAssign, ast.Delete)):
                tg = n.targets if isinstance(n, (ast.Assign, ast.Delete)) else [n.target]
                for t in tg:
                    base = t.value if isinstance(t, ast.Subscript) else t
                    if isinstance(base, ast.Attribute) and base.attr in MUT and not (
                            isinstance(t, ast.Attribute) and isinstance(t.value, ast.Name) and t.value.id == 'self' and fn.name == '__init__'):
                        sites.append((n, '%s written' % base.attr))
        if not sites:
            continue
        n_sites += len(sites)
        base_hook = fn.cls is M.stream and fn.name in PRIMITIVES
        ok = base_hook or ctor_only_function(fn)
        R.ob('HOOKS-ONLY', ctx.construct(fn), 'edits-edge-containers', ok,
             '%s edits the edge containers itself (%s) instead of going through _add/_remove_upstream/_downstream: the overrides '
             'of nodes with per-input state (zip, combine_latest) are bypassed - buffers keep entries for inputs that are gone '
             'and the references they hold are never released' % (fn.qual, ', '.join(sorted({d for _, d in sites}))),
             ctx.where(fn, sites[0][0].lineno), None, len(sites))
    R.count('edge_container_write_sites', n_sites)


# ----------------------------------------------------------------------------- NONE-BOUND
def check_none_bound(ctx, R, classes):
    """fields stored from a constructor parameter whose default is None (the stored value on the constructor's normal form is
    that parameter); every use of `self.<field>` as a bound of a slice, in any method of the class, must be guarded: inside an
    `if` whose test has the conjunct `self.f` / `self.f is not None` (or in the else-arm of `self.f is None` / `not self.f`), or
    after an early exit `if not self.f: return/continue/raise`."""
    from ..symexpr import SymEval
    M = ctx.model
    for cls in classes:
        init = cls.methods.get('__init__')
        if init is None:
            continue
        a_ = init.node.args
        pos = a_.posonlyargs + a_.args
        none_params = {x.arg for x, d in zip(pos[len(pos) - len(a_.defaults):], a_.defaults) if isinstance(d, ast.Constant) and d.value is None}
        none_params |= {x.arg for x, d in zip(a_.kwonlyargs, a_.kw_defaults) if isinstance(d, ast.Constant) and d.value is None}
        optional = set()
        for n in own_nodes(init.node):
            if isinstance(n, ast.Assign) and len(n.targets) == 1 and isinstance(n.targets[0], ast.Attribute) and self_field(n.targets[0]):
                v = n.value
                if isinstance(v, ast.Name) and v.id in none_params:
                    optional.add(self_field(n.targets[0]))
                if isinstance(v, ast.Call) and isinstance(v.func, ast.Attribute) and v.func.attr in ('pop', 'get') and len(v.args) == 2 \
                        and isinstance(v.args[1], ast.Constant) and v.args[1].value is None:
                    optional.add(self_field(n.targets[0]))
        if not optional:
            continue
        for mname, fn in cls.methods.items():
            uses = []
            for n in own_nodes(fn.node):
                if isinstance(n, ast.Subscript) and isinstance(n.slice, ast.Slice):
                    for b in (n.slice.lower, n.slice.upper):
                        if b is not None:
                            for x in ast.walk(b):
                                f = self_field(x) if isinstance(x, ast.Attribute) else None
                                if f in optional and isinstance(x, ast.Attribute) and isinstance(x.value, ast.Name):
                                    uses.append((n, f))
            for node, f in uses:
                R.ob('NONE-BOUND', ctx.construct(fn), '%s@%d' % (f, [u for u in uses if u[1] == f].index((node, f))),
                     _guarded_by_field(fn.node, node, f),
                     'self.%s defaults to None and is used as a slice bound without a test that it is set: with the default, '
                     '`[None:]` is the whole sequence (here: the whole history is deleted / taken)' % f, ctx.where(fn, node.lineno))


def _guarded_by_field(root, node, f):
    """is `node` executed only when self.<f> was found truthy / not None (structured guards only)"""
    def test_says(t, want_set):
        # does the truth (want_set=True) / falsity (False) of test t imply that the field is set
        if isinstance(t, ast.BoolOp) and isinstance(t.op, ast.And) and want_set:
            return any(test_says(v, True) for v in t.values)
        if isinstance(t, ast.BoolOp) and isinstance(t.op, ast.Or) and not want_set:
            return any(test_says(v, False) for v in t.values)
        if isinstance(t, ast.UnaryOp) and isinstance(t.op, ast.Not):
            return test_says(t.operand, not want_set)
        if isinstance(t, ast.Attribute) and self_field(t) == f:
            return want_set
        if isinstance(t, ast.Compare) and len(t.ops) == 1 and isinstance(t.left, ast.Attribute) and self_field(t.left) == f:
            c = t.comparators[0]
            if isinstance(c, ast.Constant) and c.value is None:
                if isinstance(t.ops[0], ast.IsNot):
                    return want_set
                if isinstance(t.ops[0], ast.Is):
                    return not want_set
            if isinstance(t.ops[0], (ast.Gt, ast.GtE)) and want_set:
                return True         # self.f > 0: comparable, hence not None
        return False

    def walk(stmts):
        # returns True when node is found under a guard, False when found unguarded, None when not in these statements
        exited = False      # an earlier `if <field unset>: return` in this block
        for s_ in stmts:
            inside = any(x is node for x in ast.walk(s_))
            if isinstance(s_, ast.If):
                if any(x is node for b in s_.body for x in ast.walk(b)):
                    if test_says(s_.test, True) or exited:
                        return True
                    r = walk(s_.body)
                    return r if r is not None else False
                if any(x is node for b in s_.orelse for x in ast.walk(b)):
                    if test_says(s_.test, False) or exited:
                        return True
                    r = walk(s_.orelse)
                    return r if r is not None else False
                if any(x is node for x in ast.walk(s_.test)):
                    return exited
                # an early exit when the field is unset protects what follows
                if s_.body and isinstance(s_.body[-1], (ast.Return, ast.Continue, ast.Raise, ast.Break)) and test_says(s_.test, False) \
                        and not s_.orelse:
                    exited = True
                continue
            if inside:
                if exited:
                    return True
                for fld in ('body', 'orelse', 'finalbody'):
                    sub = getattr(s_, fld, None)
                    if isinstance(sub, list) and sub and isinstance(sub[0], ast.stmt) and any(x is node for b in sub for x in ast.walk(b)):
                        r = walk(sub)
                        return r if r is not None else False
                for h in getattr(s_, 'handlers', []) or []:
                    if any(x is node for b in h.body for x in ast.walk(b)):
                        r = walk(h.body)
                        return r if r is not None else False
                return False
        return None
    r = walk(root.body)
    return bool(r)
