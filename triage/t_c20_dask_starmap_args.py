"""C20 witness: the Dask starmap took no extra positional arguments, unlike the local starmap
(`x + self.args`): replacing a local segment `starmap(f, extra)` by scatter().starmap(f, extra).gather()
raised TypeError at construction instead of producing the same results."""
import asyncio
from distributed import Client
from streamz import Stream


def add(x, y, z, w=0):
    return x + y + z + w


async def main():
    async with Client(processes=False, asynchronous=True, dashboard_address=None) as c:
        local = Stream(asynchronous=True)
        Ll = local.starmap(add, 100, w=1).sink_to_list()
        src = Stream(asynchronous=True)
        Ld = src.scatter().starmap(add, 100, w=1).gather().sink_to_list()
        for i in range(3):
            await local.emit((i, i))
            await src.emit((i, i))
        print('local', Ll, 'dask', Ld)
        assert Ll == Ld == [101, 103, 105]
        print('OK')

asyncio.run(main())
