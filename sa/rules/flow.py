"""Backpressure plumbing and metadata flow rules (DESIGN 4.3, 4.5) on enumerated paths."""
import ast

from ..model import AnalysisError, own_nodes, src, self_field
from ..paths import fmt_path, FLAT, NESTED, NONE, AW, OTHER, SCALAR
from .holds import _cond_tags, DROPPED_EMIT_OK, md_containers, is_failure

RULES = {
    'PROPAGATE': 'the value of every _emit()/emit() call is, on every path, returned from the enclosing function, awaited, '
                 'or stored in a slot that update() returns - never dropped',
    'FLAT-RETURN': 'what update() returns is None, one awaitable or a flat list of awaitables (never a nested list)',
    'BOUND-PLUMB': 'the documented bound parameter reaches the bounding primitive and update() returns that primitive\'s wait',
    'NOTIFY-ON-FREE': 'every path that frees space producers wait on notifies the waiters',
    'EMIT-CONVERT': 'Stream.emit turns the _emit result into one awaitable (asynchronous) / waits for it inside sync() (blocking)',
    'SYNC-TRANSPORT': 'sync() stores the coroutine\'s exception and re-raises it in the calling thread; otherwise returns its result',
    'SHARED-METADATA': 'the metadata list an update() receives is the very object every sibling downstream (and the emitter) '
                       'receives: it is never edited in place - neither directly, nor through a field or container slot into '
                       'which it was stored as it is',
    'USER-CALL-SHAPE': 'the user callable of map / filter / sink is invoked as f(x, *extra, **kwargs), that of starmap as '
                       'f(*x, *extra, **kwargs): the element (its members) first, then the extra positional arguments given at '
                       'construction, in their order (frozen table from the class docstrings; compared on normal forms)',
    'META-PASS': 'where the emitted data derives from the current element only and the node buffers no metadata, the '
                 'metadata argument of _emit is the unmodified metadata parameter (one-to-many: exactly the last piece)',
    'AWAITABLE-RESULT': 'a node that hands what its user function returned back to the emitter (sink) drops that result only '
                        'after the complete awaitability test (gen.isawaitable / inspect.isawaitable) said no - never after a '
                        'narrower one (is_future, iscoroutine, isinstance(..., Future)), which lets other awaitables escape unawaited',
    'META-FLAT': 'every metadata argument of _emit is a flat list of dicts',
    'PAIRED-BUFFER': 'an element buffer and its metadata twin are mutated under the same conditions, in the same order',
}

ANCHOR_MODULES_C03 = ('streamz.core', 'streamz.sinks', 'streamz.sources', 'streamz.dask')


def emit_sites(fn):
    out = []
    for n in own_nodes(fn.node):
        if isinstance(n, ast.Call) and isinstance(n.func, ast.Attribute) and n.func.attr in ('_emit', 'emit'):
            out.append(n)
    return out


def raw_emit_site_count(model, modules=None):
    n = 0
    for m in model.modules.values():
        if modules and m.name not in modules:
            continue
        for x in ast.walk(m.tree):
            if isinstance(x, ast.Call) and isinstance(x.func, ast.Attribute) and x.func.attr in ('_emit', 'emit'):
                n += 1
    return n


def check_propagate(ctx, R, modules=ANCHOR_MODULES_C03, note_modules=('streamz.river', 'streamz.collection',
                                                                       'streamz.dataframe.core')):
    M = ctx.model
    reached = 0
    for fn in M.all_funcs():
        if fn.module.name not in modules and fn.module.name not in note_modules:
            continue
        sites = emit_sites(fn)
        if not sites:
            continue
        cls = fn.cls
        if cls is None and fn.parent is None:
            # a module-level helper that emits for the node it is handed (`_emit_and_track(node, x, m)`): analysed on a clone in
            # which that parameter is called `self`, as a method of Stream - so that what it stores into the node's fields and
            # hands back is seen for what it is
            recv = {s_.func.value.id for s_ in sites if isinstance(s_.func.value, ast.Name)}
            nodep = [p_ for p_ in fn.params() if p_ in recv]
            if len(nodep) == 1 and 'self' not in fn.params():
                import copy as _copy
                pname = nodep[0]

                class _Ren(ast.NodeTransformer):
                    def visit_Name(self_, n_):
                        return ast.copy_location(ast.Name(id='self', ctx=n_.ctx), n_) if n_.id == pname else n_

                    def visit_arg(self_, n_):
                        return ast.copy_location(ast.arg(arg='self', annotation=n_.annotation), n_) if n_.arg == pname else n_
                from ..model import Func as _Func
                node2 = _Ren().visit(_copy.deepcopy(fn.node))
                fn = _Func(fn.module, fn.qual, node2, cls=M.stream, parent=None)
                cls = M.stream
                sites = emit_sites(fn)
        # a method of a private base class is analysed as a method of each concrete subclass (where its hooks resolve)
        contexts = [cls]
        if cls is not None and cls in getattr(M, 'private_bases', ()) and fn.owner is cls:
            subs = [c for c in M.classes if c.methods.get(fn.name) is fn and c is not cls and c not in M.private_bases]
            contexts = subs or [cls]
        paths = []
        for c_ in contexts:
            paths += list(ctx.paths(fn, c_))
        R.count('paths', len(paths))
        con = ctx.construct(fn)
        cname = cls.name if cls else None
        for site in sites:
            reached += 1
            tag = 'emit@%d' % site.lineno
            bad = None
            npaths = 0
            for st, status in paths:
                evs = st.events
                idx = [i for i, e in enumerate(evs) if e.kind == 'EM' and e.x.get('node') is site]
                if not idx:
                    continue
                for i in idx:
                    # the emit call itself raised: there is no result to propagate
                    if any(x.kind == 'EXC' and x.x and x.x.get('source') is evs[i] for x in evs[i:i + 2]):
                        continue
                    npaths += 1
                    # segment until the same site is reached again (next loop iteration)
                    nxt = next((j for j in idx if j > i), len(evs))
                    seg = evs[i + 1:nxt + 1] if nxt < len(evs) else evs[i + 1:]
                    # (inside a coroutine `return <emit result>` makes the list the *value* of the coroutine's future: nobody
                    # awaits its members - a native-coroutine consumer never runs - so only an await counts there)
                    kinds = ('SUS',) if fn.is_coro else ('SUS', 'RETURN')
                    ok = any(e.kind in kinds and e.b and tag in e.b for e in seg)
                    if not ok and not fn.is_coro:
                        # accumulated into a local list that is returned later (flatten, zip_latest)
                        ok = any(e.kind == 'LADD' and e.b and tag in e.b for e in seg) and \
                            (any(e.kind == 'RETURN' and e.b and tag in e.b for e in evs[i + 1:])
                             or status == 'loopcut')      # (an unrolling cut of `while True`: the return lies beyond the cut)
                    if not ok:
                        # stored in a field that update() hands to producers (deferred-return slot)
                        slots = [e.a for e in seg if e.kind == 'ST' and e.b and tag in e.b and e.c == 'assign']
                        for f in slots:
                            if any(e.kind == 'SUS' and e.b and ('field:' + f) in e.b for e in seg):
                                ok = True
                    if not ok:
                        # truthiness-guarded await: `if results: await gather(*results)`
                        ok = any(e.kind == 'COND' and e.b is False and tag in _cond_tags(st, e) for e in seg)
                    if not ok and cname == 'Stream' and fn.name in _emit_family(M):
                        # no loop => nothing can be awaited (EMIT-CONVERT checks the other branch)
                        ok = any(e.kind == 'COND' and e.b is False and e.a == 'self.loop' for e in seg)
                    if not ok and is_failure(seg, status) and not any(e.kind == 'HANDLED' for e in seg):
                        ok = True       # an exception is travelling to the caller instead of a result
                    if not ok:
                        # the call / await the result was handed to (gather(*result), the await itself) raised: the result
                        # was not dropped by this function, whatever a handler does afterwards
                        for e in seg:
                            if e.kind == 'EXC' and e.x and e.x.get('source') is not None:
                                s_ev = e.x['source']
                                if s_ev.kind in ('CALL', 'SUS') and s_ev.b and not isinstance(s_ev.b, (bool, str)) and tag in s_ev.b:
                                    ok = True
                            if e.kind in ('ITER',):
                                break
                    if not ok and (cname, fn.name) in DROPPED_EMIT_OK:
                        R.table('DROPPED_EMIT_OK', {'%s.%s' % k: v for k, v in DROPPED_EMIT_OK.items()})
                        ok = True
                    if not ok and bad is None:
                        bad = evs
            if npaths == 0:
                raise AnalysisError('emit site %s:%d is on no enumerated path of %s' % (fn.file, site.lineno, con))
            if fn.is_coro and bad is None and _in_unawaited_comprehension(fn.node, site):
                # one await for a whole batch of emissions: every element but the last is handed downstream before the
                # emission of the previous one has completed (the comprehension cannot wait in between)
                bad = []
            token = '%s@%s' % (site.func.attr, _site_ordinal(fn, site))
            if fn.module.name in modules:
                R.ob('PROPAGATE', con, token, bad is None,
                     ('the result of %s is dropped on some path (backpressure stops here)' % src(site)[:60] if bad else
                      '%s is evaluated once per iteration of a comprehension and the results are awaited together: every element '
                      'but the last is handed downstream before the previous emission has completed' % src(site)[:60])
                     if bad is not None else '',
                     ctx.where(fn, site.lineno), fmt_path(bad) if bad else None, npaths)
            elif bad is not None:
                R.note('PROPAGATE outside C03\'s anchors: %s drops the result of %s at %s'
                       % (con, src(site)[:50], ctx.where(fn, site.lineno)))
    _propagate_through_helpers(ctx, R, modules)
    raw = raw_emit_site_count(M, set(modules) | set(note_modules))
    R.count('emit_sites', reached)
    if reached != raw:
        raise AnalysisError('emit sites reached through functions (%d) != raw AST count (%d): a function was missed'
                            % (reached, raw))


def _in_unawaited_comprehension(root, site):
    """is the emission call evaluated once per iteration of a comprehension / generator expression without being awaited
    inside that very iteration (`[f for part in parts for f in self._emit(part)]`, then one gather over all of them)"""
    for comp in ast.walk(root):
        if not isinstance(comp, (ast.ListComp, ast.SetComp, ast.GeneratorExp, ast.DictComp)):
            continue
        inner_gens = comp.generators[1:]
        in_later_iter = any(x is site for g in inner_gens for x in ast.walk(g.iter))
        in_elt = any(x is site for e_ in ([comp.elt] if not isinstance(comp, ast.DictComp) else [comp.key, comp.value]) for x in ast.walk(e_))
        if not (in_later_iter or in_elt):
            continue
        # awaited inside the iteration itself?
        for e_ in ([comp.elt] if not isinstance(comp, ast.DictComp) else [comp.key, comp.value]):
            for aw in ast.walk(e_):
                if isinstance(aw, (ast.Await, ast.Yield)) and any(x is site for x in ast.walk(aw)):
                    return False
        return True
    return False


def _same_site(a, b):
    return a is b or (a is not None and b is not None and getattr(a, 'lineno', None) == getattr(b, 'lineno', -1)
                      and getattr(a, 'col_offset', None) == getattr(b, 'col_offset', -1)
                      and getattr(a, 'end_col_offset', None) == getattr(b, 'end_col_offset', -1))


def _propagate_through_helpers(ctx, R, modules):
    """an emission made inside a private helper (a method, or a module-level function that is handed the node) is still the
    caller's to wait for: where the helper hands the awaitable back (`return gather(*node._emit(x))`) the caller must await /
    return / accumulate that value; where the helper is itself a coroutine the caller must await the call"""
    M = ctx.model
    for fn in M.all_funcs():
        if fn.module.name not in modules or fn.cls is None:
            continue
        cls = fn.cls
        if cls in getattr(M, 'private_bases', ()):
            continue
        # candidate call sites: calls to package helpers whose body contains an emit call
        cands = []
        for n in own_nodes(fn.node):
            if not isinstance(n, ast.Call):
                continue
            h = None
            if isinstance(n.func, ast.Name):
                h = M.resolve_name(fn.module, n.func)
                if not (hasattr(h, 'params') and getattr(h, 'cls', None) is None):
                    h = None
            elif isinstance(n.func, ast.Attribute) and isinstance(n.func.value, ast.Name) and n.func.value.id == 'self':
                h = cls.find(n.func.attr)
                if h is not None and (h.cls is None or h.name in ('_emit', 'emit', 'update') or not h.module.name.startswith('streamz')):
                    h = None
            if h is not None and h is not fn and emit_sites(h):
                cands.append((n, h))
        if not cands:
            continue
        try:
            paths = list(ctx.paths(fn, cls))
        except AnalysisError:
            continue
        con = ctx.construct(fn)
        kinds = ('SUS',) if fn.is_coro else ('SUS', 'RETURN')
        for ordinal, (call, h) in enumerate(cands):
            bad, npaths = None, 0
            for st, status in paths:
                evs = st.events
                # (a module-level helper that is handed the node is analysed on a clone of the call: match by position)
                starts = [i for i, e in enumerate(evs) if e.kind == 'ENTER' and e.depth == 0 and _same_site((e.x or {}).get('call'), call)]
                for i in starts:
                    j = next((k for k in range(i + 1, len(evs)) if evs[k].kind == 'LEAVE' and evs[k].depth == 0), None)
                    if j is None:
                        continue
                    inner = {'emit@%d' % x.line for x in evs[i:j] if x.kind == 'EM'}
                    if not inner or evs[j].c == 'raise':
                        continue
                    npaths += 1
                    nxt = next((k for k in starts if k > i), len(evs))
                    seg = evs[j + 1:nxt]
                    if h.is_coro:
                        ok = any(x.kind == 'SUS' and x.c == 'spliced' and _same_site((x.x or {}).get('node'), call) for x in seg[:3])
                    else:
                        handed = any(x.kind == 'RETURN' and x.depth == 1 and x.b and (inner & set(x.b)) for x in evs[i:j])
                        if not handed:
                            continue        # the helper keeps (awaits / drops) the result itself: its own obligation
                        ok = any(x.kind in kinds and x.depth == 0 and x.b and (inner & set(x.b)) for x in seg)
                        if not ok and not fn.is_coro:
                            # (accumulated into a local list that is returned after the loop)
                            ok = any(x.kind == 'LADD' and x.b and (inner & set(x.b)) for x in seg) and (
                                any(x.kind == 'RETURN' and x.depth == 0 and x.b and (inner & set(x.b)) for x in evs[j + 1:])
                                or status == 'loopcut')
                    if not ok and is_failure(seg, status) and not any(x.kind == 'HANDLED' for x in seg):
                        ok = True
                    if not ok and cls.name == 'Stream' and fn.name in _emit_family(M):
                        ok = True       # (EMIT-CONVERT decides emit() and the pieces it is split into)
                    if not ok and (cls.name, fn.name) in DROPPED_EMIT_OK:
                        ok = True
                    if not ok and bad is None:
                        bad = evs
            if npaths == 0 and h.is_coro and any(isinstance(x, ast.Expr) and x.value is call for x in own_nodes(fn.node)):
                # a coroutine helper called as a bare statement: its future (and the emission it waits for) is dropped
                npaths, bad = 1, []
            if npaths:
                R.ob('PROPAGATE', con, 'via:%s@%d' % (h.name, ordinal), bad is None,
                     'the awaitable of the emission made inside %s() is dropped by its caller on some path (backpressure stops '
                     'here)' % h.name if bad else '', ctx.where(fn, call.lineno), fmt_path(bad) if bad else None, npaths)


def check_slot_returned(ctx, R, classes):
    """a class that parks the awaitable of an emission in a field (deferred-return slot) must hand that
    field back from update() on every normal path, otherwise producers never wait for the emission"""
    for cls in classes:
        slots = {}
        for mname, fn in ctx.entry_methods(cls):
            if mname in ('__init__', 'update'):
                continue
            for st, status in ctx.paths(fn, cls):
                for e in st.events:
                    if e.kind == 'ST' and e.c == 'assign' and e.b and any(t.startswith('emit@') for t in e.b):
                        slots[e.a] = (fn, e.line)
        up = cls.methods.get('update')
        if not slots or up is None:
            continue
        for f, (fn, line) in slots.items():
            bad, n = None, 0
            for st, status in ctx.paths(up, cls):
                if status == 'raise':
                    continue
                n += 1
                rets = [e for e in st.events if e.kind == 'RETURN' and e.depth == 0]
                if not rets or ('field:' + f) not in (rets[-1].b or ()):
                    bad = st.events
            R.ob('PROPAGATE', ctx.construct(up), 'slot:' + f, bad is None,
                 'the emission parked in self.%s (by %s) is not what update() returns: producers do not wait for it'
                 % (f, fn.name), ctx.where(up, up.node.lineno), fmt_path(bad) if bad else None, n)


def _site_ordinal(fn, site):
    """stable token for a site inside a function: its ordinal among the function's emit sites"""
    sites = sorted(emit_sites(fn), key=lambda n: (n.lineno, n.col_offset))
    return sites.index(site)


def check_flat_return(ctx, R, classes):
    for cls in classes:
        fn = cls.methods.get('update')
        if fn is None:
            continue
        con = ctx.construct(fn)
        paths = ctx.paths(fn, cls)
        bad = None
        shapes = set()
        n = 0
        for st, status in paths:
            for e in st.events:
                if e.kind == 'RETURN' and e.depth == 0:
                    n += 1
                    sh = e.x.get('shape')
                    shapes.add(sh if not isinstance(sh, tuple) else sh[0])
                    if sh == NESTED or (isinstance(sh, tuple) and sh[0] in ('LTUP',)):
                        bad = (e, st.events)
        R.ob('FLAT-RETURN', con, 'return', bad is None,
             'update() can return a nested list (%s); _emit passes it on and awaiting callers get a list where an '
             'awaitable is expected' % (bad[0].a if bad else ''), ctx.where(fn, bad[0].line) if bad else None,
             fmt_path(bad[1]) if bad else None, max(n, 1))
        R.count('return_shapes_' + '_'.join(sorted(str(s) for s in shapes)), 1)


# ----------------------------------------------------------------------------- C03 structural plumbing
def _init_store(cls, pred, model=None):
    """(field, value node, constructor) of the first `self.f = <call>` matching pred(value) on the constructor's symbolic
    normal form (a helper method that does the store, arguments handed to it and temporaries are transparent)"""
    fn = cls.find('__init__')
    if fn is None or fn.cls is None or not fn.module.name.startswith('streamz'):
        return None
    if model is not None:
        from ..symexpr import SymEval
        try:
            recs = [r for r in SymEval(model, cls).run(fn) if not r.raised]
        except AnalysisError:
            recs = []
        for r in recs:
            for f, v, _s, _l in r.stores:
                if pred(v):
                    if not hasattr(v, 'lineno'):
                        v.lineno = fn.node.lineno
                    return f, v, fn
    for n in own_nodes(fn.node):
        if isinstance(n, ast.Assign) and len(n.targets) == 1:
            f = self_field(n.targets[0])
            if f is not None and isinstance(n.targets[0], ast.Attribute) and pred(n.value):
                return f, n.value, fn
    return None


def _call_name(n):
    if isinstance(n, ast.Call):
        f = n.func
        return f.attr if isinstance(f, ast.Attribute) else (f.id if isinstance(f, ast.Name) else None)
    return None


def check_bound_plumb(ctx, R):
    M = ctx.model
    # ---- buffer(n): Queue(maxsize=n); update returns queue.put(...)
    cls = M.cls('streamz.core', 'buffer')
    got = _init_store(cls, lambda v: _call_name(v) == 'Queue', M)
    con = 'streamz.core.buffer'
    if got is None:
        R.ob('BOUND-PLUMB', con, 'queue', False, 'no Queue(...) field is created in buffer.__init__',
             cls.file + ':%d' % cls.node.lineno)
    else:
        f, call, init = got
        params = init.params()
        mx = [k.value for k in call.keywords if k.arg == 'maxsize'] or call.args[:1]
        ok = bool(mx) and isinstance(mx[0], ast.Name) and mx[0].id in params and mx[0].id == 'n'
        qcls = M.resolve_name(cls.module, call.func)
        fifo = src(call.func) in ('Queue', 'queues.Queue', 'tornado.queues.Queue') and \
            cls.module.imports.get('Queue', ('', '', ''))[1:] == ('tornado.queues', 'Queue')
        R.ob('BOUND-PLUMB', con, 'maxsize', ok and fifo,
             'the bound parameter n does not reach Queue(maxsize=...) of a FIFO tornado Queue (found %s)' % src(call),
             ctx.where(init, getattr(call, 'lineno', init.node.lineno)))
        # on symbolic normal forms (helpers - also module-level ones that take the node - and temporaries transparent):
        # every normal path of update returns the put() awaitable of the bounded queue
        from ..symexpr import SymEval, nf as snf
        up = cls.find('update')
        bad, n = None, 0
        for r in SymEval(M, cls).run(up):
            if r.raised:
                continue
            n += 1
            t = snf(r.ret)
            if not (t.startswith('self.%s.put(' % f) and t.endswith(')')):
                bad = 'a path of buffer.update returns %s' % t[:70]
        R.ob('BOUND-PLUMB', con, 'update-returns-put', bad is None and n > 0,
             'buffer.update does not return the bounded queue\'s put() future on every path (%s)' % bad,
             ctx.where(up, up.node.lineno), None, n)
    # ---- map_async(parallelism): asyncio.Queue(maxsize=parallelism); wait for a slot before creating the job
    cls = M.cls('streamz.core', 'map_async')
    con = 'streamz.core.map_async'
    got = _init_store(cls, lambda v: _call_name(v) == 'Queue', M)
    if got is None:
        R.ob('BOUND-PLUMB', con, 'work_queue', False, 'no Queue(...) field in map_async.__init__', cls.file)
    else:
        f, call, init = got
        mx = [k.value for k in call.keywords if k.arg == 'maxsize'] or call.args[:1]
        allp = init.params() + [a.arg for a in init.node.args.kwonlyargs]
        ok = bool(mx) and isinstance(mx[0], ast.Name) and mx[0].id == 'parallelism' and mx[0].id in allp
        R.ob('BOUND-PLUMB', con, 'maxsize', ok and src(call.func) in ('asyncio.Queue',),
             'parallelism does not reach asyncio.Queue(maxsize=...) (found %s)' % src(call), ctx.where(init, getattr(call, 'lineno', init.node.lineno)))
        ij = cls.methods.get('_insert_job')
        if ij is None:
            raise AnalysisError('anchor vanished: map_async._insert_job')
        # on the event paths of _insert_job (helpers spliced): the user function is called and the job queued only after a
        # `while self.<queue>.full(): await ...` loop was left through its test
        bad = None
        wait_loops = {}
        n_paths = 0
        for st, status in ctx.paths(ij, cls):
            evs = st.events
            n_paths += 1
            exits = [i for i, e in enumerate(evs) if e.kind == 'LOOPEXIT' and e.c == 'cond' and isinstance((e.x or {}).get('node'), ast.While)
                     and ('self.%s.full()' % f) in src(e.x['node'].test).replace(' ', '')]
            for i in exits:
                wait_loops[evs[i].x['node'].lineno] = evs[i].x['node']
            iw = exits[0] if exits else None
            iu = next((i for i, e in enumerate(evs) if e.kind == 'UCALL' and e.a == 'func'), None)
            ip = next((i for i, e in enumerate(evs) if e.kind == 'ST' and e.a == f and e.c in ('put', 'put_nowait')), None)
            if iu is not None and (iw is None or iw > iu):
                bad = evs
            if ip is not None and (iw is None or iw > ip):
                bad = evs
        R.ob('BOUND-PLUMB', con, 'wait-before-accept', bad is None and n_paths > 0,
             'a job is created / queued without first awaiting a free work slot', ctx.where(ij, ij.node.lineno),
             fmt_path(bad) if bad else None)
        # the wait loop spins on the queue being full, and yields to the loop while it does
        okw = bool(wait_loops) and all(
            src(w.test).replace(' ', '') == 'self.%s.full()' % f and any(isinstance(n, (ast.Await, ast.Yield)) for b_ in w.body for n in ast.walk(b_))
            for w in wait_loops.values())
        R.ob('BOUND-PLUMB', con, 'slot-wait-loop', okw,
             'map_async does not wait (yielding to the event loop) while the work queue is full', ctx.where(ij, ij.node.lineno))
        from ..symexpr import SymEval, nf as snf
        up = cls.find('update')
        bad, n = None, 0
        for r in SymEval(M, cls).run(up):
            if r.raised:
                continue
            n += 1
            if 'self._insert_job(x,metadata)' not in snf(r.ret):
                bad = 'a path of map_async.update returns %s' % snf(r.ret)[:70]
        R.ob('BOUND-PLUMB', con, 'update-returns-job', bad is None and n > 0,
             'map_async.update does not hand the queued-job task back to its caller (%s)' % bad, ctx.where(up, up.node.lineno),
             None, n)
    # ---- zip(maxsize): over-full buffer => return condition.wait()
    cls = M.cls('streamz.core', 'zip')
    con = 'streamz.core.zip'
    init = cls.methods['__init__']
    ok = any(isinstance(n, ast.Assign) and self_field(n.targets[0]) == 'maxsize' and "'maxsize'" in src(n.value)
             for n in own_nodes(init.node))
    R.ob('BOUND-PLUMB', con, 'maxsize', ok, 'zip.__init__ does not take maxsize from its keyword arguments',
         ctx.where(init, init.node.lineno))
    up = cls.methods['update']
    waits, bad = 0, None
    for st, status in ctx.paths(up, cls, no_inline=('pack_literals',)):
        evs = st.events
        over = [e for e in evs if e.kind == 'COND' and 'self.maxsize' in e.a and e.b is True and e.c is None]
        if over:
            rets = [e for e in evs if e.kind == 'RETURN' and e.depth == 0]
            node = rets[-1].x.get('node') if rets else None
            if isinstance(node, ast.Call) and _call_name(node) == 'wait' and 'condition' in src(node.func):
                waits += 1
                if node.args or node.keywords:
                    # a wait that can time out resolves silently: the blocked producer is let through although no tuple
                    # was emitted, and the buffer grows beyond maxsize by one element per timeout
                    bad = evs
            else:
                bad = evs
    from .idioms import norm
    import re as _re
    tests = [norm(n.test, {}) for n in own_nodes(up.node) if isinstance(n, ast.If) and 'self.maxsize' in src(n.test)]
    strict = any(_re.fullmatch(r'self\.maxsize < len\(\w+\)', t) for t in tests)
    R.ob('BOUND-PLUMB', con, 'full-returns-wait', bad is None and waits > 0 and strict,
         'zip.update does not return condition.wait() when a buffer exceeds maxsize (tests: %s)' % tests,
         ctx.where(up, up.node.lineno), fmt_path(bad) if bad else None, waits)
    # ---- NOTIFY-ON-FREE
    bad, n = None, 0
    for st, status in ctx.paths(up, cls, no_inline=('pack_literals',)):
        evs = st.events
        frees = [i for i, e in enumerate(evs) if e.kind == 'TK' and e.a == 'buffers' and e.c in ('popleft', 'pop')]
        if not frees:
            continue
        n += 1
        if not any(e.kind == 'CALL' and e.c in ('notify_all',) and 'condition' in e.a for e in evs[frees[0]:]):
            bad = evs
    R.ob('NOTIFY-ON-FREE', con + '.update', 'condition', bad is None and n > 0,
         'a path that pops from the per-upstream buffers does not notify_all() the producers waiting on the condition',
         ctx.where(up, up.node.lineno), fmt_path(bad) if bad else None, n)


_EMIT_FAMILY = {}


def _emit_family(M):
    """Stream.emit and the private Stream methods that are called from nowhere but Stream.emit (or another member): the
    pieces emit() was split into share its contract (no loop => nothing can be awaited)"""
    key = id(M)
    if key in _EMIT_FAMILY and _EMIT_FAMILY[key][0] is M:
        return _EMIT_FAMILY[key][1]
    fam = {'emit'}
    cands = [n for n in M.stream.methods if n.startswith('_') and not n.startswith('__') and n not in ('_emit',)]
    callers = {n: [] for n in cands}
    for f in M.all_funcs():
        if not f.module.name.startswith('streamz') or '.tests' in f.module.name:
            continue
        for x in ast.walk(f.node):
            if isinstance(x, ast.Attribute) and x.attr in callers and f.node is not M.stream.methods[x.attr].node:
                owner = f
                while owner.parent is not None:
                    owner = owner.parent
                callers[x.attr].append(owner)
    changed = True
    while changed:
        changed = False
        for n in cands:
            if n not in fam and callers[n] and all(o.cls is M.stream and o.name in fam for o in callers[n]):
                fam.add(n)
                changed = True
    _EMIT_FAMILY.clear()
    _EMIT_FAMILY[key] = (M, fam)
    return fam


def check_emit_convert(ctx, R):
    """decided on the event paths of Stream.emit with the private pieces it may have been split into spliced in (the emission,
    the conversion and the sync() hand-off may each live in a helper method)"""
    M = ctx.model
    fn = M.method('streamz.core', 'Stream', 'emit')
    con = ctx.construct(fn)
    paths = ctx.paths(fn, M.stream)
    bad, n = None, 0
    for st, status in paths:
        evs = st.events
        ems = [(i, e) for i, e in enumerate(evs) if e.kind == 'EM']
        if not ems or is_failure(evs, status):
            continue
        if any(e.kind == 'COND' and e.a == 'self.loop' and e.b is True for e in evs):
            n += 1
            i0, em = ems[0]
            tag = 'emit@%d' % em.line
            ok = True
            # at the level of the emission: `return <one awaitable built from the result>`; at every level above: the value
            # of the helper call is what is returned
            for d in range(em.depth, -1, -1):
                rets = [e for e in evs[i0:] if e.kind == 'RETURN' and e.depth == d]
                if not rets or tag not in (rets[-1].b or ()):
                    ok = False
                    break
                node = rets[-1].x.get('node')
                if d == em.depth and not (isinstance(node, ast.Call) and _call_name(node) in (
                        'convert_yielded', 'gather', 'ensure_future', 'multi')):
                    ok = False
                    break
            if not ok:
                bad = evs
    R.ob('EMIT-CONVERT', con, 'asynchronous-branch', bad is None and n > 0,
         'on the asynchronous branch with a loop, emit() does not return one awaitable built from the _emit result',
         ctx.where(fn, fn.node.lineno), fmt_path(bad) if bad else None, n)
    # blocking branch: a coroutine (nested function or method of the node) awaits gather(*_emit) and is handed to sync()
    fam = [M.stream.methods[nm] for nm in sorted(_emit_family(M)) if nm in M.stream.methods]
    targets = []
    for g in fam:
        nested = {f.name: f for f in ctx.nested_funcs_of(g) if f.is_coro}
        for n_ in own_nodes(g.node):
            if isinstance(n_, ast.Call) and _call_name(n_) == 'sync' and len(n_.args) >= 2 and src(n_.args[0]) == 'self.loop':
                a1 = n_.args[1]
                if isinstance(a1, ast.Name) and a1.id in nested:
                    targets.append(nested[a1.id])
                elif isinstance(a1, ast.Attribute) and isinstance(a1.value, ast.Name) and a1.value.id == 'self':
                    m_ = M.stream.find(a1.attr)
                    if m_ is not None and m_.is_coro:
                        targets.append(m_)
    handed = bool(targets)
    ok_nested = bool(targets)
    for nf in targets:
        good = False
        for st, status in ctx.paths(nf, M.stream):
            evs = st.events
            ems = [e for e in evs if e.kind == 'EM']
            if is_failure(evs, status):
                continue
            if ems and any(e.kind == 'SUS' and ('emit@%d' % ems[0].line) in (e.b or ()) for e in evs):
                good = True
            else:
                good = False
                break
        ok_nested = ok_nested and good
    R.ob('EMIT-CONVERT', con, 'blocking-branch', ok_nested and handed,
         'the blocking branch does not run a coroutine that awaits the _emit result through sync(self.loop, ...)',
         ctx.where(fn, fn.node.lineno))
    # try/finally around the asynchronous emission must not swallow
    sw = [(g, n) for g in fam for n in own_nodes(g.node) if isinstance(n, ast.Try) and any(
        not (h.body and isinstance(h.body[-1], ast.Raise) and h.body[-1].exc is None) for h in n.handlers)]
    R.ob('EMIT-CONVERT', con, 'no-swallow', not sw, 'emit() has an except clause around _emit (would swallow failures)',
         ctx.where(sw[0][0], sw[0][1].lineno) if sw else None)


def check_sync_transport(ctx, R):
    M = ctx.model
    fn = M.function('streamz.core', 'sync')
    con = ctx.construct(fn)
    nested = [f for f in ctx.nested_funcs_of(fn) if f.is_coro]
    if not nested:
        R.ob('SYNC-TRANSPORT', con, 'coroutine', False, 'sync() no longer runs a nested coroutine', ctx.where(fn, fn.node.lineno))
        return
    f = nested[0]
    # handler stores the exception into a cell; body stores the result into a cell
    # (a cell is a one-element list of the enclosing function, `cell[0] = v`, or a variable declared nonlocal)
    err_cell = res_cell = None
    nonlocals = {nm for n in own_nodes(f.node) if isinstance(n, ast.Nonlocal) for nm in n.names}

    def is_cell(t):
        return isinstance(t, ast.Subscript) or (isinstance(t, ast.Name) and t.id in nonlocals)
    for n in own_nodes(f.node):
        if isinstance(n, ast.ExceptHandler) and n.name:
            for s in n.body:
                if isinstance(s, ast.Assign) and isinstance(s.value, ast.Name) and s.value.id == n.name \
                        and is_cell(s.targets[0]):
                    err_cell = src(s.targets[0])
        if isinstance(n, ast.Assign) and isinstance(n.value, (ast.Yield, ast.Await)) and is_cell(n.targets[0]):
            res_cell = src(n.targets[0])
    R.ob('SYNC-TRANSPORT', con, 'store', err_cell is not None and res_cell is not None,
         'the coroutine run by sync() does not store its exception / result for the calling thread',
         ctx.where(f, f.node.lineno))
    if err_cell is None or res_cell is None:
        return
    # the callee future is what is awaited: result cell <- yield <value derived from func(*args)>
    bad, n = None, 0
    for st, status in ctx.paths(fn, None):
        evs = st.events
        if status == 'raise':
            raises = [e for e in evs if e.kind == 'RAISE']
            continue
        n += 1
        # a normal return must be on the path where the error cell tested falsy and must return the result cell
        rets = [e for e in evs if e.kind == 'RETURN' and e.depth == 0]
        c = [e for e in evs if e.kind == 'COND' and e.a == err_cell]
        if not rets or rets[-1].a != res_cell or not c or c[-1].b is not False:
            bad = evs
    raised = False
    for st, status in ctx.paths(fn, None):
        evs = st.events
        if status == 'raise' and any(e.kind == 'COND' and e.a == err_cell and e.b is True for e in evs):
            r = [e for e in evs if e.kind == 'RAISE']
            if r and r[-1].a == err_cell:
                raised = True
    R.ob('SYNC-TRANSPORT', con, 'reraise', bad is None and raised and n > 0,
         'sync() does not re-raise the stored exception in the calling thread on every path / return the stored result',
         ctx.where(fn, fn.node.lineno), fmt_path(bad) if bad else None, n)
    # the wait: the calling thread blocks on the event that the coroutine sets in `finally`
    sets = [n for n in own_nodes(f.node) if isinstance(n, ast.Try) and any(
        isinstance(x, ast.Call) and _call_name(x) == 'set' for s in n.finalbody for x in ast.walk(s))]
    waits = [n for n in own_nodes(fn.node) if isinstance(n, ast.Call) and _call_name(n) == 'wait']
    # every timed wait must be re-checked: inside `while not e.is_set()` or `if not e.wait(t): raise`
    okw, wline = bool(waits), fn.node.lineno
    for w in waits:
        if not w.args and not w.keywords:
            continue                      # waits until set
        ev = src(w.func.value)
        in_loop = any(isinstance(l, ast.While) and src(l.test).replace(' ', '') == 'not%s.is_set()' % ev
                      and any(x is w for x in ast.walk(l)) for l in own_nodes(fn.node))
        tested = any(isinstance(i, ast.If) and any(x is w for x in ast.walk(i.test)) and
                     any(isinstance(b, ast.Raise) for b in i.body) for i in own_nodes(fn.node))
        if not in_loop and not tested:
            okw, wline = False, w.lineno
    R.ob('SYNC-TRANSPORT', con, 'wait', bool(sets) and okw,
         'the calling thread can return before the coroutine has finished: a timed wait on the completion event is neither '
         'repeated until the event is set nor turned into a timeout error (or the event is not set in finally)',
         ctx.where(fn, wline))


# ----------------------------------------------------------------------------- metadata flow (C10)
META_ORIGIN = {
    ('to_kafka', 'cb'): 'origin of a new element (delivery report of the producer), no input metadata exists',
    ('FromKafkaBatched', 'checkpoint_emit'): 'origin: attaches a fresh RefCounter to the batch',
}


def check_meta_pass(ctx, R, classes, rule='META-PASS'):
    """update() methods whose emitted data derives from the current element and which buffer no metadata"""
    for cls in classes:
        fn = cls.methods.get('update')
        if fn is None:
            continue
        if md_containers(ctx, cls):
            continue
        con = ctx.construct(fn)
        paths = ctx.paths(fn, cls)
        bad, n = None, 0
        detail = ''
        for st, status in paths:
            evs = st.events
            ems = [e for e in evs if e.kind == 'EM' and e.depth == 0]
            if not ems or is_failure(evs, status) or status == 'loopcut':
                continue            # (a path cut by the unrolling bound of `while True` has not reached its last emission)
            n += 1
            carrying = [e for e in ems if e.x.get('md') is not None]
            last = ems[-1]
            okp = True
            if len(carrying) != 1 or carrying[0] is not last:
                okp = False
                detail = '%d of %d emissions on one path carry metadata (must be exactly the last)' % (len(carrying), len(ems))
            else:
                md = last.x['md']
                if not (isinstance(md, ast.Name) and last.b == frozenset({'md'})):
                    okp = False
                    detail = 'metadata argument %s is not the unmodified metadata parameter' % src(md)
                # the metadata parameter must not have been rebound / mutated before
                if any(e.kind == 'LADD' and e.a == 'metadata' for e in evs):
                    okp = False
                    detail = 'metadata parameter mutated before being passed on'
            if not okp and bad is None:
                bad = evs
        if n:
            R.ob(rule, con, 'metadata', bad is None, detail if bad else '', ctx.where(fn, fn.node.lineno),
                 fmt_path(bad) if bad else None, n)


def check_meta_flat(ctx, R, classes, rule='META-FLAT'):
    und = 0
    for cls in classes:
        for mname, fn in ctx.entry_methods(cls):
            if mname == '__init__':
                continue
            con = ctx.construct(fn)
            acc = {}
            for st, status in ctx.paths(fn, cls):
                for e in st.events:
                    if e.kind != 'EM' or e.x.get('md') is None or e.depth != 0:
                        continue
                    sh = e.x.get('md_shape')
                    tok = 'EM:%s' % e.a
                    if sh in (NESTED, 'OVERFLAT') or isinstance(sh, tuple) or sh == SCALAR:
                        acc[tok] = (False, e, st.events, sh)
                    elif sh in (FLAT, NONE):
                        acc.setdefault(tok, (True, e, None, sh))
                    else:
                        und += 1
            for tok, (ok, e, evs, sh) in acc.items():
                R.ob(rule, con, tok, ok, 'metadata argument %s of _emit has shape %s, not a flat list of dicts'
                     % (e.a, sh if not isinstance(sh, tuple) else sh[0]) if not ok else '', ctx.where(fn, e.line),
                     fmt_path(evs) if evs else None)
    R.count('meta_shape_undecided', und)


FULL_AWAITABLE_TESTS = ('isawaitable', 'gen.isawaitable', 'inspect.isawaitable')


def check_awaitable_result(ctx, R, classes):
    """see RULES['AWAITABLE-RESULT'].  Sites = update() methods with a path that returns the user callable's own result.
    Decided on symbolic normal forms: `if isawaitable(r): return r / else: return []`, a conditional expression, a named
    boolean and negated tests are the same thing."""
    from ..symexpr import SymEval, norm_cond
    M = ctx.model
    for cls in classes:
        up = cls.find('update')
        if up is None or up.cls is M.stream or up.is_coro or not up.module.name.startswith('streamz'):
            continue
        try:
            recs = [r for r in SymEval(M, cls).run(up) if not r.raised]
        except AnalysisError:
            continue

        def ucalls(r):
            out = []
            for c, _s, _l in r.calls:
                if isinstance(c, ast.Call) and isinstance(c.func, ast.Attribute) and isinstance(c.func.value, ast.Name) \
                        and c.func.value.id == 'self' and cls.find(c.func.attr) is None and c.func.attr not in ('loop',):
                    out.append(src(c))
            return out
        returning = [r for r in recs if r.ret is not None and src(r.ret) in ucalls(r)]
        if not returning:
            continue
        con = ctx.construct(up)
        bad, n = None, 0
        for r in recs:
            us = ucalls(r)
            if not us or (r.ret is not None and src(r.ret) in us):
                continue
            n += 1
            # the result is dropped on this path: a complete awaitability test of it must have been found false
            ok = False
            for t, o in r.conds:
                if t.startswith('<'):
                    continue
                t2, o2 = norm_cond(t, o)
                try:
                    e = ast.parse(t2, mode='eval').body
                except SyntaxError:
                    continue
                if o2 is False and isinstance(e, ast.Call) and src(e.func) in FULL_AWAITABLE_TESTS and len(e.args) == 1 \
                        and src(e.args[0]) in us:
                    ok = True
            if not ok:
                bad = '; '.join('%s is %s' % c for c in r.conds if not c[0].startswith('<'))[:200] or 'unconditionally'
        # the other half: where the result is handed back to the caller (who yields on it), a test has found it awaitable
        raw = None
        for r in returning:
            seen_true = False
            for t, o in r.conds:
                if t.startswith('<'):
                    continue
                t2, o2 = norm_cond(t, o)
                try:
                    e = ast.parse(t2, mode='eval').body
                except SyntaxError:
                    continue
                if o2 is True and isinstance(e, ast.Call) and e.args and src(e.args[0]) in ucalls(r) and (
                        src(e.func) in FULL_AWAITABLE_TESTS or any(k in src(e.func).lower() for k in
                                                                   ('awaitable', 'coroutine', 'future', 'isinstance'))):
                    seen_true = True
            if not seen_true:
                raw = src(r.ret)
        R.ob('AWAITABLE-RESULT', con, 'returned-only-if-awaitable', raw is None,
             'the user function\'s raw result %s is returned to the emitter on a path that has not found it awaitable: a plain '
             'value among the results makes the coroutine that yields on them fail (tornado BadYieldError), it dies silently '
             'and delivers nothing further' % raw, ctx.where(up, up.node.lineno), None, len(returning))
        if n:
            R.ob('AWAITABLE-RESULT', con, 'result', bad is None,
                 'the user function\'s result is dropped on a path that has not found gen.isawaitable(result) false [%s]: an '
                 'awaitable of a kind the narrower test does not know escapes unawaited (no backpressure, a native coroutine '
                 'never runs)' % bad, ctx.where(up, up.node.lineno), None, n)


IN_PLACE = {'append', 'appendleft', 'extend', 'extendleft', 'insert', 'clear', 'pop', 'popleft', 'remove', 'sort', 'reverse', 'update',
            'setdefault', 'popitem', 'rotate'}


def _plain_field(n):
    """self.F exactly (not a subscript of it)"""
    if isinstance(n, ast.Attribute) and isinstance(n.value, ast.Name) and n.value.id == 'self':
        return n.attr
    return None


def check_shared_metadata(ctx, R, classes):
    """see RULES['SHARED-METADATA'].  Levels: 0 = the field itself is the received list (self.F = metadata), 1 = a slot / item of
    the field is (self.F[k] = metadata, self.F.append(metadata)).  An in-place edit at the same level of the same field edits the
    shared list.  Local aliases (v = self.F[k], for v in self.F.values()) are followed inside one method."""
    for cls in classes:
        holders, direct, n_params = {}, None, 0
        for fn in cls.methods.values():
            if 'metadata' not in fn.params():
                continue
            n_params += 1
            al = {'metadata'}
            assigns = [n for n in own_nodes(fn.node) if isinstance(n, ast.Assign) and len(n.targets) == 1]

            def yields(v):
                if isinstance(v, ast.Name):
                    return v.id in al
                if isinstance(v, ast.BoolOp):
                    return any(yields(y) for y in v.values)
                if isinstance(v, ast.IfExp):
                    return yields(v.body) or yields(v.orelse)
                return False
            for n in assigns:
                if isinstance(n.targets[0], ast.Name) and isinstance(n.value, ast.Name) and n.value.id in al:
                    al.add(n.targets[0].id)
            # a name re-bound to something fresh is no longer the shared list from there on
            fresh = {}
            for n in assigns:
                t = n.targets[0]
                if isinstance(t, ast.Name) and t.id in al and not yields(n.value):
                    fresh[t.id] = min(fresh.get(t.id, n.lineno), n.lineno)
            for n in own_nodes(fn.node):
                tgt = None
                if isinstance(n, ast.Call) and isinstance(n.func, ast.Attribute) and n.func.attr in IN_PLACE \
                        and isinstance(n.func.value, ast.Name) and n.func.value.id in al:
                    tgt = n.func.value.id
                elif isinstance(n, ast.AugAssign) and isinstance(n.target, ast.Name) and n.target.id in al:
                    tgt = n.target.id
                elif isinstance(n, ast.Subscript) and isinstance(n.ctx, (ast.Store, ast.Del)) and isinstance(n.value, ast.Name) \
                        and n.value.id in al:
                    tgt = n.value.id
                if tgt is not None and not (tgt in fresh and fresh[tgt] < n.lineno):
                    direct = (fn, n, tgt)
            for n in own_nodes(fn.node):
                if isinstance(n, ast.Assign):
                    for t in n.targets:
                        if _plain_field(t) and yields(n.value):
                            holders.setdefault((_plain_field(t), 0), (fn, n))
                        elif isinstance(t, ast.Subscript) and _plain_field(t.value) and yields(n.value):
                            holders.setdefault((_plain_field(t.value), 1), (fn, n))
                elif isinstance(n, ast.Call) and isinstance(n.func, ast.Attribute) and n.func.attr in ('append', 'appendleft', 'insert') \
                        and _plain_field(n.func.value) and n.args and yields(n.args[-1]):
                    holders.setdefault((_plain_field(n.func.value), 1), (fn, n))
        if not n_params:
            continue
        con = '%s.%s' % (cls.module.name, cls.name)
        some = next(iter(cls.methods.values()))
        if direct is not None or any('metadata' in fn.params() and fn.cls is cls for fn in cls.methods.values()):
            fn0 = direct[0] if direct else next(fn for fn in cls.methods.values() if 'metadata' in fn.params() and fn.cls is cls)
            R.ob('SHARED-METADATA', con, 'parameter-not-edited', direct is None,
                 'the received metadata list is edited in place (%s, line %d): the emitter and every sibling downstream hold the same '
                 'list object' % (src(direct[1])[:70], direct[1].lineno) if direct else '',
                 ctx.where(fn0, direct[1].lineno if direct else fn0.node.lineno))
        if not holders:
            continue
        # in-place edits per (field, level)
        edits = {}
        for fn in cls.methods.values():
            lal = {}            # local name -> field whose item it is
            for n in own_nodes(fn.node):
                if isinstance(n, ast.Assign) and len(n.targets) == 1 and isinstance(n.targets[0], ast.Name):
                    v = n.value
                    if isinstance(v, ast.Subscript) and _plain_field(v.value):
                        lal[n.targets[0].id] = _plain_field(v.value)
                    elif isinstance(v, ast.Call) and isinstance(v.func, ast.Attribute) and _plain_field(v.func.value) \
                            and v.func.attr in ('get', 'pop', 'popleft', 'setdefault'):
                        lal[n.targets[0].id] = _plain_field(v.func.value)
                elif isinstance(n, (ast.For, ast.comprehension)) and isinstance(n.target, ast.Name):
                    it = n.iter
                    if isinstance(it, ast.Call) and isinstance(it.func, ast.Attribute) and it.func.attr == 'values':
                        it = it.func.value
                    if isinstance(it, ast.Call) and isinstance(it.func, ast.Name) and it.func.id in ('list', 'tuple') and it.args:
                        it = it.args[0]
                    if _plain_field(it):
                        lal[n.target.id] = _plain_field(it)

            def level(v):
                if _plain_field(v):
                    return _plain_field(v), 0
                if isinstance(v, ast.Subscript) and _plain_field(v.value):
                    return _plain_field(v.value), 1
                if isinstance(v, ast.Name) and v.id in lal:
                    return lal[v.id], 1
                return None
            for n in own_nodes(fn.node):
                lv = None
                if isinstance(n, ast.Call) and isinstance(n.func, ast.Attribute) and n.func.attr in IN_PLACE:
                    lv = level(n.func.value)
                elif isinstance(n, ast.AugAssign):
                    lv = level(n.target)
                elif isinstance(n, ast.Subscript) and isinstance(n.ctx, (ast.Store, ast.Del)):
                    lv = level(n.value)
                if lv is not None:
                    edits.setdefault(lv, (fn, n))
        for (f, lv), (hfn, hn) in sorted(holders.items(), key=lambda kv: kv[0]):
            e = edits.get((f, lv))
            R.ob('SHARED-METADATA', con, 'self.%s%s' % (f, '[]' if lv else ''), e is None,
                 'the received metadata list is stored as it is (%s, line %d) and what is stored there is edited in place (%s, %s line '
                 '%d): the emitter and every sibling downstream hold the same list object and see the edit'
                 % (src(hn)[:60], hn.lineno, src(e[1])[:60], e[0].name, e[1].lineno) if e else '',
                 ctx.where(hfn, hn.lineno))


# documented calling convention of the user callable: positional arguments in order (X = the element, *X = its members splayed,
# *EXTRA = the extra positional arguments given at construction)
USER_CALL_TABLE = {
    ('streamz.core', 'map'): ['X', '*EXTRA'],
    ('streamz.core', 'map_async'): ['X', '*EXTRA'],
    ('streamz.core', 'starmap'): ['*X', '*EXTRA'],
    ('streamz.core', 'filter'): ['X', '*EXTRA'],
    ('streamz.sinks', 'sink'): ['X', '*EXTRA'],
}


def flat_positional_nodes(args):
    """normal form of a positional argument list: *(a + b) = *a, *b;  *(p, *q) = p, *q;  *tuple(a) = *a"""
    out = []
    for a in args:
        if isinstance(a, ast.Starred):
            v = a.value
            if isinstance(v, ast.BinOp) and isinstance(v.op, ast.Add):
                out.extend(flat_positional_nodes([ast.Starred(value=v.left, ctx=ast.Load()), ast.Starred(value=v.right, ctx=ast.Load())]))
            elif isinstance(v, (ast.Tuple, ast.List)):
                out.extend(flat_positional_nodes(v.elts))
            elif isinstance(v, ast.Call) and isinstance(v.func, ast.Name) and v.func.id in ('tuple', 'list') and len(v.args) == 1 \
                    and not v.keywords:
                out.extend(flat_positional_nodes([ast.Starred(value=v.args[0], ctx=ast.Load())]))
            else:
                out.append(a)
        else:
            out.append(a)
    return out


def _flat_positional(args):
    return [src(a) for a in flat_positional_nodes(args)]


def check_user_call_shape(ctx, R):
    """see RULES['USER-CALL-SHAPE']"""
    from ..symexpr import SymEval
    M = ctx.model
    R.table('USER_CALL_TABLE', {'%s.%s' % k: ', '.join(v) for k, v in USER_CALL_TABLE.items()})
    for (mod, cn), want in USER_CALL_TABLE.items():
        try:
            cls = M.cls(mod, cn)
        except Exception:
            continue
        up = cls.find('update')
        init = cls.find('__init__')
        if up is None or init is None:
            continue
        # the field that keeps the constructor's *args
        va = init.node.args.vararg.arg if init.node.args.vararg else None
        extra = [self_field(t) for n in own_nodes(init.node) if isinstance(n, ast.Assign) and isinstance(n.value, ast.Name)
                 and n.value.id == va for t in n.targets if self_field(t)]
        if not extra:
            # (stored by a helper / a private base: the field the update reads as `*self.<f>` next to the element)
            extra = sorted({self_field(y.value) for n in own_nodes(up.node) for y in ast.walk(n)
                            if isinstance(y, ast.Starred) and self_field(y.value)}) or ['args']
        xname = [p_ for p_ in up.params() if p_ != 'self'][0]
        exp = [w.replace('EXTRA', 'self.' + extra[0]).replace('X', xname) for w in want]
        try:
            recs = [r for r in SymEval(M, cls).run(up) if not r.raised]
        except AnalysisError:
            continue
        bad, n = None, 0
        for r in recs:
            for c, _s, _l in r.calls:
                if isinstance(c, ast.Call) and isinstance(c.func, ast.Attribute) and isinstance(c.func.value, ast.Name) \
                        and c.func.value.id == 'self' and cls.find(c.func.attr) is None and c.func.attr not in ('loop',) \
                        and any(isinstance(y, ast.Name) and y.id == xname for a in c.args for y in ast.walk(a)):
                    n += 1
                    got = _flat_positional(c.args)
                    if got != exp:
                        bad = 'self.%s is called with (%s), documented is (%s)' % (c.func.attr, ', '.join(got), ', '.join(exp))
        if n:
            R.ob('USER-CALL-SHAPE', ctx.construct(up), 'positional-order', bad is None, bad or '', ctx.where(up, up.node.lineno), None, n)
