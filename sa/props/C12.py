"""C12 aggregation state can be checkpointed and resumed without changing results (structural argument)"""
from ..rules import folds, dasksib
from .common import declare

RULES = ['BATCH-PURE', 'FOLD-PURE', 'STATE-PLUMB', 'CTOR-COPY', 'ACC-CONTRACT', 'FOLD-DERIVE', 'SIBLING-SIG']
FLOORS = {'FOLD-PURE': 50, 'STATE-PLUMB': 12, 'CTOR-COPY': 3, 'ACC-CONTRACT': 2, 'FOLD-DERIVE': 14, 'SIBLING-SIG': 3}

META = {
    'level': "Static argument that needs no numeric reasoning: if every fold operator is a pure function of (state, batch, "
             "construction-time constants) (FOLD-PURE: ~60 functions, no store to self, no global/clock/random, no in-place mutation of "
             "parameter-reachable objects, callee-mutated parameters always fresh), the state emitted with with_state is the very object "
             "stored for the next step and start seeds exactly that slot (ACC-CONTRACT, STATE-PLUMB), helper objects forward their "
             "state-bearing fields when re-instantiated (CTOR-COPY), and the state handed on derives from the incoming one (FOLD-DERIVE), "
             "then a pipeline seeded with the state after batch k performs on the remaining batches literally the same calls as the "
             "uninterrupted run.",
    'note': "Trusted: pandas operations are deterministic and do not mutate their operands; cuts are between batches (upstream zip "
            "buffers empty). Table AUG_SCALAR_OK (EWMean's float weight) printed in the evidence.",
    'technique': "static analysis: effect analysis (purity) of the fold operators + keyword/field flow of start/with_state "
                 "(FOLD-PURE, STATE-PLUMB, CTOR-COPY, ACC-CONTRACT)",
}


def run(ctx, R):
    R.explanation = 'Purity of all fold operators, and plumbing of start/with_state from the public API to Stream.accumulate.'
    R.not_decided = ['numeric results; only that resumed and uninterrupted runs perform the same calls']
    declare(R, {**folds.RULES, 'SIBLING-SIG': dasksib.RULES['SIBLING-SIG'] + ' (the Dask accumulate hands out and keeps its state exactly as the local one does: a state future it releases or cancels can no longer be fetched as a checkpoint)'}, RULES, FLOORS)
    R.run(folds.check_fold_pure, ctx, R)
    R.run(folds.check_batch_pure, ctx, R)
    R.run(folds.check_state_plumb, ctx, R)
    R.run(folds.check_ctor_copy, ctx, R)
    R.run(folds.check_acc_contract, ctx, R)
    R.run(folds.check_fold_derive, ctx, R, steps=('on_new', 'on_old'))
    R.run(dasksib.check_sibling_sig, ctx, R)
