"""C18 witness: stop() immediately followed by start() while the polling loop is suspended.
stop() only sets a flag; start() clears it again and schedules a second run(); the old loop wakes up,
sees stopped == False and carries on next to the new one: from_iterable emits items twice / out of
order, from_periodic polls at twice the rate."""
import asyncio, logging
logging.disable(logging.CRITICAL)
from streamz import Stream


async def main():
    got = []

    async def slow(x):
        await asyncio.sleep(0.01)
        got.append(x)
    src = Stream.from_iterable(range(6), asynchronous=True)
    src.sink(slow)
    src.start()
    await asyncio.sleep(0.015)      # loop is suspended waiting for the consumer
    src.stop()
    src.start()                     # old loop not finished yet
    await asyncio.sleep(0.3)
    print('from_iterable delivered', got)
    assert got == sorted(set(got)), 'items emitted twice / out of order after stop(); start()'

    ticks = []
    p = Stream.from_periodic(lambda: ticks.append(1), poll_interval=0.02, asynchronous=True)
    p.start()
    await asyncio.sleep(0.005)
    for _ in range(3):
        p.stop()
        p.start()
    await asyncio.sleep(0.21)
    p.stop()
    print('from_periodic ticks in ~0.2s at 20ms:', len(ticks))
    assert len(ticks) <= 13, 'several polling loops are running'
    print('OK')

asyncio.run(main())
