"""C08 time windows conserve elements (structural clauses; the deadline clause is not decided)"""
from ..rules import delivery
from .common import declare

RULES = ['TIMEDELTA-TOTAL', 'SWAP-ATOMIC', 'FLUSH-RESETS', 'ARM-CANCEL', 'APPEND-THEN-TEST', 'ARM-ON-FIRST', 'SERIAL-DRAIN', 'FIFO-END', 'EMIT-SIG',
         'SINGLE-CONSUMER', 'TICK-PERIOD', 'ELEMENT-MEMBERSHIP']
FLOORS = {'SWAP-ATOMIC': 6, 'ARM-CANCEL': 1, 'APPEND-THEN-TEST': 1, 'ARM-ON-FIRST': 1, 'SERIAL-DRAIN': 2, 'FIFO-END': 5,
          'EMIT-SIG': 5, 'SINGLE-CONSUMER': 1, 'TICK-PERIOD': 3}
NODES = ('timed_window', 'timed_window_unique', 'partition')

META = {
    'level': "Static analysis of timed_window, timed_window_unique and partition: the flush reads and resets the buffer with no "
             "suspension in between and emits what it read (SWAP-ATOMIC), one tick loop per node awaiting its emission before the "
             "next tick (SINGLE-CONSUMER, SERIAL-DRAIN, EMIT-SIG), FIFO batches (FIFO-END), the size test follows the append "
             "(APPEND-THEN-TEST), the timeout is armed on the first element of a batch and cancelled by a size flush under a "
             "configuration-only guard (ARM-ON-FIRST, ARM-CANCEL). Of the deadline clause only its structural part is decided: "
             "every tick cycle sleeps exactly once, unconditionally, for self.interval = convert_interval(argument), after awaiting "
             "its emission, and the partition timer is call_later(self._timeout, self._flush, key) (TICK-PERIOD, ARM-ON-FIRST); the "
             "clock arithmetic itself and the keep-first/keep-last values are not decided.",
    'note': "Trusted: suspension points = yield/await; loop.call_later returns a cancellable handle.",
    'technique': "static analysis: event paths + control-dependence of cancel/arm sites (SWAP-ATOMIC, ARM-CANCEL, "
                 "APPEND-THEN-TEST, ARM-ON-FIRST, SERIAL-DRAIN, TICK-PERIOD on symbolic normal forms)",
}


def run(ctx, R):
    R.explanation = 'Element-conservation shapes of the three time-window nodes on every enumerated path.'
    R.not_decided = ['the measured deadline (event-loop timing; only the tick period and the timer arguments are decided)',
                     'keep-first / keep-last value selection']
    declare(R, delivery.RULES, RULES, FLOORS)
    M = ctx.model
    classes = [M.cls('streamz.core', n) for n in NODES]
    R.run(delivery.check_swap_atomic, ctx, R, classes)
    R.run(delivery.check_flush_resets, ctx, R, classes)
    R.run(delivery.check_partition_timer, ctx, R)
    R.run(delivery.check_timedelta_total, ctx, R)
    R.run(delivery.check_serial_drain, ctx, R, classes)
    R.run(delivery.check_fifo_end, ctx, R, classes)
    R.run(delivery.check_emit_sig, ctx, R, classes)
    R.run(delivery.check_single_consumer, ctx, R, classes)
    R.run(delivery.check_element_membership, ctx, R, classes + [M.cls('streamz.core', 'partition_unique')])
    R.run(delivery.check_tick_period, ctx, R, [c for c in classes if c.name != 'partition'])


META['level'] += ' Durations are converted with total_seconds() (TIMEDELTA-TOTAL).'
META['level'] += ' TICK-PERIOD never-exits: the loop of a tick coroutine cannot be left.'
