"""shared analysis context: model + cached path enumerations"""
from .model import Model, AnalysisError
from .paths import enumerate_paths, compute_field_elem

SKIP_METHODS = {'__str__', '__repr__', '_ipython_display_', '_repr_html_', 'visualize', '__del__'}


class Ctx:
    def __init__(self, model=None, K=2, depth=3, tier='quick'):
        self.model = model or Model()
        self.K = K
        self.depth = depth
        self.tier = tier
        self._fe = {}
        self._paths = {}
        self.sliced = set()
        self.unspliced = set()

    def field_elem(self, cls):
        if cls is None:
            return {}
        if cls.fq not in self._fe:
            self._fe[cls.fq] = compute_field_elem(self.model, cls)
        return self._fe[cls.fq]

    def paths(self, fn, cls=None, **kw):
        cls = cls if cls is not None else fn.cls
        key = (fn.fq, cls.fq if cls else None, tuple(sorted(kw.items())))
        if key not in self._paths:
            kw.setdefault('K', self.K)
            kw.setdefault('depth', self.depth)
            try:
                self._paths[key] = enumerate_paths(self.model, fn, cls=cls, field_elem=self.field_elem(cls), **kw)
            except AnalysisError as e:
                if 'path explosion' not in str(e):
                    raise
                # rule-relevant slicing: conditions that govern no event are walked once, loops unrolled once
                kw2 = dict(kw, relevant_only=True, K=1)
                self.sliced.add(fn.fq)
                try:
                    self._paths[key] = enumerate_paths(self.model, fn, cls=cls, field_elem=self.field_elem(cls), **kw2)
                except AnalysisError as e2:
                    if 'path explosion' not in str(e2):
                        raise
                    # last resort: no helper splicing (calls stay opaque SELFCALL events)
                    kw3 = dict(kw2, inline=False)
                    self.unspliced.add(fn.fq)
                    self._paths[key] = enumerate_paths(self.model, fn, cls=cls, field_elem=self.field_elem(cls), **kw3)
        return self._paths[key]

    def entry_methods(self, cls):
        """methods of cls to analyse on their own: everything except private helpers that are only ever reached by being
        called (and therefore spliced) from other methods of the class.  A helper that is also handed to a scheduler
        (loop.call_later(..., self._flush, key)) or that is part of the node protocol stays an entry point."""
        import ast
        from .model import own_nodes
        PROTOCOL = {'update', 'emit', '_emit', 'start', 'stop', 'destroy', 'connect', 'disconnect', 'flush', 'run', '_run',
                    '_add_upstream', '_remove_upstream', '_add_downstream', '_remove_downstream', '_retain_refs', '_release_refs'}
        called, referenced = set(), set()
        for mname, fn in cls.methods.items():
            for n in own_nodes(fn.node):
                if isinstance(n, ast.Call) and isinstance(n.func, ast.Attribute) and isinstance(n.func.value, ast.Name) \
                        and n.func.value.id == 'self' and n.func.attr in cls.methods and n.func.attr != mname:
                    called.add(n.func.attr)
            for n in own_nodes(fn.node):
                if isinstance(n, ast.Attribute) and isinstance(n.value, ast.Name) and n.value.id == 'self' \
                        and n.attr in cls.methods:
                    referenced.add((n.attr, id(n)))
            # references that are not the callee of a call = handed over as a callback
        callbacks = set()
        for mname, fn in cls.methods.items():
            callee_ids = {id(n.func) for n in own_nodes(fn.node) if isinstance(n, ast.Call)}
            for n in own_nodes(fn.node):
                if isinstance(n, ast.Attribute) and isinstance(n.value, ast.Name) and n.value.id == 'self' \
                        and n.attr in cls.methods and id(n) not in callee_ids:
                    callbacks.add(n.attr)
        out = []
        for mname, fn in cls.methods.items():
            if mname in called and mname.startswith('_') and mname not in PROTOCOL and mname not in callbacks:
                continue
            # a private helper inherited from a shared private base / mix-in that nothing in this class calls or hands over is
            # not an entry point of this class (it serves a sibling); where it is called it is analysed spliced into its caller
            if mname in getattr(cls, 'inherited_private', ()) and mname.startswith('_') and not mname.startswith('__') \
                    and mname not in PROTOCOL and mname not in callbacks and mname not in called:
                continue
            out.append((mname, fn))
        return out

    def where(self, fn, line):
        return '%s:%d' % (fn.file, line)

    def construct(self, fn, cls=None):
        return fn.module.name + '.' + fn.qual

    def node_methods(self, include_init=False):
        """(cls, fn) for every method defined in a node class (owner context)"""
        out = []
        for c in self.model.nodes:
            for name, fn in c.methods.items():
                if name in SKIP_METHODS:
                    continue
                if name == '__init__' and not include_init:
                    continue
                out.append((c, fn))
        return out

    def nested_funcs_of(self, fn):
        return [f for f in fn.module.all_funcs if f.parent is fn]
