"""Pure-Python application of the committed unified diffs (seeded/*/patch.diff, benign/*/patch.diff) to in-memory copies
of /repo's files, so that the corpora can be evaluated from inside a check without git, a worktree or any file written.

apply_patch(text, read) -> {relative path: new source}  or None when some hunk does not apply to the current sources
(the tree moved on since the patch was written: the caller skips that corpus entry and says so)."""
import re

_HUNK = re.compile(r'^@@ -(\d+)(?:,(\d+))? \+(\d+)(?:,(\d+))? @@')


def parse(text):
    files = []
    cur = None
    lines = text.splitlines()
    i = 0
    while i < len(lines):
        l = lines[i]
        if l.startswith('diff --git '):
            cur = {'old': None, 'new': None, 'hunks': []}
            files.append(cur)
        elif l.startswith('--- ') and cur is not None and not cur['hunks']:
            cur['old'] = l[4:].strip()
        elif l.startswith('+++ ') and cur is not None and not cur['hunks']:
            cur['new'] = l[4:].strip()
        elif l.startswith('@@') and cur is not None:
            m = _HUNK.match(l)
            if not m:
                return None
            h = {'start': int(m.group(1)), 'lines': []}
            i += 1
            while i < len(lines) and not lines[i].startswith(('@@', 'diff --git ')):
                if lines[i].startswith('\\'):
                    i += 1
                    continue
                h['lines'].append(lines[i])
                i += 1
            cur['hunks'].append(h)
            continue
        i += 1
    return files


def apply_patch(text, read):
    files = parse(text)
    if files is None:
        return None
    out = {}
    for f in files:
        if f['new'] in (None, '/dev/null') or f['old'] in (None,):
            return None
        path = f['new'][2:] if f['new'].startswith('b/') else f['new']
        if f['old'] == '/dev/null':
            src_lines = []
        else:
            try:
                src_lines = read(path).split('\n')
            except OSError:
                return None
        offset = 0
        for h in f['hunks']:
            old = [l[1:] for l in h['lines'] if l[:1] in (' ', '-') or l == '']
            new = [l[1:] for l in h['lines'] if l[:1] in (' ', '+') or l == '']
            pos = h['start'] - 1 + offset
            if src_lines[pos:pos + len(old)] != old:
                # the hunk may have drifted: accept a unique exact match elsewhere
                hits = [k for k in range(len(src_lines) - len(old) + 1) if src_lines[k:k + len(old)] == old] if old else []
                if len(hits) != 1:
                    return None
                pos = hits[0]
            src_lines[pos:pos + len(old)] = new
            offset += len(new) - len(old)
        out[path] = '\n'.join(src_lines)
    return out
