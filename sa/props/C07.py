"""C07 windowed aggregations equal pandas on exactly the rows inside the window (only structural clauses)"""
from ..rules import folds
from .common import declare

RULES = ['MIRROR', 'ACCRUE-DECAY-SIG', 'DECAY-UNREACHABLE', 'FOLD-DERIVE', 'WINDOW-FIFO', 'DECAY-CONSERVES', 'FULL-POSITIONAL', 'AGG-TABLE', 'CTOR-COPY', 'ACC-CONTRACT']
FLOORS = {'MIRROR': 11, 'ACCRUE-DECAY-SIG': 6, 'DECAY-UNREACHABLE': 3, 'FOLD-DERIVE': 14, 'WINDOW-FIFO': 8, 'DECAY-CONSERVES': 7, 'AGG-TABLE': 19, 'CTOR-COPY': 3, 'ACC-CONTRACT': 2}

META = {
    'level': "Static analysis of accrual/decay structure: for each of 11 aggregation classes on_old is the algebraic inverse of on_new "
             "on a symbolic normal form (same terms, accumulate operator inverted, same result expression; 2 reasoned exceptions) "
             "(MIRROR); window accumulators accrue at most once per call and decay exactly once per non-empty decayed chunk with the "
             "size-state twin in lock-step, storing the new history (ACCRUE-DECAY-SIG); EWMean, whose decay is a stub, is reachable only "
             "from an Expanding window that never decays (DECAY-UNREACHABLE); decay steps derive state from state (FOLD-DERIVE on "
             "on_old); window histories are copied, appended right and decayed left (WINDOW-FIFO); rows leave the history only into "
             "the decayed list - popped frames are decayed, a split keeps X[k:] and decays X[:k] of the same frame at the same k - and "
             "diff_iloc's excess is rows - window, reduced by each popped frame's length, consumed exactly by a split "
             "(DECAY-CONSERVES, on let-normal forms + one arithmetic lemma). diff_loc's cut-off value (newest index - T + 1ns) and "
             "vanished-group masking values are value-level and NOT decided.",
    'note': "Trusted: x.add(t, fill_value=0) and x.sub(t, fill_value=0) are inverse, + and - are inverse; exception table "
            "MIRROR_EXCEPT (Full, EWMean) printed in the evidence.",
    'technique': "static analysis: sibling cross-check on_new/on_old on symbolic normal forms + call-count signatures on enumerated "
                 "paths (MIRROR, ACCRUE-DECAY-SIG, DECAY-UNREACHABLE, FOLD-DERIVE, WINDOW-FIFO, DECAY-CONSERVES)",
}


def run(ctx, R):
    R.explanation = 'Inverse relation of accrual and decay steps, and their application counts in the window accumulators.'
    R.not_decided = ["diff_loc's cut-off value (newest index - T + 1ns) and pandas label slicing", 'vanished-group masking values']
    declare(R, folds.RULES, RULES, FLOORS)
    R.run(folds.check_mirror, ctx, R)
    R.run(folds.check_accrue_decay, ctx, R)
    R.run(folds.check_decay_unreachable, ctx, R)
    R.run(folds.check_fold_derive, ctx, R, steps=('on_new', 'on_old'))
    R.run(folds.check_window_fifo, ctx, R)
    R.run(folds.check_decay_conserves, ctx, R)
    R.run(folds.check_excess_accounting, ctx, R)
    R.run(folds.check_full_positional, ctx, R)
    R.run(folds.check_agg_table, ctx, R)
    # a window derived from another one (operators, column selection) keeps its extent and its carried-over rows (start=)
    R.run(folds.check_ctor_copy, ctx, R)
    # the window lives in the state of core.accumulate: stored before the result is delivered
    R.run(folds.check_acc_contract, ctx, R)
META['level'] += ' CTOR-COPY: a window object derived from another keeps n / value / start / with_state; ACC-CONTRACT: the accumulate node commits the window state before it delivers the result.'
