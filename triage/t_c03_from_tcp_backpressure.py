"""C03 witness: from_tcp's connection handler tested `isawaitable(result)` on the *list* returned by
_emit, which is never true, so it never waited for its consumers: lines were read from the socket and
pushed into a slow pipeline without any backpressure (unbounded in-flight data)."""
import asyncio, logging, socket
logging.disable(logging.CRITICAL)
from streamz import Stream


async def main():
    port = 9876
    src = Stream.from_tcp(port, asynchronous=True)
    active, peak = [0], [0]

    async def slow(x):
        active[0] += 1
        peak[0] = max(peak[0], active[0])
        await asyncio.sleep(0.02)
        active[0] -= 1
    src.sink(slow)
    src.start()
    await asyncio.sleep(0.05)
    r, w = await asyncio.open_connection('localhost', port)
    w.write(b'a\nb\nc\nd\n')
    await w.drain()
    await asyncio.sleep(0.3)
    w.close()
    src.stop()
    print('peak number of elements in the consumer at once:', peak[0])
    assert peak[0] == 1, 'handler did not wait for the consumer before reading the next line'
    print('OK')

asyncio.run(main())
