"""C03 witness: slice drops the awaitable of its downstream, so an asynchronous emit completes before
the consumer behind the slice has finished."""
import asyncio, logging
logging.disable(logging.CRITICAL)
from streamz import Stream


async def main():
    src = Stream(asynchronous=True)
    done = []

    async def slow(x):
        await asyncio.sleep(0.05)
        done.append(x)
    src.slice(0, 10).sink(slow)
    await src.emit(1)
    print('after awaiting emit, consumer finished:', done)
    assert done == [1], 'emit completed before the consumer behind slice() did'
    print('OK')

asyncio.run(main())
