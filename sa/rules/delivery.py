"""Delivery skeleton, buffer discipline and cooperative-scheduling rules (DESIGN 4.1, 4.2, 4.5)."""
import ast

from ..model import AnalysisError, own_nodes, src, self_field
from ..paths import fmt_path, MUT_ADD, MUT_TAKE
from .holds import md_containers, is_failure, _cond_tags, cond_true, cond_false

RULES = {
    'FANOUT': 'Stream._emit visits list(self.downstreams) (an insertion-ordered set) in order, calls update(x, ...) with the '
              'unmodified element on every iteration and returns everything the calls returned',
    'EMIT-SIG': 'the number of emissions per processed element on normal paths matches the node\'s documented signature '
                '(1:1 nodes never 0 or 2, filters 0/1, ...)',
    'PASS-VALUE': 'pass-through and batching nodes emit/buffer the very element they received',
    'FIFO-END': 'element buffers, metadata containers and queues add at one end and take from the other (FIFO queue classes)',
    'SWAP-ATOMIC': 'a flushed buffer is read and reset before it is emitted: no suspension and no (re-entrant) emission lies '
                   'between the read and the reset',
    'REVERSED-STACK': 'a local list reversed so that it can be consumed with pop() is consumed only with pop() (any other use sees '
                      'the elements in reverse order)',
    'FRESH-READ': 'what an emission is built from a field is read after the last update of that field on the path (no stale '
                  'snapshot taken before the element at hand was stored)',
    'TIMEDELTA-TOTAL': 'durations are converted with total_seconds(), never with the .seconds/.microseconds components',
    'STATE-PER-INSTANCE': 'node state is per instance: no mutable default argument or class-level container ends up as (or is '
                          'mutated as) a node\'s buffer',
    'CANCEL-ONLY-TIMERS': 'cancel() is called only on timer handles (values a call_later/call_at/add_timeout result was stored into): '
                          'cancelling a task or future that is carrying an element aborts that element',
    'PAIRED-BUFFER': 'an element buffer and its metadata twin are mutated in lock-step (same paths, same order)',
    'SINGLE-CONSUMER': 'a drain coroutine is scheduled from exactly one once-only (or guarded) site',
    'SERIAL-DRAIN': 'a drain loop awaits the downstream of one emission before taking the next element',
    'ATOMIC-RMW': 'in a coroutine, a field is not written from a value read from it before a suspension',
    'AWAITABLE-SHARE': 'an emission result shared between the tick loop and producers is converted to a Future first',
    'MAILBOX': 'wait() on an edge-triggered condition is guarded by a predicate loop on the message slot, and the slot is '
               'consumed (reset) before the next suspension',
    'ARM-CANCEL': 'a size-triggered flush cancels the pending timeout handle of that key (guard on configuration only)',
    'APPEND-THEN-TEST': 'the size test of a partition follows the append on every path (a batch cannot outgrow n)',
    'FLUSH-RESETS': 'a batching node removes from its element buffer what it emits, on the same path',
    'ELEMENT-MEMBERSHIP': 'whether a key is present in a buffer of user elements is decided by `in` / `not in` (or a sentinel '
                          'comparison), never by the truthiness or identity of the stored element: 0, "", None and interned '
                          'values are elements too',
    'EAGER-UPDATE': 'no node defines update() as a native `async def`: such a coroutine function does not run until somebody awaits '
                    'it, and callers that do not use the return value (collect.flush, a loop-less emit) would silently lose the '
                    'element; tornado coroutines (gen.coroutine) start running when called',
    'TICK-PERIOD': 'each cycle of a tick loop (timed_window, timed_window_unique) sleeps exactly once, unconditionally, for '
                   'self.interval, after having awaited its emission; self.interval is convert_interval(<the constructor argument>)',
    'META-MEMBERS': 'an emission built from an element buffer carries the content of that buffer\'s metadata twin',
    'ARM-ON-FIRST': 'the timeout is armed exactly when the first element of a batch arrives, with the flush of that key as target',
}

# emission signature per catalogue node: (module-less class name, method) -> allowed counts per processed element
SIG = {
    ('Stream', 'update'): {'1'}, ('map', 'update'): {'1'}, ('starmap', 'update'): {'1'}, ('accumulate', 'update'): {'1'},
    ('pluck', 'update'): {'1'}, ('union', 'update'): {'1'},
    ('filter', 'update'): {'0', '1'}, ('unique', 'update'): {'0', '1'}, ('slice', 'update'): {'0', '1'},
    ('sliding_window', 'update'): {'0', '1'}, ('partition_unique', 'update'): {'0', '1'}, ('zip', 'update'): {'0', '1'},
    ('combine_latest', 'update'): {'0', '1'}, ('partition', 'update'): {'0', '1'}, ('partition', '_flush'): {'1'},
    ('flatten', 'update'): {'0', '1', 'many'}, ('zip_latest', 'update'): {'0', '1', 'many'},
    ('collect', 'update'): {'0'}, ('collect', 'flush'): {'1'}, ('sink', 'update'): {'0'}, ('sink_to_textfile', 'update'): {'0'},
    ('rate_limit', 'update'): {'1'}, ('delay', 'update'): {'0'}, ('delay', 'cb'): {'1'}, ('buffer', 'update'): {'0'},
    ('buffer', 'cb'): {'1'}, ('timed_window', 'update'): {'0'}, ('timed_window', 'cb'): {'1'},
    ('timed_window_unique', 'update'): {'0'}, ('timed_window_unique', 'cb'): {'1'}, ('latest', 'update'): {'0'},
    ('latest', 'cb'): {'1'}, ('map_async', 'update'): {'0'}, ('map_async', 'work_callback'): {'0', '1'},
    ('scatter', 'update'): {'1'}, ('gather', 'update'): {'1'},
}
# nodes documented to hand on the very element they received (directly, or through their own buffer/queue)
PASS_THROUGH = {'Stream', 'filter', 'unique', 'union', 'slice', 'buffer', 'delay', 'rate_limit', 'latest',
                'collect', 'partition', 'partition_unique', 'sliding_window', 'timed_window', 'timed_window_unique',
                'zip', 'combine_latest', 'zip_latest'}
ORDER_WRAPPERS = {'reversed', 'sorted', 'set', 'frozenset'}
QUEUE_FIFO = {'Queue'}
QUEUE_NOT_FIFO = {'LifoQueue', 'PriorityQueue'}


def pst_tags(st, call_ev, name_node):
    """tags the argument carried when the call was made (recorded with the event)"""
    at = (call_ev.x or {}).get('arg0_tags')
    return at if at is not None else frozenset()


def _count_class(n):
    return '0' if n == 0 else ('1' if n == 1 else 'many')


def _normal(evs, status):
    return status in ('next', 'return', 'loopcut') and not is_failure(evs, status)


def _top_loop_segments(evs):
    """split a drain coroutine path into per-iteration segments of its outermost loop"""
    its = [i for i, e in enumerate(evs) if e.kind == 'ITER' and e.depth == 0]
    if not its:
        return []
    first_line = evs[its[0]].line
    its = [i for i in its if evs[i].line == first_line]
    bounds = its + [len(evs)]
    segs = []
    for a, b in zip(bounds, bounds[1:]):
        seg = evs[a:b]
        # an incomplete last segment (cut by LOOPCUT right after ITER) is dropped
        if len(seg) > 1:
            segs.append(seg)
    return segs


# ----------------------------------------------------------------------------- C01
def _emit_closure(cls, fn, seen=None):
    """_emit plus the private helpers it reaches through self-calls"""
    seen = seen if seen is not None else {}
    if fn is None or fn.fq in seen:
        return seen
    seen[fn.fq] = fn
    for n in own_nodes(fn.node):
        if isinstance(n, ast.Call) and isinstance(n.func, ast.Attribute) and isinstance(n.func.value, ast.Name) \
                and n.func.value.id == 'self' and n.func.attr.startswith('_') and n.func.attr not in (
                    '_emit', '_retain_refs', '_release_refs'):
            _emit_closure(cls, cls.find(n.func.attr), seen)
    return seen


def delivery_loops(cls, fn):
    """[(function, For node, wrappers)] for every loop over self.downstreams in _emit and its helpers"""
    from .idioms import local_defs
    out = []
    for f in _emit_closure(cls, fn).values():
        ldefs = local_defs(f.node)
        for l in own_nodes(f.node):
            if not isinstance(l, ast.For):
                continue
            it = l.iter
            wrappers = []
            hops = 0
            while hops < 4:
                hops += 1
                if isinstance(it, ast.Call) and isinstance(it.func, ast.Name) and len(it.args) == 1:
                    wrappers.append(it.func.id)
                    it = it.args[0]
                elif isinstance(it, ast.Name) and len(ldefs.get(it.id, [])) == 1 and ldefs[it.id][0] is not None:
                    it = ldefs[it.id][0]        # a snapshot bound to a local:  targets = list(self.downstreams)
                else:
                    break
            sliced = any(isinstance(x, ast.Subscript) for x in ast.walk(l.iter)) or isinstance(it, ast.Subscript)
            if self_field(it) == 'downstreams' and (isinstance(it, ast.Attribute) or sliced):
                out.append((f, l, wrappers, sliced))
    return out


def check_fanout(ctx, R):
    M = ctx.model
    fn = M.method('streamz.core', 'Stream', '_emit')
    con = ctx.construct(fn)
    ok, detail, line = True, '', fn.node.lineno
    deliver = delivery_loops(M.stream, fn)
    loop_node = None
    if len(deliver) != 1:
        ok, detail = False, 'expected exactly one loop over self.downstreams, found %d' % len(deliver)
    else:
        lf, l, wrappers, sliced = deliver[0]
        loop_node = l
        line = l.lineno
        badw = [w for w in wrappers if w not in ('list', 'tuple', 'iter')]
        if badw:
            ok, detail = False, 'delivery order changed by %s(...) around self.downstreams' % badw[0]
        if sliced:
            ok, detail = False, 'delivery loop slices self.downstreams'
        for n in ast.walk(l):
            if isinstance(n, (ast.Break, ast.Continue)):
                ok, detail = False, 'break/continue inside the delivery loop: a downstream can be skipped'
            if isinstance(n, ast.Return):
                ok, detail = False, 'return inside the delivery loop'
        rebinds = [n for f_ in _emit_closure(M.stream, fn).values() for n in own_nodes(f_.node)
                   if isinstance(n, (ast.Assign, ast.AugAssign)) and f_ is fn and any(
                       isinstance(t, ast.Name) and t.id == 'x' for t in (n.targets if isinstance(n, ast.Assign) else [n.target]))]
        if rebinds:
            ok, detail = False, 'the element parameter x is re-bound inside _emit'
    R.ob('FANOUT', con, 'delivery-loop', ok, detail, ctx.where(fn, line))
    # the loop runs over a snapshot: a downstream's update() may edit the graph (slice/destroy detach themselves), and a
    # set that changes size during iteration raises, so that the siblings attached later lose the element
    if loop_node is not None:
        live = None
        nl = 0
        for st, status in ctx.paths(lf, M.stream):
            for e in st.events:
                if e.kind == 'ITER' and (e.x or {}).get('node') is not None and e.x['node'].lineno == loop_node.lineno:
                    nl += 1
                    if e.x.get('iter_field') == 'downstreams':
                        live = st.events
        R.ob('FANOUT', con, 'iterates-snapshot', live is None and nl > 0,
             'the delivery loop iterates self.downstreams itself, not a snapshot (list(...)): a downstream that detaches itself '
             'during update() breaks the iteration and later siblings lose the element', ctx.where(fn, line),
             fmt_path(live) if live else None, nl)
    # per path: every iteration of the delivery loop calls <downstream>.update exactly once, unconditionally, with the
    # element itself; what the calls return reaches the returned list
    bad, badcall = None, None
    n = 0
    returned_somewhere = False
    for st, status in ctx.paths(fn, M.stream):
        evs = st.events
        if not _normal(evs, status):
            continue
        its = [i for i, e in enumerate(evs) if e.kind == 'ITER' and loop_node is not None and e.x.get('node') is loop_node]
        if not its:
            continue
        n += 1
        ends = [i for i, e in enumerate(evs) if e.kind in ('LOOPEXIT', 'LOOPCUT') and e.x and e.x.get('node') is loop_node]
        end = min([i for i in ends if i > its[-1]] or [len(evs)])
        bounds = its + [end]
        ncalls = 0
        for a_, b_ in zip(bounds, bounds[1:]):
            seg = evs[a_:b_]
            calls = [e for e in seg if e.kind == 'CALL' and e.c == 'update']
            ncalls += len(calls)
            if len(calls) != 1:
                badcall = (evs, 'an iteration of the delivery loop calls update() %d time(s)' % len(calls))
                continue
            c = calls[0]
            node = c.x['node']
            a0 = node.args[0] if node.args else next((k.value for k in node.keywords if k.arg == 'x'), None)
            if not (isinstance(a0, ast.Name) and pst_tags(st, c, a0) == frozenset({'p:x'})):
                badcall = (evs, 'update() is not called with the element parameter x itself (got %s)' % src(a0))
            # conditional call: a COND between the iteration start and the call that is not the type test on the result
            idx = seg.index(c)
            if any(e.kind == 'COND' and e.c is None for e in seg[:idx]):
                badcall = (evs, 'the update() call is conditional inside the delivery loop')
        ladds = [e for e in evs if e.kind == 'LADD']
        rets = [e for e in evs if e.kind == 'RETURN' and e.depth == 0]
        # every result is added to an accumulator on every path; that the accumulator is what is returned is judged
        # over the path set (a later filtering loop is enumerated independently of the delivery loop, so single paths
        # with "one delivery, zero filter iterations" are infeasible combinations)
        # (a result found to be None carries no backpressure and may be skipped)
        nones = [e for e in evs if e.kind == 'COND' and e.c is None and isinstance(e.a, str) and e.a.replace(' ', '').endswith('isNone')
                 and e.b is True]
        # (a result that is spliced element by element contributes nothing when it is empty: zero iterations over it)
        empties = [e for e in evs if e.kind == 'LOOPEXIT' and e.a == 0 and e.c == 'cond' and e.depth == 0
                   and (e.x or {}).get('node') is not loop_node and ({'x', 'p:x'} & set((e.x or {}).get('iter_tags') or ()))]
        if len(ladds) + len(nones) + len(empties) < ncalls or not rets:
            bad = evs
        if rets and rets[-1].b and ({'x', 'p:x'} & set(rets[-1].b)):
            returned_somewhere = True
    if n and not returned_somewhere and bad is None:
        bad = []
    R.ob('FANOUT', con, 'calls-update-once-with-x', badcall is None and n > 0, badcall[1] if badcall else '',
         ctx.where(fn, fn.node.lineno), fmt_path(badcall[0]) if badcall else None, n)
    # the metadata handed to every sibling (and released after each) is what this call of _emit received: a value re-read from
    # node state inside the loop changes when a downstream re-enters _emit (feedback edge, a sink that emits a follow-up)
    if loop_node is not None:
        reread, nm = None, 0
        for c in ast.walk(loop_node):
            if not (isinstance(c, ast.Call) and isinstance(c.func, ast.Attribute)):
                continue
            if c.func.attr == 'update':
                margs = [k.value for k in c.keywords if k.arg == 'metadata'] + list(c.args[2:3])
            elif c.func.attr in ('_release_refs', '_retain_refs'):
                margs = list(c.args[:1]) + [k.value for k in c.keywords if k.arg == 'metadata']
            else:
                continue
            for a in margs:
                nm += 1
                f = [self_field(y) for y in ast.walk(a) if self_field(y)]
                if f:
                    reread = 'self.%s in %s (line %d)' % (f[0], src(c)[:70], c.lineno)
        if nm:
            R.ob('FANOUT', con, 'metadata-of-this-call', reread is None,
                 'the metadata delivered to / released for each sibling is re-read from node state inside the delivery loop (%s): '
                 'a downstream that re-enters _emit replaces it, the remaining siblings get this element with the other '
                 'element\'s metadata' % reread, ctx.where(fn, line), None, nm)
    R.ob('FANOUT', con, 'results-returned', bad is None and n > 0,
         'what downstream.update() returned does not reach the list _emit returns', ctx.where(fn, fn.node.lineno),
         fmt_path(bad) if bad else None, n)
    # backing store of downstreams keeps insertion order
    init = M.method('streamz.core', 'Stream', '__init__')
    ctor = None
    for s in own_nodes(init.node):
        if isinstance(s, ast.Assign) and self_field(s.targets[0]) == 'downstreams' and isinstance(s.value, ast.Call):
            ctor = s.value
    ows = M.resolve_name(init.module, ctor.func) if ctor is not None else None
    ok = ows is not None and getattr(ows, 'name', None) == 'OrderedWeakrefSet'
    detail = '' if ok else 'Stream.downstreams is not an OrderedWeakrefSet (found %s)' % (src(ctor) if ctor else None)
    if ok:
        oinit = ows.methods.get('__init__')
        data = None
        for s in own_nodes(oinit.node) if oinit else []:
            if isinstance(s, ast.Assign) and self_field(s.targets[0]) == 'data' and isinstance(s.value, ast.Call):
                data = M.resolve_name(ows.module, s.value.func)
        if data is None or getattr(data, 'name', None) != 'OrderedSet':
            ok, detail = False, 'OrderedWeakrefSet.data is not an OrderedSet'
        else:
            dinit = data.methods.get('__init__')
            txt = src(dinit.node) if dinit else ''
            if 'OrderedDict' not in txt and 'dict(' not in txt and '{}' not in txt:
                ok, detail = False, 'OrderedSet is no longer backed by an insertion-ordered dict'
            it = data.methods.get('__iter__')
            if it is None or any(w in src(it.node) for w in ('reversed', 'sorted')):
                ok, detail = False, 'OrderedSet.__iter__ does not iterate in insertion order'
            add = data.methods.get('add')
            if add is None or 'move_to_end' in src(add.node):
                ok, detail = False, 'OrderedSet.add re-orders existing members'
        if not any(getattr(b, 'id', getattr(b, 'attr', None)) == 'WeakSet' for b in ows.node.bases):
            ok, detail = False, 'OrderedWeakrefSet is no longer a weakref.WeakSet'
    R.ob('FANOUT', 'streamz.orderedweakset.OrderedWeakrefSet', 'ordered-backing', ok, detail,
         ctx.where(init, ctor.lineno) if ctor is not None else None)


def check_emit_sig(ctx, R, classes):
    R.table('SIG', {'%s.%s' % k: sorted(v) for k, v in SIG.items()})
    for cls in classes:
        drains = drain_coroutines(ctx, cls)
        for key in [k for k in SIG if k[0] == cls.name]:
            mname = key[1]
            fn = cls.find(mname)        # (MRO-resolved: the method may live in a shared private base class)
            if fn is None or (fn.cls is ctx.model.stream and cls is not ctx.model.stream) or cls.module.name not in ('streamz.core', 'streamz.sinks', 'streamz.dask'):
                continue
            if cls.module.name == 'streamz.dask' and cls.name not in ('scatter', 'gather', 'map', 'starmap', 'accumulate'):
                continue
            allowed = SIG[key]
            con = ctx.construct(fn)
            paths = ctx.paths(fn, cls)
            seen, bad = set(), None
            n = 0
            drain = fn in drains
            for st, status in paths:
                evs = st.events
                if not _normal(evs, status):
                    continue
                segs = _top_loop_segments(evs) if drain else [evs]
                for seg in segs:
                    if any(e.kind in ('EXC', 'HANDLER') for e in seg):
                        if key != ('map_async', 'work_callback'):
                            continue
                    if drain and not any(e.kind in ('EM', 'TK', 'ST') for e in seg):
                        continue        # an idle iteration (waited, took nothing, changed nothing): not "an element"
                    n += 1
                    c = _count_class(sum(1 for e in seg if e.kind == 'EM'))
                    seen.add(c)
                    if c not in allowed and bad is None:
                        bad = (c, evs)
            if n == 0:
                continue
            missing = {c for c in allowed if c not in seen and c != 'many'} if allowed <= {'1'} else set()
            R.ob('EMIT-SIG', con, 'emissions', bad is None and not missing,
                 'a normal path emits %s time(s) per element, documented signature is {%s}' % (
                     bad[0] if bad else 'never ' + ','.join(missing), ','.join(sorted(allowed))),
                 ctx.where(fn, fn.node.lineno), fmt_path(bad[1]) if bad else None, n)


def element_buffers(ctx, cls):
    """fields that receive values derived from the element x in update() and feed the data argument of an emission"""
    recv = set()
    up = cls.find('update')
    if up is None or up.cls is None:
        return set()
    for st, status in ctx.paths(up, cls):
        for e in st.events:
            if e.kind == 'ST' and e.b and 'x' in e.b and e.c != 'reset':
                recv.add(e.a)
    feeds = set()
    for mname, fn in cls.methods.items():
        if mname == '__init__':
            continue
        for st, status in ctx.paths(fn, cls):
            for e in st.events:
                if e.kind == 'EM':
                    for t in e.x.get('data_tags') or ():
                        if t.startswith('field:'):
                            feeds.add(t[6:])
    return recv & feeds


def check_pass_value(ctx, R, classes):
    for cls in classes:
        if cls.name not in PASS_THROUGH or cls.module.name != 'streamz.core':
            continue
        ebufs = element_buffers(ctx, cls)
        up = cls.find('update')
        if up is None or up.cls is ctx.model.stream:
            continue
        con = ctx.construct(up)
        bad, n = None, 0
        detail = ''

        def resolve(v, fn_node):
            # a named temporary bound once to the entry:  entry = (x, metadata); self.queue.put(entry)
            k = 0
            while isinstance(v, ast.Name) and v.id != 'x' and k < 3:
                defs = [s_.value for s_ in ast.walk(fn_node) if isinstance(s_, ast.Assign)
                        and any(isinstance(t, ast.Name) and t.id == v.id for t in s_.targets)]
                if len(defs) != 1:
                    break
                v, k = defs[0], k + 1
            return v
        for st, status in ctx.paths(up, cls):
            evs = st.events
            if not _normal(evs, status):
                continue
            for e in evs:
                # direct emissions of the current element
                if e.kind == 'EM' and e.depth == 0 and not ebufs:
                    n += 1
                    d = e.x.get('data')
                    if not (isinstance(d, ast.Name) and d.id == 'x' and e.x.get('data_tags') == frozenset({'x'})):
                        bad, detail = evs, 'emits %s instead of the received element x' % src(d)
                # stores into the element buffer(s)
                if e.kind == 'ST' and e.a in ebufs and e.b and 'x' in e.b and e.c in ('append', 'put', 'put_nowait', 'setitem', 'assign', 'extend', 'appendleft', 'insert', 'add'):
                    n += 1
                    v = e.x.get('value')
                    owner_fn = up.node
                    for f_ in ctx.model.all_funcs():
                        if v is not None and f_.node.lineno <= getattr(v, 'lineno', 0) <= getattr(f_.node, 'end_lineno', 0) \
                                and f_.module is up.module and any(x_ is v for x_ in ast.walk(f_.node)):
                            owner_fn = f_.node
                            break
                    v = resolve(v, owner_fn)
                    from ..paths import caller_expr
                    i_ev = evs.index(e)
                    if isinstance(v, ast.Name) and v.id != 'x':
                        v = caller_expr(evs, i_ev, v)
                    elif isinstance(v, (ast.Tuple, ast.List)) and v.elts and isinstance(v.elts[0], ast.Name) and v.elts[0].id != 'x':
                        v = type(v)(elts=[caller_expr(evs, i_ev, v.elts[0])] + list(v.elts[1:]), ctx=ast.Load())
                    okv = isinstance(v, ast.Name) and v.id == 'x'
                    if isinstance(v, (ast.Tuple, ast.List)) and v.elts:
                        # (x, metadata) queue entries / [x] single slot
                        okv = isinstance(v.elts[0], ast.Name) and v.elts[0].id == 'x'
                    if e.c == 'extend':
                        okv = False
                    if not okv:
                        bad, detail = evs, 'buffers %s into self.%s instead of the received element x' % (src(v), e.a)
        if any(isinstance(s, (ast.Assign, ast.AugAssign)) and any(
                isinstance(t, ast.Name) and t.id == 'x' for t in (s.targets if isinstance(s, ast.Assign) else [s.target]))
               for s in own_nodes(up.node)):
            bad, detail = [], 'the element parameter x is re-bound in update()'
        if n:
            R.ob('PASS-VALUE', con, 'x', bad is None, detail, ctx.where(up, up.node.lineno),
                 fmt_path(bad) if bad else None, n)


def _queue_ctor(cls, field):
    init = cls.methods.get('__init__')
    if init is None:
        return None
    for s in own_nodes(init.node):
        if isinstance(s, ast.Assign) and isinstance(s.targets[0], ast.Attribute) and self_field(s.targets[0]) == field \
                and isinstance(s.value, ast.Call):
            return s.value
    return None


def check_fifo_end(ctx, R, classes):
    for cls in classes:
        if cls.module.name not in ('streamz.core', 'streamz.sinks'):
            continue
        fields = set(element_buffers(ctx, cls)) | set(md_containers(ctx, cls))
        # a list of pending per-element futures (update() appends the future it returns; a callback resolves them one by one)
        # is a queue of the same kind: the oldest pending future belongs to the oldest element
        up_ = cls.methods.get('update')
        if up_ is not None:
            returned = {r_.value.id for r_ in own_nodes(up_.node) if isinstance(r_, ast.Return) and isinstance(r_.value, ast.Name)}
            for n_ in own_nodes(up_.node):
                if isinstance(n_, ast.Call) and isinstance(n_.func, ast.Attribute) and n_.func.attr == 'append' \
                        and self_field(n_.func.value) and len(n_.args) == 1 and isinstance(n_.args[0], ast.Name) and n_.args[0].id in returned:
                    fields.add(self_field(n_.func.value))
        if not fields:
            continue
        ops = {f: {'add': set(), 'take': set()} for f in fields}
        where = {}
        for mname, fn in cls.methods.items():
            if mname == '__init__':
                continue
            for st, status in ctx.paths(fn, cls):
                for e in st.events:
                    if e.kind == 'ST' and e.a in fields:
                        if e.c in ('append', 'extend', 'put', 'put_nowait', 'setitem', 'add', 'update'):
                            ops[e.a]['add'].add('right')
                        elif e.c == 'appendleft':
                            ops[e.a]['add'].add('left')
                            where[e.a] = (fn, e.line)
                        elif e.c == 'insert':
                            a0 = (e.x.get('node').args[0] if e.x.get('node') is not None and e.x['node'].args else None)
                            side = 'left' if (isinstance(a0, ast.Constant) and a0.value == 0) else 'middle'
                            ops[e.a]['add'].add(side)
                            where[e.a] = (fn, e.line)
                    if e.kind == 'TK' and e.a in fields:
                        args = e.x.get('args') or []
                        if e.c in ('popleft', 'get', 'get_nowait', 'swap'):
                            ops[e.a]['take'].add('left')
                        elif e.c == 'pop':
                            if not args or args[0] in ('-1',):
                                ops[e.a]['take'].add('right')
                                where[e.a] = (fn, e.line)
                            elif args[0] == '0':
                                ops[e.a]['take'].add('left')
                        elif e.c == 'popitem':
                            ops[e.a]['take'].add('right')
                            where[e.a] = (fn, e.line)
        for f in sorted(fields):
            a, t = ops[f]['add'], ops[f]['take']
            if not a and not t:
                continue
            # content is always consumed from the left or emitted whole in container order, so the arrival
            # order is kept only if elements are added at the right
            ok = not (('right' in a and 'right' in t) or 'left' in a or 'middle' in a)
            detail = ''
            ctor = _queue_ctor(cls, f)
            if ctor is not None:
                nm = ctor.func.attr if isinstance(ctor.func, ast.Attribute) else getattr(ctor.func, 'id', None)
                if nm in QUEUE_NOT_FIFO:
                    ok, detail = False, 'self.%s is a %s, not a FIFO queue' % (f, nm)
                    where[f] = (cls.methods['__init__'], ctor.lineno)
            if not ok and not detail:
                detail = 'self.%s is filled at the %s and drained at the %s end (not first-in first-out)' % (
                    f, '/'.join(sorted(a)), '/'.join(sorted(t)))
            w = where.get(f)
            R.ob('FIFO-END', cls.module.name + '.' + cls.name, f, ok, detail,
                 ctx.where(w[0], w[1]) if w else '%s:%d' % (cls.file, cls.node.lineno))


def check_swap_atomic(ctx, R, classes):
    for cls in classes:
        fields = set(element_buffers(ctx, cls)) | set(md_containers(ctx, cls))
        if not fields:
            continue
        for mname, fn in ctx.entry_methods(cls):
            if mname == '__init__':
                continue
            con = ctx.construct(fn)
            acc = {}
            for st, status in ctx.paths(fn, cls):
                evs = st.events
                last_reset = {f: -1 for f in fields}
                for j, e in enumerate(evs):
                    f = e.a if e.kind in ('ST', 'TK') else None
                    if f not in fields:
                        continue
                    is_reset = (e.kind == 'ST' and (e.c == 'reset' or (e.c == 'setitem' and e.x.get('empty')))) or \
                        (e.kind == 'TK' and e.c == 'clear')
                    if not is_reset:
                        continue
                    # a read of f (since the previous reset) that flows into an emission, followed by a
                    # suspension, and only then the reset
                    start = last_reset[f] + 1
                    reads = [i for i in range(start, j) if evs[i].kind == 'RD' and evs[i].a == f]
                    bad = False
                    for r in reads:
                        ems = [i for i in range(r, j) if evs[i].kind == 'EM' and (
                            ('field:' + f) in (evs[i].x.get('data_tags') or ()) or ('field:' + f) in (evs[i].b or ()))]
                        # read, emit, and only then reset: whatever arrives while the emission is in progress - during
                        # a suspension, or re-entrantly through a feedback edge (the emission is a synchronous call into
                        # the downstream graph) - is wiped by the reset
                        if ems:
                            bad = True
                            why = 'suspends' if any(x.kind == 'SUS' for x in evs[ems[0]:j]) else 're-entrant'
                    # the same through a loop over (a snapshot of) f whose body emits - whatever the emitted value was
                    # routed through - with the reset only after the loop
                    for r in range(start, j):
                        ie = evs[r]
                        if ie.kind == 'ITER' and ie.a == 0 and (('field:' + f) in ((ie.x or {}).get('iter_tags') or ())
                                                               or (ie.x or {}).get('iter_field') == f):
                            node = (ie.x or {}).get('node')
                            end = next((i for i in range(r + 1, j) if evs[i].kind in ('LOOPEXIT', 'LOOPCUT')
                                        and (evs[i].x or {}).get('node') is node), j)
                            if any(evs[i].kind == 'EM' for i in range(r, end)):
                                bad = True
                    # a reset that is not a swap and whose content was not emitted before loses elements
                    cur = acc.get(f)
                    if cur is None or (cur[0] and bad):
                        acc[f] = (not bad, e.line, evs if bad else None)
                    last_reset[f] = j
            for f, (ok, line, evs) in acc.items():
                R.ob('SWAP-ATOMIC', con, f, ok,
                     'self.%s is read and emitted, and only afterwards reset: elements that arrive while the emission is in '
                     'progress (during a suspension, or re-entrantly through a feedback edge) are lost' % f,
                     ctx.where(fn, line), fmt_path(evs) if evs else None)


def check_reversed_stack(ctx, R, classes):
    for cls in classes:
        for mname, fn in cls.methods.items():
            rev = {}
            for n in own_nodes(fn.node):
                if isinstance(n, ast.Assign) and len(n.targets) == 1 and isinstance(n.targets[0], ast.Name):
                    v = n.value
                    is_rev = (isinstance(v, ast.Subscript) and isinstance(v.slice, ast.Slice) and v.slice.step is not None
                              and src(v.slice.step) == '-1' and v.slice.lower is None and v.slice.upper is None) or \
                             (isinstance(v, ast.Call) and src(v.func) == 'list' and v.args and isinstance(v.args[0], ast.Call)
                              and src(v.args[0].func) == 'reversed')
                    if is_rev:
                        rev[n.targets[0].id] = n
            for name, defn in rev.items():
                bad = None
                uses = 0
                parents = {}
                for n in ast.walk(fn.node):
                    for c in ast.iter_child_nodes(n):
                        parents[id(c)] = n
                for n in own_nodes(fn.node):
                    if isinstance(n, ast.Name) and n.id == name and isinstance(n.ctx, ast.Load):
                        uses += 1
                        par = parents.get(id(n))
                        ok = False
                        if isinstance(par, ast.Attribute) and par.attr == 'pop':
                            call = parents.get(id(par))
                            ok = isinstance(call, ast.Call) and not call.args and not call.keywords
                        elif isinstance(par, (ast.While, ast.If)) and par.test is n:
                            ok = True
                        elif isinstance(par, ast.UnaryOp) and isinstance(par.op, ast.Not):
                            ok = True
                        elif isinstance(par, ast.Call) and src(par.func) == 'len':
                            ok = True
                        elif isinstance(par, ast.Call) and src(par.func) == 'reversed' and len(par.args) == 1:
                            ok = True       # reversed again: original order restored
                        elif isinstance(par, ast.Subscript) and par.value is n and isinstance(par.slice, ast.Slice) \
                                and par.slice.step is not None and src(par.slice.step) == '-1' and par.slice.lower is None \
                                and par.slice.upper is None:
                            ok = True
                        if not ok:
                            bad = n
                R.ob('REVERSED-STACK', ctx.construct(fn), name, bad is None and uses > 0,
                     'the reversed copy `%s` is used other than through %s.pop(): that use sees the elements in reverse order (%s)'
                     % (name, name, src(parents.get(id(bad))) [:50] if bad is not None else ''),
                     ctx.where(fn, bad.lineno if bad is not None else defn.lineno))


def check_fresh_read(ctx, R, classes):
    for cls in classes:
        fields = set(element_buffers(ctx, cls)) | set(md_containers(ctx, cls))
        # containers only (filled by append/extend/setitem/put): a scalar state such as accumulate.state is
        # legitimately read before it is replaced
        containers = set()
        for mname, fn in ctx.entry_methods(cls):
            if mname == '__init__':
                continue
            for st, status in ctx.paths(fn, cls):
                for e in st.events:
                    if e.kind == 'ST' and e.a in fields and e.c in ('append', 'extend', 'setitem', 'put', 'put_nowait', 'add'):
                        containers.add(e.a)
        fields &= containers
        if not fields:
            continue
        for mname, fn in ctx.entry_methods(cls):
            if mname == '__init__':
                continue
            acc = {}
            for st, status in ctx.paths(fn, cls):
                evs = st.events
                for i, e in enumerate(evs):
                    if e.kind != 'EM' or e.depth != 0:
                        continue
                    for which, tags in (('data', e.x.get('data_tags') or ()), ('metadata', e.b or ())):
                        for t in tags:
                            if not t.startswith('field:') or t[6:] not in fields:
                                continue
                            f = t[6:]
                            reads = [j for j in range(i) if evs[j].kind == 'RD' and evs[j].a == f]
                            if not reads:
                                continue
                            last = reads[-1]
                            # the emission's own argument evaluation reads at the EM line; a snapshot bound to a local
                            # earlier is stale if the field was stored into after that read
                            stale = [x for x in evs[last + 1:i] if x.kind == 'ST' and x.a == f and x.c in (
                                'setitem', 'assign', 'append', 'extend', 'put', 'add') and not (x.x or {}).get('empty')
                                and x.c != 'reset']
                            key = (which, f)
                            cur = acc.get(key)
                            if cur is None or (cur[0] and stale):
                                acc[key] = (not stale, e.line, evs if stale else None)
            for (which, f), (ok, line, evs) in acc.items():
                R.ob('FRESH-READ', ctx.construct(fn), '%s<-%s' % (which, f), ok,
                     'the %s of an emission is built from a snapshot of self.%s taken before self.%s was updated for the '
                     'element being emitted' % (which, f, f), ctx.where(fn, line), fmt_path(evs) if evs else None)


def check_timedelta_total(ctx, R, modules=('streamz.core', 'streamz.sources', 'streamz.sinks', 'streamz.dataframe.core')):
    bad = []
    n = 0
    for fn in ctx.model.all_funcs():
        if fn.module.name not in modules:
            continue
        for x in own_nodes(fn.node):
            if isinstance(x, ast.Call) and isinstance(x.func, ast.Attribute) and x.func.attr == 'total_seconds':
                n += 1
            if isinstance(x, ast.Attribute) and x.attr in ('seconds', 'microseconds', 'days') and isinstance(x.ctx, ast.Load) \
                    and not (isinstance(x.value, ast.Name) and x.value.id == 'self'):
                bad.append((fn, x))
    R.ob('TIMEDELTA-TOTAL', 'streamz', 'durations', not bad and n >= 1,
         'a duration is converted through its .%s component (drops whole days / sub-second part): %s' % (
             bad[0][1].attr if bad else '?', ', '.join('%s:%d' % (f.qual, x.lineno) for f, x in bad)),
         ctx.where(bad[0][0], bad[0][1].lineno) if bad else None, None, n)
    # convert_interval on its symbolic paths: a string becomes Timedelta(<it>).total_seconds(), anything else is returned as it is
    from ..symexpr import SymEval, nf, norm_cond
    ci = ctx.model.function('streamz.core', 'convert_interval')
    p0 = ci.params()[0]
    ok, npaths = True, 0
    for r in SymEval(ctx.model, None).run(ci):
        if r.raised or r.ret is None:
            continue
        npaths += 1
        is_str = None
        for c, o in r.conds:
            t, o2 = norm_cond(c, o)
            if t.replace(' ', '') == 'isinstance(%s,str)' % p0:
                is_str = o2
        v = nf(r.ret)
        if is_str is True and not (v.endswith('Timedelta(%s).total_seconds()' % p0)):
            ok = False
        if is_str is False and v != p0:
            ok = False
        if is_str is None:
            ok = False
    R.ob('TIMEDELTA-TOTAL', ctx.construct(ci), 'convert_interval', ok and npaths >= 2,
         'convert_interval does not turn a string interval into Timedelta(...).total_seconds() (and return numbers unchanged)',
         ctx.where(ci, ci.node.lineno), None, npaths)


def _mutable_value(n):
    if isinstance(n, (ast.List, ast.Dict, ast.Set, ast.ListComp, ast.DictComp, ast.SetComp)):
        return True
    if isinstance(n, ast.Call):
        f = n.func
        nm = f.id if isinstance(f, ast.Name) else (f.attr if isinstance(f, ast.Attribute) else None)
        return nm in ('deque', 'list', 'dict', 'set', 'defaultdict', 'OrderedDict', 'Queue', 'Condition', 'bytearray')
    return False


def check_state_per_instance(ctx, R, classes):
    for cls in classes:
        init = cls.methods.get('__init__')
        con = cls.module.name + '.' + cls.name
        if init is not None:
            a = init.node.args
            params = a.posonlyargs + a.args
            defaults = [None] * (len(params) - len(a.defaults)) + list(a.defaults)
            pairs = list(zip(params, defaults)) + list(zip(a.kwonlyargs, a.kw_defaults))
            for prm, d in pairs:
                if d is None or not _mutable_value(d):
                    continue
                stored = any(isinstance(n, ast.Assign) and any(self_field(t) for t in n.targets)
                             and any(isinstance(x, ast.Name) and x.id == prm.arg for x in ast.walk(n.value))
                             for n in own_nodes(init.node))
                R.ob('STATE-PER-INSTANCE', con + '.__init__', prm.arg, not stored,
                     'the mutable default value of parameter `%s` (%s) is created once and becomes the state of every node '
                     'built without that argument: nodes share one buffer' % (prm.arg, src(d)), ctx.where(init, d.lineno))
        # class-level containers mutated through self
        for name, val in cls.assigns.items():
            if not _mutable_value(val):
                continue
            assigned_in_init = init is not None and any(
                isinstance(n, ast.Assign) and any(self_field(t) == name and isinstance(t, ast.Attribute) for t in n.targets)
                for n in own_nodes(init.node))
            mutated = False
            for mname, fn in cls.methods.items():
                for n in own_nodes(fn.node):
                    if isinstance(n, ast.Call) and isinstance(n.func, ast.Attribute) and self_field(n.func.value) == name \
                            and n.func.attr in (MUT_ADD | MUT_TAKE):
                        mutated = True
                    if isinstance(n, (ast.Assign, ast.Delete)):
                        for t in n.targets:
                            if isinstance(t, ast.Subscript) and self_field(t) == name:
                                mutated = True
            if mutated:
                R.ob('STATE-PER-INSTANCE', con, name, assigned_in_init,
                     'the class-level container %s.%s is mutated through self but never re-created per instance' % (cls.name, name),
                     '%s:%d' % (cls.file, val.lineno))
    R.count('classes_checked_for_shared_state', len(classes))


BATCHING = {'partition', 'partition_unique', 'timed_window', 'timed_window_unique', 'collect'}


def check_flush_resets(ctx, R, classes):
    """batching nodes: whatever is emitted out of the element buffer is removed from it on the same path
    (otherwise the next batch repeats it)"""
    R.table('BATCHING', sorted(BATCHING))
    for cls in classes:
        if cls.name not in BATCHING or cls.module.name != 'streamz.core':
            continue
        ebufs = element_buffers(ctx, cls)
        for mname, fn in ctx.entry_methods(cls):
            if mname == '__init__':
                continue
            con = ctx.construct(fn)
            acc = {}
            for st, status in ctx.paths(fn, cls):
                evs = st.events
                if not _normal(evs, status):
                    continue
                for i, e in enumerate(evs):
                    if e.kind != 'EM' or e.depth != 0:
                        continue
                    for f in ebufs:
                        if ('field:' + f) not in (e.x.get('data_tags') or ()):
                            continue
                        nxt = next((j for j in range(i + 1, len(evs)) if evs[j].kind == 'EM' and evs[j].line == e.line), len(evs))
                        prv = max([j for j in range(i) if evs[j].kind == 'EM' and evs[j].line == e.line] or [-1])
                        window = evs[prv + 1:nxt]
                        removed = any((x.kind == 'TK' and x.a == f and x.c in ('swap', 'clear')) or
                                      (x.kind == 'ST' and x.a == f and (x.c == 'reset' or x.x.get('empty'))) for x in window)
                        cur = acc.get(f)
                        if cur is None or (cur[0] and not removed):
                            acc[f] = (removed, e.line, None if removed else evs)
            for f, (ok, line, evs) in acc.items():
                R.ob('FLUSH-RESETS', con, f, ok, 'the content of self.%s is emitted but not removed: the next batch repeats it' % f,
                     ctx.where(fn, line), fmt_path(evs) if evs else None)


# ----------------------------------------------------------------------------- C10 paired buffers
PAIR_EXCEPTIONS = {
    ('sliding_window', '_buffer', 'metadata_buffer'): 'the element deque drops by maxlen; its twin is popped explicitly when full',
    ('latest', '*', '*'): 'the (only) element slot is consumed on delivery, its metadata slot is kept until replaced '
                                         '(hold-until-replaced protocol; see known finding EMITTED-STILL-HELD)',
}


def buffer_pairs(ctx, cls):
    eb = element_buffers(ctx, cls)
    md = set(md_containers(ctx, cls))
    both = eb & md                      # combined (x, metadata) entries: trivially paired
    eb, md = sorted(eb - both), sorted(md - both)
    if len(eb) == 1 and len(md) == 1:
        return [(eb[0], md[0])]
    pairs = []
    for e in eb:
        cand = [m for m in md if e.strip('_') in m or m.replace('metadata', '').strip('_') in e]
        if len(cand) == 1:
            pairs.append((e, cand[0]))
    return pairs


def _kind_class(e):
    if e.kind == 'TK' and e.c == 'pop' and len((e.x or {}).get('args') or []) == 2:
        return 'take?'          # d.pop(k, default): a no-op when the key is absent
    if e.kind == 'ST':
        if e.c in ('reset',) or (e.c == 'setitem' and e.x.get('empty')):
            return 'reset'
        if e.c in ('append', 'extend', 'put', 'put_nowait', 'setitem', 'assign', 'add', 'appendleft', 'insert'):
            return 'add'
    if e.kind == 'TK':
        return {'swap': 'take-all', 'clear': 'reset', 'pop': 'take', 'popleft': 'take', 'get': 'take', 'del': 'take',
                'get_nowait': 'take', 'popitem': 'take', 'remove': 'take', 'discard': 'take'}.get(e.c)
    return None


def _match_wild(a, b):
    """sequences of mutation classes agree when 'take?' (pop with a default) may stand for a take or for nothing"""
    def strip(seq):
        return [k for k in seq if k != 'take?']
    if strip(a) == strip(b):
        return True
    # a 'take?' on one side may face a real 'take' on the other
    def variants(seq):
        out = [[]]
        for k in seq:
            if k == 'take?':
                out = [v + ['take'] for v in out] + [v for v in out]
            else:
                out = [v + [k] for v in out]
        return out
    return any(x == y for x in variants(a) for y in variants(b))


def check_paired_buffer(ctx, R, classes):
    R.table('PAIR_EXCEPTIONS', {'%s.%s/%s' % k: v for k, v in PAIR_EXCEPTIONS.items()})
    for cls in classes:
        if cls.module.name != 'streamz.core':
            continue
        for d, m in buffer_pairs(ctx, cls):
            exc = (cls.name, d, m) in PAIR_EXCEPTIONS or ((cls.name, '*', '*') in PAIR_EXCEPTIONS and len(buffer_pairs(ctx, cls)) == 1)
            for mname, fn in ctx.entry_methods(cls):
                if mname == '__init__':
                    continue
                con = ctx.construct(fn)
                bad, n = None, 0
                detail = ''
                took_d = took_m = False
                for st, status in ctx.paths(fn, cls):
                    evs = st.events
                    if not _normal(evs, status):
                        continue
                    def kc(i_, e):
                        k_ = _kind_class(e)
                        # a removal under `if key in self.<f>:` is, like pop(key, default), a take only when the key is there
                        if k_ == 'take' and e.kind == 'TK' and e.c in ('pop', 'del') and any(
                                x.kind == 'COND' and x.b is True and isinstance(x.a, str) and x.a.replace(' ', '').endswith('inself.' + e.a)
                                for x in evs[:i_]):
                            return 'take?'
                        return k_
                    sd = [kc(i_, e) for i_, e in enumerate(evs) if e.kind in ('ST', 'TK') and e.a == d]
                    sm = [kc(i_, e) for i_, e in enumerate(evs) if e.kind in ('ST', 'TK') and e.a == m]
                    sd = [k for k in sd if k]
                    sm = [k for k in sm if k]
                    if not sd and not sm:
                        continue
                    n += 1
                    took_d = took_d or any(k in ('take', 'take?') for k in sd)
                    took_m = took_m or any(k in ('take', 'take?') for k in sm)
                    if sd == sm or _match_wild(sd, sm):
                        continue
                    # metadata adds may be guarded by truthiness of the (possibly empty) metadata
                    if cond_false(evs, len(evs), lambda a: a == 'metadata') and [k for k in sd if k != 'add'] == sm:
                        continue
                    if exc:
                        continue
                    bad = evs
                    detail = 'on one path self.%s sees %s but its twin self.%s sees %s' % (d, sd, m, sm)
                if n and bad is None and took_d != took_m and not exc:
                    bad, detail = [], 'entries are removed from self.%s but never from its twin self.%s' % (
                        (d, m) if took_d else (m, d))
                if n:
                    R.ob('PAIRED-BUFFER', con, '%s/%s' % (d, m), bad is None, detail, ctx.where(fn, fn.node.lineno),
                         fmt_path(bad) if bad else None, n)
        # slots (fields that are *assigned*, not appended to): whenever update() puts the arriving element into the data slot it
        # puts the arriving metadata into the twin slot on the same path - otherwise the element leaves with the metadata of an
        # earlier one (no exception table here: the hold-until-replaced protocol of `latest` does this too)
        up = cls.methods.get('update')
        if up is not None:
            for d, m in buffer_pairs(ctx, cls):
                bad, n = None, 0
                for st, status in ctx.paths(up, cls):
                    evs = st.events
                    if not _normal(evs, status):
                        continue
                    sd = [e for e in evs if e.kind == 'ST' and e.a == d and e.c == 'assign' and e.b and 'x' in e.b and not (e.x or {}).get('empty')]
                    if not sd:
                        continue
                    n += 1
                    sm = [e for e in evs if e.kind == 'ST' and e.a == m and e.c == 'assign' and e.b and 'md' in e.b]
                    if not sm:
                        bad = evs
                if n:
                    R.ob('PAIRED-BUFFER', ctx.construct(up), 'slot-stored-with-its-metadata:%s/%s' % (d, m), bad is None,
                         'a path of update() assigns the arriving element to self.%s without assigning the arriving metadata to '
                         'self.%s: the element is later emitted with the metadata of an earlier one' % (d, m),
                         ctx.where(up, up.node.lineno), fmt_path(bad) if bad else None, n)
        # the twins are constructed alike (same container type, same bound): a metadata deque without the maxlen of its element
        # deque - or the other way round - lets the two drift apart as soon as one explicit pop is skipped
        init = cls.find('__init__')
        if init is not None and init.cls is not None and buffer_pairs(ctx, cls):
            from .dasksib import _ctor_fields
            try:
                cf = _ctor_fields(ctx.model, cls, init)
            except AnalysisError:
                cf = None
            params = set(init.params()) | {a_.arg for a_ in init.node.args.kwonlyargs}
            for d, m in buffer_pairs(ctx, cls):
                if cf is None or d not in cf or m not in cf:
                    continue
                fd = sorted('<parameter>' if v in params else v for v in cf[d])
                fm = sorted('<parameter>' if v in params else v for v in cf[m])
                exc = (cls.name, d, m) in PAIR_EXCEPTIONS and 'maxlen' not in ' '.join(fd + fm) or (cls.name, '*', '*') in PAIR_EXCEPTIONS
                R.ob('PAIRED-BUFFER', ctx.construct(init), 'same-construction:%s/%s' % (d, m), fd == fm or exc,
                     'self.%s is constructed as %s but its twin self.%s as %s: a different container type or bound lets element and '
                     'metadata drift apart' % (d, ' | '.join(fd), m, ' | '.join(fm)), ctx.where(init, init.node.lineno))
        # an emission built from the element buffer carries the twin's content
        for d, m in buffer_pairs(ctx, cls):
            for mname, fn in ctx.entry_methods(cls):
                if mname == '__init__':
                    continue
                acc = None
                for st, status in ctx.paths(fn, cls):
                    for e in st.events:
                        if e.kind == 'EM' and e.depth == 0 and ('field:' + d) in (e.x.get('data_tags') or ()):
                            okm = ('field:' + m) in (e.b or ())
                            if not okm:
                                # the metadata list is filled by an explicit loop over the twin and this path is the
                                # loop's zero-iteration exit (an empty twin): nothing to carry
                                i_em = st.events.index(e)
                                okm = any(x.kind == 'LOOPEXIT' and x.a == 0 and x.c == 'cond'
                                          and ('field:' + m) in ((x.x or {}).get('iter_tags') or ()) for x in st.events[:i_em])
                            if acc is None or (acc[0] and not okm):
                                acc = (okm, e.line, None if okm else st.events)
                if acc is not None:
                    R.ob('META-MEMBERS', ctx.construct(fn), '%s/%s' % (d, m), acc[0],
                         'the emitted value is built from self.%s but its metadata is not built from self.%s' % (d, m),
                         ctx.where(fn, acc[1]), fmt_path(acc[2]) if acc[2] else None)
        # member order: data and metadata arguments of an emission carry the same order-changing wrappers
        for mname, fn in ctx.entry_methods(cls):
            if mname == '__init__':
                continue
            for st, status in ctx.paths(fn, cls):
                for e in st.events:
                    if e.kind != 'EM' or e.x.get('md') is None or e.depth != 0:
                        continue
                    wd = _order_wrappers(fn, e.x.get('data'))
                    wm = _order_wrappers(fn, e.x.get('md'))
                    if wd or wm:
                        R.ob('PAIRED-BUFFER', ctx.construct(fn), 'order@%s' % e.a, wd == wm,
                             'members are re-ordered on one side only: data %s, metadata %s' % (sorted(wd), sorted(wm)),
                             ctx.where(fn, e.line))


def _order_wrappers(fn, node, depth=0):
    """order-changing operations applied on the way to `node` (through single-assignment locals)"""
    out = set()
    if node is None or depth > 4:
        return out
    for n in ast.walk(node):
        if isinstance(n, ast.Call) and isinstance(n.func, ast.Name) and n.func.id in ORDER_WRAPPERS:
            out.add(n.func.id)
        if isinstance(n, ast.Subscript) and isinstance(n.slice, ast.Slice) and n.slice.step is not None \
                and src(n.slice.step) == '-1':
            out.add('[::-1]')
        if isinstance(n, ast.Call) and isinstance(n.func, ast.Attribute) and n.func.attr in ('reverse', 'sort'):
            out.add(n.func.attr)
        if isinstance(n, ast.Name) and depth < 4:
            defs = [s for s in own_nodes(fn.node) if isinstance(s, ast.Assign) and any(
                isinstance(t, ast.Name) and t.id == n.id for t in s.targets)]
            if len(defs) == 1 and defs[0].value is not node:
                out |= _order_wrappers(fn, defs[0].value, depth + 1)
    return out


# ----------------------------------------------------------------------------- C02 scheduling
SCHED_PRIMS = {'add_callback', 'spawn_callback', 'call_later', 'call_at', 'add_timeout', 'create_task', '_create_task',
               'ensure_future'}
SINGLE_CONSUMER_TABLE = {
    ('map_async', 'start'): 'start() signals the previous consumer to stop (stop_work.set()) before creating a new one',
}


def drain_coroutines(ctx, cls):
    out = []
    for mname, fn in cls.methods.items():
        if not fn.is_coro or mname == 'update':
            continue
        paths = ctx.paths(fn, cls)
        if any(status == 'loopcut' for _, status in paths) or (
                any(isinstance(n, ast.While) for n in own_nodes(fn.node)) and any(
                    e.kind == 'TK' and e.c in ('get', 'swap', 'popleft') for st, _ in paths for e in st.events)):
            out.append(fn)
    return out


def _refs_method(node, name):
    for n in ast.walk(node):
        if isinstance(n, ast.Attribute) and n.attr == name and isinstance(n.value, ast.Name) and n.value.id == 'self':
            return True
    return False


def _helper_schedules(model, fn, call, drain_name):
    """number of scheduling calls a module-level helper makes with the parameter that receives self.<drain_name> at `call`
    (a scheduling call inside a loop of the helper counts twice)"""
    from ..model import Func
    h = model.resolve_name(fn.module, call.func)
    if not isinstance(h, Func) or h.cls is not None:
        return 0
    params = h.params()
    recv = set()
    for i, a_ in enumerate(call.args):
        if isinstance(a_, ast.Starred):
            return 0
        if _refs_method(a_, drain_name) and i < len(params):
            recv.add(params[i])
    for kw in call.keywords:
        if kw.arg and _refs_method(kw.value, drain_name):
            recv.add(kw.arg)
    if not recv:
        return 0
    k = 0
    for x in own_nodes(h.node):
        if isinstance(x, ast.Call) and isinstance(x.func, ast.Attribute) and x.func.attr in SCHED_PRIMS and any(
                isinstance(y, ast.Name) and y.id in recv for a_ in x.args for y in ast.walk(a_)):
            k += 2 if _inside(h.node, x, (ast.For, ast.While)) else 1
    return k


def check_single_consumer(ctx, R, classes):
    R.table('SINGLE_CONSUMER_TABLE', {'%s.%s' % k: v for k, v in SINGLE_CONSUMER_TABLE.items()})
    for cls in classes:
        for drain in drain_coroutines(ctx, cls):
            if drain.name in ('_flush', 'poll_kafka', '_read', '_insert_job', '_wait_for_work_slot'):
                continue
            sites = []
            for mname, fn in cls.methods.items():
                for n in own_nodes(fn.node):
                    if isinstance(n, ast.Call) and isinstance(n.func, ast.Attribute) and n.func.attr in SCHED_PRIMS \
                            and any(_refs_method(a, drain.name) for a in n.args):
                        sites.append((fn, n))
                    elif isinstance(n, ast.Call) and isinstance(n.func, ast.Name):
                        # the bound method handed to a module-level helper which schedules its parameter
                        sites.extend((fn, n) for _ in range(_helper_schedules(ctx.model, fn, n, drain.name)))
            # the constructor, on its event paths (a private base constructor called explicitly, a base helper that receives the
            # bound method as `callback=self.cb`, module-level helpers: all spliced, parameters mapped back to the caller)
            init_fn = cls.find('__init__')
            if init_fn is not None and init_fn.cls is not None and not any(fn.name == '__init__' for fn, n in sites):
                from ..paths import caller_expr
                best = 0
                node_hit = None
                try:
                    ipaths = ctx.paths(init_fn, cls, depth=6, no_inline=('_set_asynchronous', '_set_loop', '_check_end', 'start', '_get_com'))
                except AnalysisError:
                    ipaths = []
                for st, status in ipaths:
                    k = 0
                    evs = st.events
                    for i, e in enumerate(evs):
                        cn = (e.x or {}).get('node') if e.kind in ('CALL', 'DEFER') else None
                        if isinstance(cn, ast.Call) and isinstance(cn.func, ast.Attribute) and cn.func.attr in SCHED_PRIMS:
                            for a in cn.args:
                                a2 = caller_expr(evs, i, a) if isinstance(a, ast.Name) else a
                                if a2 is not None and _refs_method(a2, drain.name):
                                    k += 1
                                    node_hit = cn
                    best = max(best, k)
                if best:
                    # sites inside helpers that only the constructor reaches are on those paths already: not counted twice
                    def _callers(name):
                        return {cname for cname, c in cls.methods.items() for x in own_nodes(c.node)
                                if isinstance(x, ast.Call) and isinstance(x.func, ast.Attribute) and x.func.attr == name
                                and isinstance(x.func.value, ast.Name) and x.func.value.id == 'self'}
                    ctor_only = {'__init__'}
                    grew = True
                    while grew:
                        grew = False
                        for mname in cls.methods:
                            if mname not in ctor_only:
                                cs = _callers(mname)
                                if cs and cs <= ctor_only:
                                    ctor_only.add(mname)
                                    grew = True
                    sites = [(fn, n) for fn, n in sites if fn.name == '__init__' or fn.name not in ctor_only]
                sites.extend((init_fn, node_hit) for _ in range(best))
            if not sites:
                continue
            # a coroutine that is scheduled together with arguments (add_callback(self._produce, x, future)) is a job for one
            # element, not the consumer of a queue
            if all(n is not None and len(getattr(n, 'args', ())) > 1 and isinstance(n.func, ast.Attribute) and n.func.attr in SCHED_PRIMS
                   for fn, n in sites):
                continue
            con = ctx.construct(drain)
            # helper indirection: a site inside a helper counts at each of the helper's callers
            expanded = []
            for fn, n in sites:
                if fn.name in ('__init__',) or fn.name in ('update', 'start', 'stop'):
                    expanded.append((fn, n, fn))
                else:
                    callers = [(c, x) for cname, c in cls.methods.items() for x in own_nodes(c.node)
                               if isinstance(x, ast.Call) and isinstance(x.func, ast.Attribute) and x.func.attr == fn.name
                               and isinstance(x.func.value, ast.Name) and x.func.value.id == 'self']
                    if not callers:
                        expanded.append((fn, n, fn))
                    for c, x in callers:
                        expanded.append((c, x, fn))
            ok, detail, where = True, '', None
            once = 0
            for fn, n, via in expanded:
                in_loop = _inside(fn.node, n, (ast.For, ast.While))
                if fn.name == '__init__' and not in_loop:
                    once += 1
                    continue
                if (cls.name, fn.name) in SINGLE_CONSUMER_TABLE:
                    continue
                guard = _guarding_if(fn.node, n)
                guarded = False
                if guard is not None:
                    gf = {self_field(x) for x in ast.walk(guard.test) if self_field(x)}
                    stored = {self_field(t) for s in ast.walk(guard) if isinstance(s, ast.Assign) for t in s.targets
                              if self_field(t)}
                    guarded = bool(gf & stored)
                if not guarded or in_loop:
                    ok = False
                    detail = 'consumer %s is scheduled again from %s (unguarded): two consumers on one queue can reorder ' \
                             'or duplicate deliveries' % (drain.name, fn.name)
                    where = ctx.where(fn, n.lineno)
            if once > 1:
                ok, detail = False, 'consumer %s is scheduled %d times in __init__' % (drain.name, once)
            # a failing element does not end the consumer: where the coroutine catches what the per-element work raises, control
            # returns to the loop (the handler sits inside the loop, not around it)
            dead, n_h = None, 0
            for st, status in ctx.paths(drain, cls):
                evs = st.events
                for i, e in enumerate(evs):
                    if e.kind != 'HANDLED' or e.depth != 0:
                        continue
                    if not any(x.kind == 'ITER' and x.depth == 0 for x in evs[:i]):
                        continue
                    n_h += 1
                    back = any(x.depth == 0 and (x.kind in ('ITER', 'LOOPCUT') or (x.kind == 'LOOPEXIT' and x.c == 'cond')) for x in evs[i + 1:])
                    if not back:
                        dead = evs
            if n_h:
                R.ob('SINGLE-CONSUMER', con, 'survives-a-failing-element', dead is None,
                     'after catching the exception of one element the consumer %s does not return to its loop (the handler is '
                     'around the loop, not inside it): one failing element ends the only consumer, everything queued behind it '
                     'is never delivered' % drain.name, ctx.where(drain, drain.node.lineno), fmt_path(dead) if dead else None, n_h)
            # a consumer that is started once, from the constructor, is never started again: it must never end (a loop header
            # that tests node state - `while self.upstreams:` - lets it die during a temporary disconnect)
            if once == 1 and not any((cls.name, fn_.name) in SINGLE_CONSUMER_TABLE for fn_, n_, via in expanded):
                ended = None
                for st, status in ctx.paths(drain, cls):
                    if status in ('next', 'return'):
                        # (a consumer that ends because its node was stopped - a test of the stop flag - ends legitimately)
                        if any(e.kind == 'COND' and isinstance(e.a, str) and ('stopped' in e.a or 'is_set' in e.a) for e in st.events[-6:]):
                            continue
                        ended = st.events
                R.ob('SINGLE-CONSUMER', con, 'consumer-never-ends', ended is None,
                     'the consumer %s is scheduled once, at construction, but can terminate: what is queued then, and everything '
                     'that arrives later, is never emitted' % drain.name, ctx.where(drain, drain.node.lineno),
                     fmt_path(ended) if ended else None)
            # a consumer that is replaced by signalling it to stop (SINGLE_CONSUMER_TABLE) must end on that signal alone: its
            # loop test is `not <signal>.is_set()` (or `while True: if <signal>.is_set(): break`), nothing may keep it alive
            if any((cls.name, fn_.name) in SINGLE_CONSUMER_TABLE for fn_, n_, via in expanded):
                loops = [l for l in own_nodes(drain.node) if isinstance(l, ast.While)]
                sig = [p_ for p_ in drain.params() if p_ != 'self']
                honoured = False
                for l in loops:
                    t = l.test
                    if isinstance(t, ast.UnaryOp) and isinstance(t.op, ast.Not) and isinstance(t.operand, ast.Call) \
                            and isinstance(t.operand.func, ast.Attribute) and t.operand.func.attr == 'is_set' \
                            and src(t.operand.func.value) in sig:
                        honoured = True
                    if isinstance(t, ast.Constant) and t.value is True and l.body and isinstance(l.body[0], ast.If) \
                            and isinstance(l.body[0].test, ast.Call) and isinstance(l.body[0].test.func, ast.Attribute) \
                            and l.body[0].test.func.attr == 'is_set' and src(l.body[0].test.func.value) in sig \
                            and l.body[0].body and isinstance(l.body[0].body[-1], (ast.Break, ast.Return)):
                        honoured = True
                R.ob('SINGLE-CONSUMER', con, 'stop-signal-ends-the-consumer', honoured,
                     'the consumer %s is replaced by setting its stop event, but its loop (%s) does not end on that event alone: an '
                     'old consumer that stays alive next to the new one takes jobs too - more jobs in flight than the bound allows, '
                     'and deliveries out of order' % (drain.name, src(loops[0].test)[:70] if loops else 'no while loop'),
                     ctx.where(drain, loops[0].lineno if loops else drain.node.lineno))
            R.ob('SINGLE-CONSUMER', con, 'schedule-sites', ok, detail, where or ctx.where(drain, drain.node.lineno),
                 None, len(expanded))


def _inside(root, node, kinds):
    for n in ast.walk(root):
        if isinstance(n, kinds) and n is not root:
            if any(x is node for x in ast.walk(n)):
                if isinstance(n, (ast.FunctionDef, ast.AsyncFunctionDef)):
                    continue
                return True
    return False


def _guarding_if(root, node):
    best = None
    for n in ast.walk(root):
        if isinstance(n, ast.If) and any(x is node for s in n.body for x in ast.walk(s)):
            best = n
    return best


def check_serial_drain(ctx, R, classes):
    for cls in classes:
        for drain in drain_coroutines(ctx, cls):
            con = ctx.construct(drain)
            bad, n = None, 0
            for st, status in ctx.paths(drain, cls):
                evs = st.events
                for seg in _top_loop_segments(evs):
                    ems = [i for i, e in enumerate(seg) if e.kind == 'EM']
                    for i in ems:
                        if any(x.kind == 'EXC' and x.x and x.x.get('source') is seg[i] for x in seg[i:i + 2]):
                            continue
                        n += 1
                        tag = 'emit@%d' % seg[i].line
                        rest = seg[i + 1:]
                        ok = any(x.kind == 'SUS' and x.b and (tag in x.b) for x in rest) or \
                            any(x.kind == 'COND' and x.b is False and tag in _cond_tags(st, x) for x in rest)
                        if not ok:
                            # awaited through a slot field
                            slots = [x.a for x in rest if x.kind == 'ST' and x.b and tag in x.b and x.c == 'assign']
                            ok = any(x.kind == 'SUS' and x.b and ('field:' + f) in x.b for f in slots for x in rest)
                        if not ok and not is_failure(seg, status):
                            bad = evs
            # the take from the node's queue is awaited itself: wrapped in with_timeout()/wait_for() an expired wait leaves the
            # getter registered in the queue, and that orphan swallows the next element that is put
            aband = None
            for x in own_nodes(drain.node):
                if isinstance(x, ast.Call) and src(x.func).split('.')[-1] in ('with_timeout', 'wait_for', 'shield') and any(
                        isinstance(y, ast.Call) and isinstance(y.func, ast.Attribute) and y.func.attr in ('get', 'get_nowait')
                        and self_field(y.func.value) is not None for a_ in x.args for y in ast.walk(a_)):
                    aband = x
            if n:
                R.ob('SERIAL-DRAIN', con, 'take-not-abandoned', aband is None,
                     'the queue take is wrapped in %s(...): when the timeout expires the getter stays registered and swallows '
                     'the next element' % (src(aband.func) if aband is not None else ''),
                     ctx.where(drain, aband.lineno) if aband is not None else ctx.where(drain, drain.node.lineno))
            if n:
                R.ob('SERIAL-DRAIN', con, 'await-before-next-take', bad is None,
                     'the drain loop starts its next iteration without having awaited the emission of this one',
                     ctx.where(drain, drain.node.lineno), fmt_path(bad) if bad else None, n)


def check_atomic_rmw(ctx, R, funcs):
    """funcs: iterable of (cls, fn) coroutine methods"""
    for cls, fn in funcs:
        if not fn.is_coro:
            continue
        con = ctx.construct(fn)
        acc = {}
        for st, status in ctx.paths(fn, cls):
            evs = st.events
            for j, e in enumerate(evs):
                if e.kind != 'ST' or e.c not in ('assign', 'setitem') or not e.b or ('field:' + e.a) not in e.b:
                    continue
                f = e.a
                prev = max([i for i in range(j) if evs[i].kind == 'ST' and evs[i].a == f] or [-1])
                reads = [i for i in range(prev + 1, j) if evs[i].kind == 'RD' and evs[i].a == f]
                if not reads:
                    continue
                stale = any(x.kind == 'SUS' for x in evs[reads[0]:j])
                cur = acc.get(f)
                if cur is None or (cur[0] and stale):
                    acc[f] = (not stale, e.line, evs if stale else None)
        for f, (ok, line, evs) in acc.items():
            R.ob('ATOMIC-RMW', con, f, ok,
                 'self.%s is read, the coroutine suspends, and the stale value is then written back: concurrent callers '
                 'overwrite each other' % f, ctx.where(fn, line), fmt_path(evs) if evs else None)


def check_awaitable_share(ctx, R, classes):
    for cls in classes:
        up = cls.methods.get('update')
        if up is None:
            continue
        returned = set()
        for st, status in ctx.paths(up, cls):
            for e in st.events:
                if e.kind == 'RETURN' and e.depth == 0 and isinstance(e.x.get('node'), ast.Attribute) \
                        and self_field(e.x['node']):
                    returned.add(self_field(e.x['node']))
        for mname, fn in cls.methods.items():
            if mname in ('__init__', 'update') or not fn.is_coro:
                continue
            for st, status in ctx.paths(fn, cls):
                evs = st.events
                for i, e in enumerate(evs):
                    if e.kind == 'ST' and e.c == 'assign' and e.a in returned and e.b and any(
                            t.startswith('emit@') for t in e.b):
                        awaited_here = any(x.kind == 'SUS' and x.b and ('field:' + e.a) in x.b for x in evs[i:])
                        v = e.x.get('value')
                        conv = isinstance(v, ast.Call) and (
                            (isinstance(v.func, ast.Attribute) and v.func.attr in ('convert_yielded', 'ensure_future', 'gather', 'multi'))
                            or (isinstance(v.func, ast.Name) and v.func.id in ('convert_yielded', 'ensure_future', 'multi')))
                        R.ob('AWAITABLE-SHARE', ctx.construct(fn), e.a, conv or not awaited_here,
                             'the raw _emit result (may hold single-use coroutine objects) is stored in self.%s, awaited '
                             'here and also returned to every producer by update()' % e.a, ctx.where(fn, e.line),
                             fmt_path(evs) if not (conv or not awaited_here) else None)


def _is_notify(e):
    return (e.kind == 'DEFER' and e.c and 'notify' in e.c) or (e.kind == 'CALL' and e.c in ('notify', 'notify_all'))


def _tested_fields(e):
    """fields whose value decides this event: an if-test (COND) or the test of a while loop (its ITER / LOOPEXIT)"""
    node = None
    if e.kind == 'COND':
        node = (e.x or {}).get('node')
    elif e.kind in ('LOOPEXIT', 'ITER') and isinstance((e.x or {}).get('node'), ast.While) and (e.kind == 'ITER' or e.c == 'cond'):
        node = e.x['node'].test
    if node is None:
        return set()
    return {self_field(x) for x in ast.walk(node) if self_field(x)}


def _is_cond_wait(e):
    n = (e.x or {}).get('node')
    return e.kind == 'SUS' and isinstance(n, ast.Call) and isinstance(n.func, ast.Attribute) and n.func.attr == 'wait' \
        and 'condition' in src(n.func.value).lower()


def check_mailbox(ctx, R, classes):
    """single-slot mailbox (latest): decided on event paths, so helpers (`_store`, `_take`, `_wake_consumer`, a generator
    `_until_parked` driven by `yield from`), renamed fields, flattened / break-style wait loops are transparent.
      notifier  = an entry method with a path that stores into fields and then notifies a condition
      slot      = the fields such a path stores into
      forwarder = a coroutine that waits on the condition and emits
      (a) predicate-recheck   each emission's read of the slot follows a test of the slot made after the last suspension
      (b) consume-on-read     the slot is emptied before the emission suspends
      (c) notify-on-every-store   every normal notifier path that stores an element notifies afterwards
      (d) slot-wraps-element  the slot whose emptiness is tested never holds the bare element"""
    for cls in classes:
        entries = [f for _, f in ctx.entry_methods(cls) if f.name != '__init__']
        notifiers, W = {}, set()
        for fn in entries:
            if fn.is_coro:
                continue
            for st, status in ctx.paths(fn, cls):
                evs = st.events
                ni = [i for i, e in enumerate(evs) if _is_notify(e)]
                if not ni:
                    continue
                notifiers[fn.name] = fn
                for e in evs[:ni[-1]]:
                    if e.kind == 'ST' and e.c == 'assign':
                        W.add(e.a)
        if not notifiers or not W:
            continue
        for fn in entries:
            if not fn.is_coro or fn.name in notifiers:
                continue
            paths = list(ctx.paths(fn, cls))
            if not any(_is_cond_wait(e) for st, status in paths for e in st.events):
                continue
            if not any(e.kind == 'EM' for st, status in paths for e in st.events):
                continue
            con = ctx.construct(fn)
            tested_fields = set()
            bad_a, bad_b, n = None, None, 0
            for st, status in paths:
                evs = st.events
                for e in evs:
                    tested_fields |= (_tested_fields(e) & W)
                for seg in _top_loop_segments(evs):
                    ems = [i for i, e in enumerate(seg) if e.kind == 'EM']
                    if not ems:
                        continue
                    n += 1
                    i = ems[0]
                    # the read of the slot that feeds the emission: first read / take / reset of a slot field in the segment
                    # that is not itself inside a test
                    reads = [j for j, e in enumerate(seg[:i + 1]) if (e.kind in ('TK',) and e.a in W)
                             or (e.kind == 'ST' and e.a in W) or (e.kind == 'EM')]
                    i_read = reads[0]
                    last_sus = max([j for j, e in enumerate(seg[:i_read]) if e.kind == 'SUS'] or [-1])
                    tests = [j for j, e in enumerate(seg[:i_read]) if j > last_sus and (_tested_fields(e) & W)]
                    if not tests:
                        bad_a = evs
                    consumed = any(x.kind == 'ST' and x.a in W and (x.c == 'reset' or x.x.get('empty')) for x in seg[:i]) or \
                        any(x.kind == 'TK' and x.a in W for x in seg[:i])
                    if not consumed:
                        bad_b = evs
            # (e) the forwarder waits only on a slot it has just found empty: an element that arrived while it was busy
            # delivering must be picked up without a further notification
            bad_e, n_w = None, 0
            # (f) the forwarder never terminates
            bad_f = None
            for st, status in paths:
                evs = st.events
                if status in ('next', 'return'):
                    bad_f = evs
                for i, e in enumerate(evs):
                    if not _is_cond_wait(e):
                        continue
                    n_w += 1
                    prev_sus = max([j for j in range(i) if evs[j].kind == 'SUS'] or [-1])
                    if not any(_tested_fields(x) & W for x in evs[prev_sus + 1:i]):
                        bad_e = evs
            R.ob('MAILBOX', con, 'wait-only-when-empty', bad_e is None and n_w > 0,
                 'the forwarding coroutine waits for a notification without having looked at the slot since its last suspension: '
                 'an element that arrived while it was delivering the previous one stays in the slot until some later arrival',
                 ctx.where(fn, fn.node.lineno), fmt_path(bad_e) if bad_e else None, n_w)
            R.ob('MAILBOX', con, 'never-exits', bad_f is None,
                 'the forwarding coroutine can terminate: elements that arrive afterwards are never delivered',
                 ctx.where(fn, fn.node.lineno), fmt_path(bad_f) if bad_f else None)
            R.ob('MAILBOX', con, 'predicate-recheck', bad_a is None and n > 0,
                 'condition.wait() is not followed by a re-check of the message slot (%s) before the slot is read: a '
                 'notification that arrives while the coroutine is suspended elsewhere is lost / a spurious wake-up reads an '
                 'empty slot' % ', '.join(sorted(W)), ctx.where(fn, fn.node.lineno), fmt_path(bad_a) if bad_a else None, n)
            # (c) every store into the message slot is followed by a notification, unconditionally
            for nname, nfn in notifiers.items():
                badn, nn = None, 0
                bare = None
                direct = None
                skipped = None
                for st, status in ctx.paths(nfn, cls):
                    evs = st.events
                    stores = [i for i, e in enumerate(evs) if e.kind == 'ST' and e.a in W and e.c == 'assign' and not e.x.get('empty')
                              and e.b and 'x' in e.b]
                    if not stores and not is_failure(evs, status) and nname == 'update':
                        skipped = evs       # (g) an arrival that is not put into the slot is lost: the newest element must win
                    if not stores or is_failure(evs, status):
                        continue
                    nn += 1
                    if not any(_is_notify(e) for e in evs[stores[0]:]):
                        badn = evs
                    # the forwarder runs on the node's loop, update() may be called from any thread: the condition (not
                    # thread-safe) is notified through loop.add_callback, never directly
                    if any(e.kind == 'CALL' and e.c in ('notify', 'notify_all') for e in evs[stores[0]:]):
                        direct = evs
                    # (d) the slot wraps the element, so that no element value can look like "empty"
                    for i in stores:
                        e = evs[i]
                        if isinstance(e.x.get('value'), ast.Name) and e.b == frozenset({'x'}) and e.a in tested_fields:
                            from ..paths import caller_expr
                            val = e.x['value']
                            # (a local bound once to [x] is the wrapped element)
                            defs = [s_.value for f_ in ctx.model.all_funcs() if f_.module is nfn.module and f_.cls is cls
                                    for s_ in own_nodes(f_.node) if isinstance(s_, ast.Assign) and s_.lineno <= e.line
                                    and any(isinstance(t, ast.Name) and t.id == val.id for t in s_.targets)]
                            if len(defs) == 1 and isinstance(defs[0], (ast.List, ast.Tuple)):
                                continue
                            val = caller_expr(evs, i, val)
                            if isinstance(val, (ast.List, ast.Tuple)):
                                continue
                            bare = (e, evs)
                R.ob('MAILBOX', ctx.construct(nfn), 'notify-on-every-store', badn is None and nn > 0,
                     'a path stores a new element into the slot without notifying the forwarding coroutine: it can sleep for '
                     'ever on an occupied slot', ctx.where(nfn, nfn.node.lineno), fmt_path(badn) if badn else None, nn)
                if nname == 'update':
                    R.ob('MAILBOX', ctx.construct(nfn), 'stores-every-arrival', skipped is None and nn > 0,
                         'a normal path of update() does not put the arriving element into the slot: that element is lost although it '
                         'is the newest one', ctx.where(nfn, nfn.node.lineno), fmt_path(skipped) if skipped else None, nn)
                R.ob('MAILBOX', ctx.construct(nfn), 'notify-via-loop', direct is None,
                     'the condition is notified directly from update(): when update() runs in another thread than the node\'s loop '
                     'the forwarding coroutine is not woken (tornado conditions are not thread-safe; use loop.add_callback)',
                     ctx.where(nfn, nfn.node.lineno), fmt_path(direct) if direct else None)
                R.ob('MAILBOX', ctx.construct(nfn), 'slot-wraps-element', bare is None,
                     'the bare element is stored in the slot whose emptiness the forwarding coroutine tests: an element equal '
                     'to the empty marker (None / falsy) is indistinguishable from "no element"',
                     ctx.where(nfn, bare[0].line) if bare else None, fmt_path(bare[1]) if bare else None)
            # (h) only the forwarder empties the slot: any other method that resets it (a cleanup hook, stop(), ...) drops an
            # element that is waiting to be delivered
            for other in entries:
                if other is fn or other.name in ('__init__',):
                    continue
                hit = None
                for st, status in ctx.paths(other, cls):
                    for e in st.events:
                        if e.kind == 'ST' and e.a in tested_fields | (W & {f_ for f_ in W if f_ in tested_fields}) and (
                                e.c == 'reset' or (e.x or {}).get('empty')):
                            hit = (e, st.events)
                    for e in st.events:
                        if e.kind == 'TK' and e.a in tested_fields and other.name not in notifiers:
                            hit = (e, st.events)
                if hit is not None or other.name in notifiers:
                    R.ob('MAILBOX', ctx.construct(other), 'only-forwarder-empties', hit is None,
                         '%s empties the message slot: an element that is waiting for the forwarding coroutine is dropped' % other.name,
                         ctx.where(other, hit[0].line) if hit else None, fmt_path(hit[1]) if hit else None)
            R.ob('MAILBOX', con, 'consume-on-read', bad_b is None and n > 0,
                 'the message slot is not emptied when taken: a second queued notification re-delivers the same element',
                 ctx.where(fn, fn.node.lineno), fmt_path(bad_b) if bad_b else None, n)


# ----------------------------------------------------------------------------- C08 partition timer
def check_partition_timer(ctx, R):
    """partition.update on the let-normal form of every normal path (helpers such as _enqueue / _flush_full / _arm_timer,
    named booleans, renamed fields and if/elif restructurings are transparent):
      APPEND-THEN-TEST  the size that decides a flush is a len() of the key's buffer taken after the append, compared with n
      ARM-CANCEL        a size-triggered flush cancels the key's pending timer first, unless a configuration-only test
                        (timeout is None / n == 1) says none can be pending
      ARM-ON-FIRST      the timer is armed exactly when that len() is 1 and a timeout is configured, with
                        call_later(self._timeout, self._flush, key), stored under the key; never on a flushing path"""
    import re
    from ..symexpr import SymEval, nf, norm_cond
    M = ctx.model
    cls = M.cls('streamz.core', 'partition')
    up = cls.find('update')
    if up is None:
        raise AnalysisError('anchor vanished: partition.update')
    con = ctx.construct(up)
    paths = [r for r in SymEval(M, cls, name_calls=True, no_splice=('_flush',)).run(up) if not r.raised]
    if not paths:
        raise AnalysisError('partition.update: no normal path (unrecognised spelling)')
    bad_order = bad_cancel = bad_arm = None
    n_flush = n_arm = 0
    for r in paths:
        calls = [(k, c) for k, (c, s_, l) in enumerate(r.calls)]
        appends = [k for k, c in calls if isinstance(c, ast.Call) and isinstance(c.func, ast.Attribute) and c.func.attr == 'append'
                   and nf(c.func.value).startswith('self._buffer[') and c.args and nf(c.args[0]) == 'x']
        if len(appends) != 1:
            continue            # PASS-VALUE / FLUSH-RESETS own "the element is buffered once"
        a = appends[0]
        BUF = nf(r.calls[a][0].func.value)
        KEY = BUF[len('self._buffer['):-1]
        lens = {k for k, c in calls if isinstance(c, ast.Call) and nf(c.func) == 'len' and c.args and nf(c.args[0]) == BUF}
        flushes = [k for k, c in calls if isinstance(c, ast.Call) and nf(c.func) == 'self._flush' and c.args and nf(c.args[0]) == KEY]
        arms = [k for k, c in calls if isinstance(c, ast.Call) and isinstance(c.func, ast.Attribute) and c.func.attr == 'call_later']
        cancels = [k for k, c in calls if isinstance(c, ast.Call) and isinstance(c.func, ast.Attribute) and c.func.attr == 'cancel'
                   and nf(c.func.value).endswith('[%s]' % KEY) and nf(c.func.value).startswith('self.')]

        def size_test(value):
            """outcome of a test `len(BUF) == value` (len taken after the append) on this path, or None"""
            for c_, o in r.conds:
                t, o2 = norm_cond(c_, o)
                for piece, po in _conjuncts(t, o2):
                    m_ = re.fullmatch(r'C(\d+)==(.+)', piece.replace(' ', ''))
                    m2 = re.fullmatch(r'(.+)==C(\d+)', piece.replace(' ', ''))
                    sym, other = (int(m_.group(1)), m_.group(2)) if m_ else ((int(m2.group(2)), m2.group(1)) if m2 else (None, None))
                    if sym is not None and other == value and sym in lens:
                        return po, sym
                    # the len() spelled inside the test itself (second operand of an `and`: evaluated when the test is)
                    if piece.replace(' ', '') in ('len(%s)==%s' % (BUF, value), '%s==len(%s)' % (value, BUF)):
                        ci = next((i_ for i_, c2 in enumerate(r.conds) if c2[0] == c_), None)
                        pa = next((j_ for j_, key in enumerate(r.order) if key == ('call', a)), -1)
                        pc = next((j_ for j_, key in enumerate(r.order) if key == ('cond', ci)), -1)
                        return po, (a + 1 if pc > pa else -1)
            return None, None

        def cfg(text):
            for c_, o in r.conds:
                t, o2 = norm_cond(c_, o)
                for piece, po in _conjuncts(t, o2):
                    if piece.replace(' ', '') == text:
                        return po
            return None
        if flushes:
            n_flush += 1
            full, sym = size_test('self.n')
            if full is not True or sym < a:
                bad_order = bad_order or 'a path flushes without having found len(buffer) == self.n after the append'
            if not any(k < flushes[0] for k in cancels):
                # acceptable only if a configuration-only test said no timer can be pending
                no_timer = cfg('self._timeoutisNone') is True or cfg('self.n>1') is False
                for c_, o in r.conds:
                    t, o2 = norm_cond(c_, o)
                    try:
                        e = ast.parse(t, mode='eval').body
                    except SyntaxError:
                        continue
                    flds = {self_field(x) for x in ast.walk(e) if self_field(x)}
                    others = {x.id for x in ast.walk(e) if isinstance(x, ast.Name) and x.id != 'self'}
                    if o2 is False and '_timeout' in flds and flds <= {'_timeout', 'n', '_key'} and not others:
                        no_timer = True     # "a timer can be pending" was tested on the configuration only, and is false
                if not no_timer:
                    bad_cancel = bad_cancel or 'a size-triggered flush does not cancel the pending timeout of its key first'
            if arms:
                bad_arm = bad_arm or 'a flushing path also arms a timer'
        else:
            full, sym = size_test('self.n')
            if full is True:
                bad_order = bad_order or 'a full partition is not flushed'
        if arms:
            n_arm += 1
            k = arms[0]
            c = r.calls[k][0]
            first, sym = size_test('1')
            args = [nf(x) for x in c.args]
            stored = [nf(cc.targets[0]) for kk, cc in calls if isinstance(cc, ast.Assign) and nf(cc.value) == 'C%d' % k]
            if first is not True or (sym is not None and sym < a):
                bad_arm = bad_arm or 'the timer is armed on a path that has not found len(buffer) == 1 after the append'
            elif cfg('self._timeoutisNone') is not False:
                bad_arm = bad_arm or 'the timer is armed although no timeout may be configured'
            elif args != ['self._timeout', 'self._flush', KEY] or nf(c.func) != 'self.loop.call_later':
                bad_arm = bad_arm or 'the timer is not self.loop.call_later(self._timeout, self._flush, key) (found %s)' % src(c)[:80]
            elif not (len(stored) == 1 and re.fullmatch(r'self\.\w+\[%s\]' % re.escape(KEY), stored[0])):
                bad_arm = bad_arm or 'the timer handle is not stored under the key (found %s)' % stored
        else:
            first, sym = size_test('1')
            if first is True and cfg('self._timeoutisNone') is False and not flushes:
                bad_arm = bad_arm or 'the first element of a partition does not arm the timeout'
    R.ob('APPEND-THEN-TEST', con, '_buffer', bad_order is None and n_flush > 0,
         bad_order or 'no flushing path found', ctx.where(up, up.node.lineno), None, n_flush)
    R.ob('ARM-CANCEL', con, '_callbacks', bad_cancel is None and n_flush > 0,
         (bad_cancel or '') + ' (a spurious partial/empty partition is emitted later)', ctx.where(up, up.node.lineno), None, n_flush)
    R.ob('ARM-ON-FIRST', con, '_callbacks', bad_arm is None and n_arm > 0,
         bad_arm or 'no path arms the timeout', ctx.where(up, up.node.lineno), None, n_arm)
    # the handle map is written by the arming site and read by cancel(); an entry removed after a suspension of a coroutine
    # may be the handle of a timer that update() armed meanwhile: that timer can then neither be cancelled nor found
    tfields = set()
    for r in paths:
        for kk, (cc, s_, l) in enumerate(r.calls):
            if isinstance(cc, ast.Assign) and isinstance(cc.value, ast.Name) and re.fullmatch(r'C\d+', cc.value.id):
                tc = r.calls[int(cc.value.id[1:])][0]
                if isinstance(tc, ast.Call) and isinstance(tc.func, ast.Attribute) and tc.func.attr == 'call_later':
                    m_ = re.match(r'self\.(\w+)\[', nf(cc.targets[0]))
                    if m_:
                        tfields.add(m_.group(1))
    late = None
    for mname, fn in ctx.entry_methods(cls):
        if mname == '__init__' or not (fn.is_coro or fn.is_generator):
            continue
        for st, status in ctx.paths(fn, cls):
            sus = False
            for e in st.events:
                if e.kind == 'SUS':
                    sus = True
                if sus and e.kind == 'TK' and e.a in tfields:
                    late = (fn, e, st.events)
    R.ob('ARM-CANCEL', con, 'handles-not-dropped-late', late is None and bool(tfields),
         'a timer handle is removed from self.%s after a suspension (in %s): a timer armed by update() in the meantime is '
         'forgotten, so the next size flush cannot cancel it' % (sorted(tfields)[0] if tfields else '?', late[0].qual if late else ''),
         ctx.where(late[0], late[1].line) if late else None, fmt_path(late[2]) if late else None)


def _conjuncts(text, outcome):
    """a test known true: each conjunct of an `and` is true; a test known false: each disjunct of an `or` is false"""
    try:
        t = ast.parse(text, mode='eval').body
    except SyntaxError:
        return [(text, outcome)]
    from ..symexpr import norm_cond
    if isinstance(t, ast.BoolOp) and ((isinstance(t.op, ast.And) and outcome) or (isinstance(t.op, ast.Or) and not outcome)):
        out = []
        for v in t.values:
            c2, o2 = norm_cond(src(v), outcome)
            out.extend(_conjuncts(c2, o2))
        return out
    return [(text, outcome)]


def check_tick_period(ctx, R, classes):
    """structural part of the deadline clause: the period of the tick loop is the configured interval.
    On the let-normal form of every cycle of cb: one awaited sleep(self.interval), not conditional on anything, after the
    emission was awaited; __init__ stores convert_interval(interval) in self.interval and nothing else writes it."""
    from ..symexpr import SymEval, nf
    M = ctx.model
    for cls in classes:
        fn = cls.find('cb')
        if fn is None or not fn.is_coro:
            continue
        con = ctx.construct(fn)
        paths = [r for r in SymEval(M, cls, name_calls=True).run(fn) if not r.raised]
        bad, n = None, 0
        for r in paths:
            if not r.emits:
                continue            # the loop was not entered on this symbolic path
            n += 1
            sleeps = [(k, c) for k, (c, s_, l) in enumerate(r.calls) if isinstance(c, ast.Call) and nf(c.func).split('.')[-1] == 'sleep']
            if len(sleeps) != 1:
                bad = bad or 'a cycle sleeps %d times' % len(sleeps)
                continue
            k, c = sleeps[0]
            if [nf(a) for a in c.args] != ['self.interval'] or c.keywords:
                bad = bad or 'a cycle sleeps for %s, not for self.interval' % ', '.join(nf(a) for a in c.args)
            if k not in r.awaited_calls:
                bad = bad or 'the sleep is not awaited'
            if any(not c_.startswith('<') and 'True' != c_ for c_, o in r.conds):
                bad = bad or 'the cycle (and its sleep) depends on a test: %s' % [c_ for c_, o in r.conds][:1]
            pos_sleep = next(j for j, key in enumerate(r.order) if key == ('call', k))
            pos_emit = next(j for j, key in enumerate(r.order) if key[0] == 'emit')
            if pos_sleep < pos_emit or 0 not in r.awaited:
                bad = bad or 'the cycle sleeps before its emission was awaited'
        R.ob('TICK-PERIOD', con, 'sleep-interval', bad is None and n > 0, bad or 'no cycle found', ctx.where(fn, fn.node.lineno), None, n)
        # the tick loop never ends: a loop that can be left (a test on node state in its header, a break, a return) stops
        # emitting for good - what is buffered at that moment, and everything that arrives later, is never emitted
        ended = None
        for st, status in ctx.paths(fn, cls):
            if status in ('next', 'return'):
                ended = st.events
        R.ob('TICK-PERIOD', con, 'never-exits', ended is None,
             'the tick coroutine can terminate (its loop can be left): elements buffered then, and all later ones, are never emitted',
             ctx.where(fn, fn.node.lineno), fmt_path(ended) if ended else None)
        # the field holds the converted constructor argument and is written nowhere else
        init = cls.find('__init__')
        writers = []
        for c2 in cls.mro:
            for mname, f2 in c2.methods.items():
                for x in own_nodes(f2.node):
                    if isinstance(x, (ast.Assign, ast.AugAssign)):
                        for t in (x.targets if isinstance(x, ast.Assign) else [x.target]):
                            if self_field(t) == 'interval' and isinstance(t, ast.Attribute):
                                writers.append((f2, x))
        ok = len(writers) == 1 and writers[0][0] is init and isinstance(writers[0][1], ast.Assign) and 'interval' in init.params()
        if ok:
            # the stored value on the constructor's normal form (a named intermediate is transparent)
            from .dasksib import _ctor_fields
            try:
                ok = _ctor_fields(M, cls, init).get('interval') == ['convert_interval(interval)']
            except AnalysisError:
                ok = nf(writers[0][1].value) == 'convert_interval(interval)'
        R.ob('TICK-PERIOD', ctx.construct(init), 'interval-field', ok,
             'self.interval is not exactly convert_interval(<constructor argument interval>), written once in __init__',
             ctx.where(init, init.node.lineno))


def check_element_membership(ctx, R, classes):
    """see RULES['ELEMENT-MEMBERSHIP']"""
    for cls in classes:
        if cls.module.name != 'streamz.core':
            continue
        ebufs = element_buffers(ctx, cls)
        if not ebufs:
            continue
        for mname, fn in cls.methods.items():
            if mname == '__init__':
                continue
            bad = None
            n = 0
            for node in own_nodes(fn.node):
                tests = []
                if isinstance(node, (ast.If, ast.While, ast.IfExp, ast.Assert)):
                    tests.append(node.test)
                for t in tests:
                    stack = [t]
                    while stack:
                        e = stack.pop()
                        if isinstance(e, ast.BoolOp):
                            stack.extend(e.values)
                            continue
                        if isinstance(e, ast.UnaryOp) and isinstance(e.op, ast.Not):
                            stack.append(e.operand)
                            continue

                        def stored_element(v):
                            # self.buf[k] / self.buf.get(k) / self.buf.setdefault(k, x): the element stored under k
                            if isinstance(v, ast.Subscript) and self_field(v) in ebufs and not isinstance(v.slice, ast.Slice):
                                return True
                            if isinstance(v, ast.Call) and isinstance(v.func, ast.Attribute) and v.func.attr in ('get', 'setdefault', 'pop') \
                                    and self_field(v.func.value) in ebufs and isinstance(v.func.value, ast.Attribute):
                                # a sentinel default compared afterwards is handled by the Compare case below
                                return True
                            return False
                        if stored_element(e):
                            n += 1
                            bad = bad or (e, 'the truthiness of the stored element %s decides presence' % src(e)[:50])
                        elif isinstance(e, ast.Compare) and len(e.ops) == 1 and isinstance(e.ops[0], (ast.Is, ast.IsNot)) \
                                and (stored_element(e.left) or stored_element(e.comparators[0])) \
                                and not any(isinstance(y, ast.Constant) for y in (e.left, e.comparators[0])):
                            n += 1
                            bad = bad or (e, 'the identity of the stored element (%s) decides presence' % src(e)[:60])
                        elif isinstance(e, ast.Compare) and len(e.ops) == 1 and isinstance(e.ops[0], (ast.In, ast.NotIn)) \
                                and self_field(e.comparators[0]) in ebufs:
                            n += 1
            if n:
                R.ob('ELEMENT-MEMBERSHIP', ctx.construct(fn), 'presence-test', bad is None, bad[1] if bad else '',
                     ctx.where(fn, bad[0].lineno) if bad else ctx.where(fn, fn.node.lineno), None, n)


def check_eager_update(ctx, R, classes):
    # (terminal sinks whose update() is `async def` - to_websocket - only do I/O that has to be awaited anyway; they are noted)
    for c in ctx.model.nodes:
        u = c.methods.get('update')
        if u is not None and isinstance(u.node, ast.AsyncFunctionDef) and c not in classes and c.module.name.startswith('streamz.'):
            R.note('EAGER-UPDATE outside the anchors: %s.update is a native coroutine function (lost if a caller drops the result)' % c.fq)
    for cls in classes:
        up = cls.methods.get('update')
        if up is None:
            continue
        R.ob('EAGER-UPDATE', ctx.construct(up), 'update', not isinstance(up.node, ast.AsyncFunctionDef),
             'update() is a native coroutine function: its body does not run (nothing is reserved, buffered or emitted) unless '
             'the caller awaits the returned coroutine object', ctx.where(up, up.node.lineno))


# ----------------------------------------------------------------------------- CANCEL-ONLY-TIMERS
def check_cancel_only_timers(ctx, R, modules=('streamz.core', 'streamz.sinks', 'streamz.sources', 'streamz.dask')):
    """who-may-cancel: every `<expr>.cancel()` in the node modules has as its receiver (an element of) a field of the class that
    only ever receives results of loop.call_later / call_at / add_timeout.  A cancel() of anything else - the worker task of
    map_async, a future returned by _emit - propagates a CancelledError into the coroutine that is processing an element: that
    element is lost while the ones queued behind it are delivered (an order / loss change that depends on timing)."""
    M = ctx.model
    TIMER_MAKERS = ('call_later', 'call_at', 'add_timeout')
    n = 0
    for fn in M.all_funcs():
        if fn.module.name not in modules or fn.cls is None:
            continue
        sites = [c for c in own_nodes(fn.node) if isinstance(c, ast.Call) and isinstance(c.func, ast.Attribute) and c.func.attr == 'cancel'
                 and not c.args and not c.keywords]
        if not sites:
            continue
        cls = fn.cls
        # fields of the class that hold timer handles: every store into them (item or whole) is a timer maker's result
        timer_fields, other_fields = set(), set()
        def timer_value(g, v):
            # a timer maker's result, directly or through a local bound to nothing else
            if isinstance(v, ast.Call) and isinstance(v.func, ast.Attribute) and v.func.attr in TIMER_MAKERS:
                return True
            if isinstance(v, ast.Name):
                defs = [a_.value for a_ in own_nodes(g.node) if isinstance(a_, ast.Assign)
                        and any(isinstance(t_, ast.Name) and t_.id == v.id for t_ in a_.targets)]
                return bool(defs) and all(isinstance(d_, ast.Call) and isinstance(d_.func, ast.Attribute)
                                          and d_.func.attr in TIMER_MAKERS for d_ in defs)
            return False
        for g in [f for f in M.all_funcs() if f.cls is cls]:
            for st_ in own_nodes(g.node):
                if isinstance(st_, ast.Assign):
                    for t in st_.targets:
                        f = self_field(t)
                        if f is None:
                            continue
                        v = st_.value
                        if timer_value(g, v):
                            timer_fields.add(f)
                        elif isinstance(t, ast.Subscript) or not (isinstance(v, (ast.Dict, ast.List, ast.Constant)) or (
                                isinstance(v, ast.Call) and src(v.func) in ('dict', 'list', 'defaultdict', 'OrderedDict'))):
                            other_fields.add(f)
        for c in sites:
            n += 1
            recv = c.func.value
            f = self_field(recv)
            if f is None and isinstance(recv, ast.Name):
                # a local taken out of the field:  handle = self._callbacks.pop(key) / self._callbacks[key] / .get(key)
                defs = [a_.value for a_ in own_nodes(fn.node) if isinstance(a_, ast.Assign)
                        and any(isinstance(t_, ast.Name) and t_.id == recv.id for t_ in a_.targets)]
                fs = set()
                for d_ in defs:
                    if isinstance(d_, ast.Call) and isinstance(d_.func, ast.Attribute) and d_.func.attr in ('pop', 'get'):
                        fs.add(self_field(d_.func.value))
                    else:
                        fs.add(self_field(d_) if isinstance(d_, (ast.Subscript, ast.Attribute)) else None)
                if len(fs) == 1 and None not in fs:
                    f = fs.pop()
            ok = f is not None and f in timer_fields and f not in other_fields
            R.ob('CANCEL-ONLY-TIMERS', ctx.construct(fn), 'cancel@%d' % sites.index(c), ok,
                 '%s.cancel(): the receiver is not a stored timer handle - cancelling a task / future aborts the element it is '
                 'processing, and which element that is depends on timing' % src(recv)[:50], ctx.where(fn, c.lineno))
    R.count('cancel_sites', n)


def check_zip_consume_first(ctx, R):
    """zip.update takes the heads it is going to emit out of the per-upstream buffers *before* it emits them: the emission is a
    synchronous call into the downstream graph, and whatever happens there (a sink that connects another input to this zip, a
    feedback edge that delivers the next element) must find the buffers without the entries that are being delivered."""
    M = ctx.model
    cls = M.cls('streamz.core', 'zip')
    up = cls.find('update')
    bad, n = None, 0
    seen_early = False
    for st, status in ctx.paths(up, cls, no_inline=('pack_literals',)):
        evs = st.events
        ems = [i for i, e in enumerate(evs) if e.kind == 'EM']
        if not ems:
            continue
        n += 1
        late = [e for e in evs[ems[0]:] if e.kind == 'TK' and e.a == 'buffers' and e.c in ('popleft', 'pop')]
        early = [e for e in evs[:ems[0]] if e.kind == 'TK' and e.a == 'buffers' and e.c in ('popleft', 'pop')]
        seen_early = seen_early or bool(early)
        if late:
            bad = evs
    R.ob('SWAP-ATOMIC', ctx.construct(up), 'buffers-consumed-before-emit', bad is None and n > 0 and seen_early,
         'zip.update emits the heads of its buffers and removes them only afterwards: an input connected (or an element delivered) '
         'from inside that emission finds stale heads - the late pop then hits the wrong buffer entry or an empty buffer',
         ctx.where(up, up.node.lineno), fmt_path(bad) if bad else None, n)
