#!/usr/bin/env python3
"""tools/keep_benign.py <prop> [<prop> ...]
copies /tmp/seed/outb_<prop>/refactor_<n>/{patch.diff,notes.md} to /verif/benign/<prop>-<n>/ after checking that the
patch applies to /repo's HEAD (git apply --check; /repo itself is not modified)"""
import os
import shutil
import subprocess
import sys

for prop in sys.argv[1:]:
    base = '/tmp/seed/outb_%s' % prop
    for d in sorted(os.listdir(base)):
        if not d.startswith('refactor_'):
            continue
        n = d.split('_')[1]
        src = os.path.join(base, d)
        patch = os.path.join(src, 'patch.diff')
        if not os.path.exists(patch) or os.path.getsize(patch) == 0:
            print('%s-%s: no patch' % (prop, n))
            continue
        r = subprocess.run(['git', '-C', '/repo', 'apply', '--check', patch], capture_output=True, text=True)
        if r.returncode != 0:
            print('%s-%s: DOES NOT APPLY: %s' % (prop, n, r.stderr.strip()[:200]))
            continue
        dst = '/verif/benign/%s-%s' % (prop, n)
        os.makedirs(dst, exist_ok=True)
        shutil.copy(patch, os.path.join(dst, 'patch.diff'))
        if os.path.exists(os.path.join(src, 'notes.md')):
            shutil.copy(os.path.join(src, 'notes.md'), os.path.join(dst, 'notes.md'))
        print('%s-%s: kept' % (prop, n))
