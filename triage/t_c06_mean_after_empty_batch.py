"""C06/C07 witness: Mean.on_new / on_old stored the divide-by-zero guard (counts = 1) back into the
*state*.  After an empty first batch the running count is one too high for ever, so every later mean is
sum / (n + 1)."""
import warnings
warnings.filterwarnings('ignore')
import pandas as pd
from streamz import Stream
from streamz.dataframe import DataFrame

df = pd.DataFrame({'x': [1., 2., 3., 4., 5., 6.]})


def run(batches, build):
    src = Stream()
    sdf = DataFrame(src, example=df.iloc[:0])
    out = build(sdf).stream.sink_to_list()
    for b in batches:
        src.emit(b)
    return out

got = run([df.iloc[:0], df.iloc[:3]], lambda s: s.x.mean())
print('running mean after [empty, 3 rows]:', got, 'pandas says', df.iloc[:3].x.mean())
assert abs(got[-1] - df.iloc[:3].x.mean()) < 1e-12
got = run([df.iloc[:0], df.iloc[:3], df.iloc[3:]], lambda s: s.window(n=2).x.mean())
print('window(2) mean after [empty, 3, 3]:', got, 'pandas says', df.iloc[4:].x.mean())
assert abs(got[-1] - df.iloc[4:].x.mean()) < 1e-12
print('OK')
